import OrsoVerif.Model.Profile
/-! Helper lemmas for C15 (column profiles). -/
namespace Profile

variable {α : Type}

/-! ### present / missing -/

theorem present_append (a b : List (Option α)) : present (a ++ b) = present a ++ present b := by
  simp [present, List.filterMap_append]

theorem length_present_add_nulls (xs : List (Option α)) :
    (present xs).length + xs.countP (fun x => x.isNone) = xs.length := by
  induction xs with
  | nil => simp [present]
  | cons x xs ih =>
    cases x with
    | none => simp [present] at ih ⊢; omega
    | some v => simp [present] at ih ⊢; omega

theorem length_present_le (xs : List (Option α)) : (present xs).length ≤ xs.length := by
  have := length_present_add_nulls xs; omega

theorem present_eq_nil_iff (xs : List (Option α)) : present xs = [] ↔ ∀ x ∈ xs, x = none := by
  induction xs with
  | nil => simp [present]
  | cons x xs ih =>
    cases x with
    | none => simpa [present] using ih
    | some v => simp [present]

/-! ### extremes -/

/-- What the extreme combination of `__add__` has to compute: the smaller / larger of the extremes that
are present. -/
def optMinSpec : Option Int → Option Int → Option Int
  | none, b => b
  | some a, none => some a
  | some a, some b => some (if a ≤ b then a else b)

def optMaxSpec : Option Int → Option Int → Option Int
  | none, b => b
  | some a, none => some a
  | some a, some b => some (if a ≤ b then b else a)

section extremes
variable (le : α → α → Bool)

theorem minFold_spec (htot : ∀ a b, le a b = true ∨ le b a = true)
    (htr : ∀ a b c, le a b = true → le b c = true → le a c = true) :
    ∀ (xs : List α) (x : α),
      (xs.foldl (fun m y => if le m y then m else y) x ∈ x :: xs) ∧
      ∀ y ∈ x :: xs, le (xs.foldl (fun m y => if le m y then m else y) x) y = true := by
  intro xs
  induction xs with
  | nil =>
    intro x
    refine ⟨by simp, ?_⟩
    intro y hy
    simp at hy
    subst hy
    simpa using htot y y
  | cons y ys ih =>
    intro x
    simp only [List.foldl_cons]
    by_cases hxy : le x y = true
    · simp only [hxy, if_true]
      obtain ⟨hm, hle⟩ := ih x
      refine ⟨?_, ?_⟩
      · rcases List.mem_cons.mp hm with h | h
        · rw [h]; simp
        · simp [h]
      · intro z hz
        rcases List.mem_cons.mp hz with h | h
        · subst h; exact hle _ (by simp)
        · rcases List.mem_cons.mp h with h | h
          · subst h; exact htr _ _ _ (hle x (by simp)) hxy
          · exact hle z (by simp [h])
    · have hyx : le y x = true := by
        rcases htot x y with h | h
        · exact absurd h hxy
        · exact h
      simp only [hxy]
      obtain ⟨hm, hle⟩ := ih y
      refine ⟨?_, ?_⟩
      · rcases List.mem_cons.mp hm with h | h
        · simp [h]
        · simp [h]
      · intro z hz
        rcases List.mem_cons.mp hz with h | h
        · subst h; exact htr _ _ _ (hle y (by simp)) hyx
        · rcases List.mem_cons.mp h with h | h
          · subst h; exact hle _ (by simp)
          · exact hle z (by simp [h])

theorem minBy_eq_none_iff (vs : List α) : minBy le vs = none ↔ vs = [] := by
  cases vs <;> simp [minBy]

theorem minBy_spec (htot : ∀ a b, le a b = true ∨ le b a = true)
    (htr : ∀ a b c, le a b = true → le b c = true → le a c = true)
    {vs : List α} {m : α} (h : minBy le vs = some m) : m ∈ vs ∧ ∀ y ∈ vs, le m y = true := by
  cases vs with
  | nil => simp [minBy] at h
  | cons x xs =>
    simp only [minBy, Option.some.injEq] at h
    subst h
    exact minFold_spec le htot htr xs x

theorem maxBy_eq_minBy_flip (vs : List α) : maxBy le vs = minBy (fun a b => le b a) vs := by
  cases vs <;> rfl

theorem maxBy_eq_none_iff (vs : List α) : maxBy le vs = none ↔ vs = [] := by
  cases vs <;> simp [maxBy]

theorem maxBy_spec (htot : ∀ a b, le a b = true ∨ le b a = true)
    (htr : ∀ a b c, le a b = true → le b c = true → le a c = true)
    {vs : List α} {m : α} (h : maxBy le vs = some m) : m ∈ vs ∧ ∀ y ∈ vs, le y m = true := by
  rw [maxBy_eq_minBy_flip] at h
  exact minBy_spec (fun a b => le b a) (fun a b => (htot a b).symm) (fun a b c h1 h2 => htr c b a h2 h1) h

/-- The key of the minimum of a concatenation is the smaller of the two keys. -/
theorem minBy_append_key (key : α → Int)
    (htot : ∀ a b, le a b = true ∨ le b a = true)
    (htr : ∀ a b c, le a b = true → le b c = true → le a c = true)
    (hmono : ∀ a b, le a b = true → key a ≤ key b) (u v : List α) :
    (minBy le (u ++ v)).map key = optMinSpec ((minBy le u).map key) ((minBy le v).map key) := by
  cases hu : minBy le u with
  | none =>
    have : u = [] := (minBy_eq_none_iff le u).mp hu
    subst this
    simp [optMinSpec]
  | some mu =>
    cases hv : minBy le v with
    | none =>
      have : v = [] := (minBy_eq_none_iff le v).mp hv
      subst this
      simp [optMinSpec, hu]
    | some mv =>
      cases huv : minBy le (u ++ v) with
      | none =>
        have : u ++ v = [] := (minBy_eq_none_iff le _).mp huv
        have hu0 : u = [] := (List.append_eq_nil_iff.mp this).1
        subst hu0
        simp [minBy] at hu
      | some m =>
        obtain ⟨hmu, hleu⟩ := minBy_spec le htot htr hu
        obtain ⟨hmv, hlev⟩ := minBy_spec le htot htr hv
        obtain ⟨hm, hle⟩ := minBy_spec le htot htr huv
        have h1 : key m ≤ key mu := hmono _ _ (hle mu (by simp [hmu]))
        have h2 : key m ≤ key mv := hmono _ _ (hle mv (by simp [hmv]))
        simp only [Option.map_some, optMinSpec, Option.some.injEq]
        rcases List.mem_append.mp hm with h | h
        · have h3 : key mu ≤ key m := hmono _ _ (hleu m h)
          split <;> omega
        · have h3 : key mv ≤ key m := hmono _ _ (hlev m h)
          split <;> omega

theorem maxBy_append_key (key : α → Int)
    (htot : ∀ a b, le a b = true ∨ le b a = true)
    (htr : ∀ a b c, le a b = true → le b c = true → le a c = true)
    (hmono : ∀ a b, le a b = true → key a ≤ key b) (u v : List α) :
    (maxBy le (u ++ v)).map key = optMaxSpec ((maxBy le u).map key) ((maxBy le v).map key) := by
  cases hu : maxBy le u with
  | none =>
    have : u = [] := (maxBy_eq_none_iff le u).mp hu
    subst this
    simp [optMaxSpec]
  | some mu =>
    cases hv : maxBy le v with
    | none =>
      have : v = [] := (maxBy_eq_none_iff le v).mp hv
      subst this
      simp [optMaxSpec, hu]
    | some mv =>
      cases huv : maxBy le (u ++ v) with
      | none =>
        have : u ++ v = [] := (maxBy_eq_none_iff le _).mp huv
        have hu0 : u = [] := (List.append_eq_nil_iff.mp this).1
        subst hu0
        simp [maxBy] at hu
      | some m =>
        obtain ⟨hmu, hleu⟩ := maxBy_spec le htot htr hu
        obtain ⟨hmv, hlev⟩ := maxBy_spec le htot htr hv
        obtain ⟨hm, hle⟩ := maxBy_spec le htot htr huv
        have h1 : key mu ≤ key m := hmono _ _ (hle mu (by simp [hmu]))
        have h2 : key mv ≤ key m := hmono _ _ (hle mv (by simp [hmv]))
        simp only [Option.map_some, optMaxSpec, Option.some.injEq]
        rcases List.mem_append.mp hm with h | h
        · have h3 : key m ≤ key mu := hmono _ _ (hleu m h)
          split <;> omega
        · have h3 : key m ≤ key mv := hmono _ _ (hlev m h)
          split <;> omega

end extremes

/-! ### distinct values, tally, stable sort -/

section mfv
variable [DecidableEq α]

theorem mem_distinct (a : α) : ∀ l : List α, a ∈ distinct l ↔ a ∈ l := by
  intro l
  induction l with
  | nil => simp [distinct]
  | cons x xs ih =>
    simp only [distinct, List.mem_cons, List.mem_filter, ih, decide_eq_true_eq]
    by_cases h : a = x <;> simp [h]

theorem nodup_distinct : ∀ l : List α, (distinct l).Nodup := by
  intro l
  induction l with
  | nil => simp [distinct]
  | cons x xs ih =>
    simp only [distinct, List.nodup_cons, List.mem_filter, decide_eq_true_eq]
    exact ⟨fun h => h.2 rfl, ih.sublist List.filter_sublist⟩

theorem distinct_eq_nil_iff (l : List α) : distinct l = [] ↔ l = [] := by
  cases l <;> simp [distinct]

theorem map_fst_tally (vs : List α) : (tally vs).map Prod.fst = distinct vs := by
  simp [tally, List.map_map, Function.comp_def]

theorem mem_tally {vs : List α} {p : α × Nat} : p ∈ tally vs ↔ p.1 ∈ vs ∧ p.2 = vs.count p.1 := by
  simp only [tally, List.mem_map, mem_distinct]
  constructor
  · rintro ⟨v, hv, rfl⟩; exact ⟨hv, rfl⟩
  · rintro ⟨h1, h2⟩; exact ⟨p.1, h1, by cases p; simp_all⟩

theorem insDesc_perm (p : α × Nat) : ∀ l, (insDesc p l).Perm (p :: l) := by
  intro l
  induction l with
  | nil => simp [insDesc]
  | cons q qs ih =>
    simp only [insDesc]
    split
    · exact List.Perm.refl _
    · exact ((List.Perm.cons q ih).trans (List.Perm.swap p q qs))

theorem sortDesc_perm : ∀ l : List (α × Nat), (sortDesc l).Perm l := by
  intro l
  induction l with
  | nil => simp [sortDesc]
  | cons p ps ih => exact (insDesc_perm p _).trans (List.Perm.cons p ih)

theorem insDesc_sorted (p : α × Nat) : ∀ l : List (α × Nat),
    l.Pairwise (fun a b => b.2 ≤ a.2) → (insDesc p l).Pairwise (fun a b => b.2 ≤ a.2) := by
  intro l
  induction l with
  | nil => intro _; simp [insDesc]
  | cons q qs ih =>
    intro h
    rw [List.pairwise_cons] at h
    simp only [insDesc]
    split
    · rename_i hq
      rw [List.pairwise_cons]
      refine ⟨?_, List.pairwise_cons.mpr h⟩
      intro x hx
      rcases List.mem_cons.mp hx with hx | hx
      · subst hx; exact hq
      · exact Nat.le_trans (h.1 x hx) hq
    · rename_i hq
      rw [List.pairwise_cons]
      refine ⟨?_, ih h.2⟩
      intro x hx
      rcases List.mem_cons.mp ((insDesc_perm p qs).mem_iff.mp hx) with hx | hx
      · subst hx; omega
      · exact h.1 x hx

theorem sortDesc_sorted : ∀ l : List (α × Nat), (sortDesc l).Pairwise (fun a b => b.2 ≤ a.2) := by
  intro l
  induction l with
  | nil => simp [sortDesc]
  | cons p ps ih => exact insDesc_sorted p _ ih

/-! ### sketch -/

theorem length_insAsc (x : Nat) : ∀ l, (insAsc x l).length = l.length + 1 := by
  intro l
  induction l with
  | nil => simp [insAsc]
  | cons y ys ih =>
    simp only [insAsc]
    split <;> simp [ih]

theorem length_sortAsc : ∀ l, (sortAsc l).length = l.length := by
  intro l
  induction l with
  | nil => simp [sortAsc]
  | cons x xs ih =>
    have : sortAsc (x :: xs) = insAsc x (sortAsc xs) := rfl
    rw [this, length_insAsc, ih]; simp

theorem insAsc_perm (x : Nat) : ∀ l, (insAsc x l).Perm (x :: l) := by
  intro l
  induction l with
  | nil => simp [insAsc]
  | cons y ys ih =>
    simp only [insAsc]
    split
    · exact List.Perm.refl _
    · exact ((List.Perm.cons y ih).trans (List.Perm.swap x y ys))

theorem sortAsc_perm : ∀ l, (sortAsc l).Perm l := by
  intro l
  induction l with
  | nil => simp [sortAsc]
  | cons x xs ih =>
    have : sortAsc (x :: xs) = insAsc x (sortAsc xs) := rfl
    rw [this]
    exact (insAsc_perm x _).trans (List.Perm.cons x ih)

theorem kmv_below (h : α → Nat) (size : Nat) (vs : List α) (hlt : (distinct vs).length ≤ size) :
    kmvSpec h size vs = sortAsc ((distinct vs).map h) := by
  simp [kmvSpec, List.take_of_length_le hlt, List.drop_of_length_le hlt, kmvLoop]

theorem length_kmvLoop : ∀ (rest heap : List Nat), (kmvLoop heap rest).length = heap.length := by
  intro rest
  induction rest with
  | nil => intro heap; simp [kmvLoop]
  | cons hv rest ih =>
    intro heap
    simp only [kmvLoop]
    cases hl : heap.getLast? with
    | none => simp [ih]
    | some m =>
      simp only []
      split
      · rw [ih, length_insAsc, List.length_dropLast]
        have : heap ≠ [] := by intro h; simp [h] at hl
        have : heap.length ≠ 0 := fun h0 => this (List.eq_nil_of_length_eq_zero h0)
        omega
      · exact ih heap

theorem length_kmv (h : α → Nat) (size : Nat) (vs : List α) :
    (kmvSpec h size vs).length = min size (distinct vs).length := by
  simp [kmvSpec, length_kmvLoop, length_sortAsc, List.length_take]

/-- The generic loop with the test `hv < top` is the specification loop. -/
theorem kmvLoopG_lt : ∀ (rest heap : List Nat),
    kmvLoopG (fun hv top => decide (hv < top)) heap rest = kmvLoop heap rest := by
  intro rest
  induction rest with
  | nil => intro heap; simp [kmvLoopG, kmvLoop]
  | cons hv rest ih =>
    intro heap
    simp only [kmvLoopG, kmvLoop]
    cases heap.getLast? with
    | none => exact ih heap
    | some m =>
      simp only [decide_eq_true_eq]
      split
      · exact ih _
      · exact ih _

theorem length_kmvLoopG (replace : Nat → Nat → Bool) : ∀ (rest heap : List Nat),
    (kmvLoopG replace heap rest).length = heap.length := by
  intro rest
  induction rest with
  | nil => intro heap; simp [kmvLoopG]
  | cons hv rest ih =>
    intro heap
    simp only [kmvLoopG]
    cases hl : heap.getLast? with
    | none => simp [ih]
    | some m =>
      simp only []
      split
      · rw [ih, length_insAsc, List.length_dropLast]
        have : heap ≠ [] := by intro h; simp [h] at hl
        have : heap.length ≠ 0 := fun h0 => this (List.eq_nil_of_length_eq_zero h0)
        omega
      · exact ih heap

/-- Below the sketch size the loop has nothing to do, whatever the replacement test is. -/
theorem kmvG_below (replace : Nat → Nat → Bool) (h : α → Nat) (size : Nat) (vs : List α)
    (hlt : (distinct vs).length ≤ size) :
    kmvG replace size size h vs = sortAsc ((distinct vs).map h) := by
  simp [kmvG, List.take_of_length_le hlt, List.drop_of_length_le hlt, kmvLoopG]

theorem length_kmvG (replace : Nat → Nat → Bool) (h : α → Nat) (size : Nat) (vs : List α) :
    (kmvG replace size size h vs).length = min size (distinct vs).length := by
  simp [kmvG, length_kmvLoopG, length_sortAsc, List.length_take]

/-! ### `distinct` on lists without / with repetitions -/

theorem length_filter_ne_le (x : α) (l : List α) : (l.filter (fun y => y ≠ x)).length ≤ l.length :=
  List.length_filter_le _ _

theorem distinct_of_nodup : ∀ l : List α, l.Nodup → distinct l = l := by
  intro l
  induction l with
  | nil => intro _; rfl
  | cons x xs ih =>
    intro h
    rw [List.nodup_cons] at h
    simp only [distinct, ih h.2]
    congr 1
    rw [List.filter_eq_self]
    intro y hy
    have : y ≠ x := by intro e; subst e; exact h.1 hy
    simpa using this

theorem length_distinct_le : ∀ l : List α, (distinct l).length ≤ l.length := by
  intro l
  induction l with
  | nil => simp [distinct]
  | cons x xs ih =>
    simp only [distinct, List.length_cons]
    have := length_filter_ne_le x (distinct xs)
    omega

/-- A repetition makes `distinct` strictly shorter. -/
theorem length_distinct_lt_of_not_nodup : ∀ l : List α, ¬ l.Nodup → (distinct l).length < l.length := by
  intro l
  induction l with
  | nil => intro h; exact absurd List.nodup_nil h
  | cons x xs ih =>
    intro h
    simp only [distinct, List.length_cons]
    by_cases hx : x ∈ xs
    · have hx' : x ∈ distinct xs := (mem_distinct x xs).mpr hx
      have h1 : ((distinct xs).filter (fun y => y ≠ x)).length < (distinct xs).length := by
        apply List.length_filter_lt_length_iff_exists.mpr
        exact ⟨x, hx', by simp⟩
      have := length_distinct_le xs
      omega
    · have hn : ¬ xs.Nodup := by
        intro hn; exact h (List.nodup_cons.mpr ⟨hx, hn⟩)
      have := ih hn
      have := length_filter_ne_le x (distinct xs)
      omega

/-! ### ties in the most-frequent list keep the order of first occurrence -/

theorem insDesc_sublist (p : α × Nat) : ∀ l : List (α × Nat), l.Sublist (insDesc p l) := by
  intro l
  induction l with
  | nil => simp [insDesc]
  | cons q qs ih =>
    simp only [insDesc]
    split
    · exact List.sublist_cons_self p _
    · exact ih.cons_cons q

theorem insDesc_before (p b : α × Nat) : ∀ l : List (α × Nat), b ∈ l → b.2 ≤ p.2 →
    [p, b].Sublist (insDesc p l) := by
  intro l
  induction l with
  | nil => intro h; simp at h
  | cons q qs ih =>
    intro hb hle
    simp only [insDesc]
    split
    · exact (List.singleton_sublist.mpr hb).cons_cons p
    · rename_i hq
      have hne : b ≠ q := by intro e; subst e; exact hq hle
      have hb' : b ∈ qs := by
        rcases List.mem_cons.mp hb with h | h
        · exact absurd h hne
        · exact h
      exact (ih hb' hle).cons q

/-- `sortDesc` is stable for equal counts: two entries with the same count stay in their original order. -/
theorem sortDesc_stable : ∀ (l : List (α × Nat)) (a b : α × Nat), a.2 = b.2 → [a, b].Sublist l →
    [a, b].Sublist (sortDesc l) := by
  intro l
  induction l with
  | nil => intro a b _ h; simp at h
  | cons p ps ih =>
    intro a b hab h
    have hs : sortDesc (p :: ps) = insDesc p (sortDesc ps) := rfl
    rw [hs]
    cases h with
    | cons _ h' => exact (ih a b hab h').trans (insDesc_sublist p _)
    | cons_cons _ h' =>
      have hb : b ∈ ps := List.singleton_sublist.mp h'
      have hb' : b ∈ sortDesc ps := (sortDesc_perm ps).mem_iff.mpr hb
      exact insDesc_before _ b _ hb' (by omega)

end mfv

/-! ### order and transitions -/

/-- Adjacent pairs `(l[i], l[i+1])`. -/
def adj (l : List α) : List (α × α) := l.zip l.tail

theorem adj_cons_cons (a b : α) (l : List α) : adj (a :: b :: l) = (a, b) :: adj (b :: l) := by
  simp [adj]

/-- The four values of the order indicator as "an ascent was seen" / "a descent was seen". -/
def encOrder : Bool → Bool → Option Int
  | false, false => none
  | true, false => some 1
  | false, true => some (-1)
  | true, true => some 0

theorem otLoopG_spec [DecidableEq α] (lt : α → α → Bool) (ne : α → α → Bool) (inc : Nat → Nat)
    (step : Option Int → α → α → Option Int)
    (hasym : ∀ a b, lt a b = true → lt b a = false)
    (hne : ∀ a b, ne a b = true ↔ a ≠ b)
    (hinc : ∀ t, inc t = t + 1)
    (hstep : ∀ u d v last, v ≠ last →
      step (encOrder u d) v last = encOrder (u || lt last v) (d || lt v last)) :
    ∀ (vs : List α) (u d : Bool) (t : Nat) (last : α),
      otLoopG ne inc step (encOrder u d) t last vs =
        (encOrder (u || (adj (last :: vs)).any (fun p => lt p.1 p.2))
                  (d || (adj (last :: vs)).any (fun p => lt p.2 p.1)),
         t + (adj (last :: vs)).countP (fun p => decide (¬ p.1 = p.2))) := by
  intro vs
  induction vs with
  | nil => intro u d t last; simp [otLoopG, adj]
  | cons v vs ih =>
    intro u d t last
    rw [adj_cons_cons]
    by_cases hv : v = last
    · subst hv
      have hirr : lt v v = false := by
        cases h : lt v v with
        | false => rfl
        | true => have := hasym v v h; simp [h] at this
      have hn : ne v v = false := by
        cases h : ne v v with
        | false => rfl
        | true => exact absurd rfl ((hne v v).mp h)
      simp only [otLoopG, hn, List.any_cons, hirr, Bool.false_or, List.countP_cons]
      rw [ih]
      simp
    · have hne' : last ≠ v := fun h => hv h.symm
      have hn : ne v last = true := (hne v last).mpr hv
      simp only [otLoopG, hn, if_true, List.any_cons, List.countP_cons]
      rw [hstep u d v last hv, hinc, ih]
      simp only [Bool.or_assoc, hne', not_false_eq_true, decide_true, if_true]
      congr 1
      omega

/-- In a list without repetitions, whatever precedes an entry of a prefix is in the prefix. -/
theorem mem_take_of_sublist_pair {β : Type} : ∀ (l : List β) (n : Nat) (x y : β), l.Nodup → [x, y].Sublist l →
    y ∈ l.take n → x ∈ l.take n := by
  intro l
  induction l with
  | nil => intro n x y _ h; simp at h
  | cons z zs ih =>
    intro n x y hnd h hy
    rw [List.nodup_cons] at hnd
    cases n with
    | zero => simp at hy
    | succ n =>
      rw [List.take_succ_cons] at hy ⊢
      cases h with
      | cons _ h' =>
        have hyz : y ∈ zs := h'.subset (by simp)
        rcases List.mem_cons.mp hy with e | hy'
        · subst e; exact absurd hyz hnd.1
        · exact List.mem_cons_of_mem _ (ih n x y hnd.2 h' hy')
      | cons_cons _ _ => exact List.mem_cons_self

/-! ### neighbours of a concatenation -/

theorem adj_append_cons (b : α) (bs : List α) : ∀ (a : α) (as : List α),
    adj ((a :: as) ++ b :: bs) = adj (a :: as) ++ ((a :: as).getLast (by simp), b) :: adj (b :: bs) := by
  intro a as
  induction as generalizing a with
  | nil => simp [adj]
  | cons a' as ih =>
    have h1 : (a :: a' :: as) ++ b :: bs = a :: a' :: (as ++ b :: bs) := by simp
    rw [h1, adj_cons_cons, adj_cons_cons]
    have h2 : a' :: (as ++ b :: bs) = (a' :: as) ++ b :: bs := by simp
    rw [h2, ih a']
    simp

/-! ### histogram mass -/

theorem sum_filter_of_zero_dropped (keep : Nat → Bool) (hk : ∀ c, keep c = false → c = 0) :
    ∀ l : List Nat, (l.filter keep).sum = l.sum := by
  intro l
  induction l with
  | nil => rfl
  | cons c cs ih =>
    simp only [List.filter_cons]
    cases hc : keep c with
    | true => simp [ih]
    | false => simp [ih, hk c hc]

/-! ### batches -/

theorem chunksAux_flatten {β : Type} (n : Nat) : ∀ (fuel : Nat) (xs : List β), 0 < n → xs.length ≤ fuel →
    (chunksAux n fuel xs).flatten = xs := by
  intro fuel
  induction fuel with
  | zero =>
    intro xs _ h
    have : xs = [] := List.eq_nil_of_length_eq_zero (by omega)
    simp [chunksAux, this]
  | succ f ih =>
    intro xs hn h
    simp only [chunksAux]
    by_cases hx : xs = []
    · simp [hx]
    · have hn0 : n ≠ 0 := by omega
      simp only [hn0, hx, or_self, if_false, List.flatten_cons]
      rw [ih (xs.drop n) hn]
      · exact List.take_append_drop n xs
      · have : xs.length ≠ 0 := fun h0 => hx (List.eq_nil_of_length_eq_zero h0)
        simp only [List.length_drop]; omega

theorem chunksAux_nonempty {β : Type} (n : Nat) : ∀ (fuel : Nat) (xs : List β),
    ∀ c ∈ chunksAux n fuel xs, c ≠ [] ∧ c.length ≤ n := by
  intro fuel
  induction fuel with
  | zero => intro xs c hc; simp [chunksAux] at hc
  | succ f ih =>
    intro xs c hc
    simp only [chunksAux] at hc
    by_cases hx : n = 0 ∨ xs = []
    · simp [hx] at hc
    · simp only [hx, if_false, List.mem_cons] at hc
      rcases hc with hc | hc
      · subst hc
        have h1 : n ≠ 0 := fun h => hx (Or.inl h)
        have h2 : xs ≠ [] := fun h => hx (Or.inr h)
        refine ⟨?_, by simp [List.length_take]; omega⟩
        intro h
        have := congrArg List.length h
        have h3 : xs.length ≠ 0 := fun h0 => h2 (List.eq_nil_of_length_eq_zero h0)
        rw [List.length_take, List.length_nil] at this
        omega
      · exact ih _ c hc


/-- `to_batches` by index arithmetic (`rows[i : i + b]` for `i` in `range(i₀, len, b)`) is the recursive
cutting `chunksAux`. -/
theorem slices_eq_chunksAux {β : Type} (b : Nat) (hb : 0 < b) (xs : List β) : ∀ (fuel i : Nat),
    (pyRangeAux xs.length b fuel i).map (fun i => pySlice i (i + b) xs) = chunksAux b fuel (xs.drop i) := by
  intro fuel
  induction fuel with
  | zero => intro i; simp [pyRangeAux, chunksAux]
  | succ f ih =>
    intro i
    simp only [pyRangeAux, chunksAux]
    have hb0 : b ≠ 0 := by omega
    by_cases hi : i < xs.length
    · have hne : xs.drop i ≠ [] := by
        intro h; rw [List.drop_eq_nil_iff] at h; omega
      simp only [hi, hb0, ne_eq, not_false_eq_true, and_self, if_true, hne, or_self, if_false, List.map_cons]
      rw [ih (i + b)]
      congr 1
      · simp [pySlice]
      · rw [List.drop_drop]
    · have he : xs.drop i = [] := by rw [List.drop_eq_nil_iff]; omega
      simp [hi, he]


/-! ### the heap loop keeps the smallest hashes -/

def SortedAsc (l : List Nat) : Prop := l.Pairwise (fun a b => a ≤ b)

theorem mem_insAsc {a x : Nat} {l : List Nat} : a ∈ insAsc x l ↔ a = x ∨ a ∈ l := by
  rw [(insAsc_perm x l).mem_iff]; simp

theorem insAsc_sorted (x : Nat) : ∀ l, SortedAsc l → SortedAsc (insAsc x l) := by
  intro l
  induction l with
  | nil => intro _; simp [insAsc, SortedAsc]
  | cons y ys ih =>
    intro h
    unfold SortedAsc at h ⊢
    rw [List.pairwise_cons] at h
    simp only [insAsc]
    split
    · rename_i hxy
      rw [List.pairwise_cons]
      refine ⟨?_, List.pairwise_cons.mpr h⟩
      intro z hz
      rcases List.mem_cons.mp hz with hz | hz
      · subst hz; exact hxy
      · exact Nat.le_trans hxy (h.1 z hz)
    · rename_i hxy
      rw [List.pairwise_cons]
      refine ⟨?_, ih h.2⟩
      intro z hz
      rcases mem_insAsc.mp hz with hz | hz
      · subst hz; omega
      · exact h.1 z hz

theorem sortAsc_sorted : ∀ l, SortedAsc (sortAsc l) := by
  intro l
  induction l with
  | nil => simp [sortAsc, SortedAsc]
  | cons x xs ih =>
    have : sortAsc (x :: xs) = insAsc x (sortAsc xs) := rfl
    rw [this]; exact insAsc_sorted x _ ih

/-- Invariant of the loop of `get_kvm_hashes`: the heap stays sorted, heap and discarded hashes together
are the hashes seen, and nothing discarded is below anything kept. -/
theorem kmvLoop_inv : ∀ (rest heap dropped seen : List Nat),
    SortedAsc heap → (heap ++ dropped).Perm seen → (∀ x ∈ dropped, ∀ y ∈ heap, y ≤ x) →
    ∃ dropped', SortedAsc (kmvLoop heap rest) ∧ (kmvLoop heap rest ++ dropped').Perm (seen ++ rest) ∧
      ∀ x ∈ dropped', ∀ y ∈ kmvLoop heap rest, y ≤ x := by
  intro rest
  induction rest with
  | nil =>
    intro heap dropped seen hs hp hb
    exact ⟨dropped, by simpa [kmvLoop] using hs, by simpa [kmvLoop] using hp, by simpa [kmvLoop] using hb⟩
  | cons hv rest ih =>
    intro heap dropped seen hs hp hb
    have hseen : seen ++ hv :: rest = (seen ++ [hv]) ++ rest := by simp
    rw [hseen]
    simp only [kmvLoop]
    cases hl : heap.getLast? with
    | none =>
      have hnil : heap = [] := by
        cases heap with
        | nil => rfl
        | cons a as => simp at hl
      subst hnil
      simp only []
      apply ih [] (hv :: dropped) (seen ++ [hv]) hs
      · simp only [List.nil_append] at hp ⊢
        exact (List.Perm.cons hv hp).trans (List.perm_append_comm (l₁ := [hv]) (l₂ := seen))
      · intro x _ y hy; simp at hy
    | some m =>
      have hne : heap ≠ [] := by intro h; simp [h] at hl
      have hm : heap.getLast hne = m := by
        have := List.getLast?_eq_some_getLast hne
        rw [this] at hl; exact Option.some.inj hl
      have hsplit : heap.dropLast ++ [m] = heap := by
        rw [← hm]; exact List.dropLast_concat_getLast hne
      have hmem_m : m ∈ heap := by rw [← hsplit]; simp
      have hD : ∀ y ∈ heap.dropLast, y ≤ m := by
        intro y hy
        have h1 : SortedAsc (heap.dropLast ++ [m]) := by rw [hsplit]; exact hs
        exact (List.pairwise_append.mp h1).2.2 y hy m (by simp)
      have hall : ∀ y ∈ heap, y ≤ m := by
        intro y hy
        rw [← hsplit] at hy
        rcases List.mem_append.mp hy with h | h
        · exact hD y h
        · simp at h; omega
      simp only []
      split
      · rename_i hlt
        apply ih (insAsc hv heap.dropLast) (m :: dropped) (seen ++ [hv])
        · exact insAsc_sorted hv _ (List.Pairwise.sublist (List.dropLast_sublist heap) hs)
        · have h1 : (insAsc hv heap.dropLast ++ m :: dropped).Perm (hv :: (heap.dropLast ++ m :: dropped)) :=
            (List.Perm.append_right _ (insAsc_perm hv _))
          have h2 : heap.dropLast ++ m :: dropped = heap ++ dropped := by
            rw [← hsplit]; simp
          rw [h2] at h1
          exact h1.trans ((List.Perm.cons hv hp).trans (List.perm_append_comm (l₁ := [hv]) (l₂ := seen)))
        · intro x hx y hy
          rcases mem_insAsc.mp hy with hy | hy
          · subst hy
            rcases List.mem_cons.mp hx with hx | hx
            · subst hx; omega
            · have := hb x hx m hmem_m; omega
          · rcases List.mem_cons.mp hx with hx | hx
            · subst hx; exact hD y hy
            · exact hb x hx y ((List.dropLast_sublist heap).subset hy)
      · rename_i hge
        apply ih heap (hv :: dropped) (seen ++ [hv]) hs
        · exact (List.perm_middle).trans ((List.Perm.cons hv hp).trans (List.perm_append_comm (l₁ := [hv]) (l₂ := seen)))
        · intro x hx y hy
          rcases List.mem_cons.mp hx with hx | hx
          · subst hx; have := hall y hy; omega
          · exact hb x hx y hy


/-- The same invariant for any replacement test that replaces only hashes not above the largest kept one and
keeps only when the hash is not below it (`<` and `<=` both qualify): the heap stays sorted, heap and discarded hashes together
are the hashes seen, and nothing discarded is below anything kept. -/
theorem kmvLoopG_inv (replace : Nat → Nat → Bool)
    (hrep : ∀ hv m, (replace hv m = true → hv ≤ m) ∧ (replace hv m = false → m ≤ hv)) : ∀ (rest heap dropped seen : List Nat),
    SortedAsc heap → (heap ++ dropped).Perm seen → (∀ x ∈ dropped, ∀ y ∈ heap, y ≤ x) →
    ∃ dropped', SortedAsc (kmvLoopG replace heap rest) ∧ (kmvLoopG replace heap rest ++ dropped').Perm (seen ++ rest) ∧
      ∀ x ∈ dropped', ∀ y ∈ kmvLoopG replace heap rest, y ≤ x := by
  intro rest
  induction rest with
  | nil =>
    intro heap dropped seen hs hp hb
    exact ⟨dropped, by simpa [kmvLoopG] using hs, by simpa [kmvLoopG] using hp, by simpa [kmvLoopG] using hb⟩
  | cons hv rest ih =>
    intro heap dropped seen hs hp hb
    have hseen : seen ++ hv :: rest = (seen ++ [hv]) ++ rest := by simp
    rw [hseen]
    simp only [kmvLoopG]
    cases hl : heap.getLast? with
    | none =>
      have hnil : heap = [] := by
        cases heap with
        | nil => rfl
        | cons a as => simp at hl
      subst hnil
      simp only []
      apply ih [] (hv :: dropped) (seen ++ [hv]) hs
      · simp only [List.nil_append] at hp ⊢
        exact (List.Perm.cons hv hp).trans (List.perm_append_comm (l₁ := [hv]) (l₂ := seen))
      · intro x _ y hy; simp at hy
    | some m =>
      have hne : heap ≠ [] := by intro h; simp [h] at hl
      have hm : heap.getLast hne = m := by
        have := List.getLast?_eq_some_getLast hne
        rw [this] at hl; exact Option.some.inj hl
      have hsplit : heap.dropLast ++ [m] = heap := by
        rw [← hm]; exact List.dropLast_concat_getLast hne
      have hmem_m : m ∈ heap := by rw [← hsplit]; simp
      have hD : ∀ y ∈ heap.dropLast, y ≤ m := by
        intro y hy
        have h1 : SortedAsc (heap.dropLast ++ [m]) := by rw [hsplit]; exact hs
        exact (List.pairwise_append.mp h1).2.2 y hy m (by simp)
      have hall : ∀ y ∈ heap, y ≤ m := by
        intro y hy
        rw [← hsplit] at hy
        rcases List.mem_append.mp hy with h | h
        · exact hD y h
        · simp at h; omega
      simp only []
      split
      · rename_i hlt
        have hlt : hv ≤ m := (hrep hv m).1 hlt
        apply ih (insAsc hv heap.dropLast) (m :: dropped) (seen ++ [hv])
        · exact insAsc_sorted hv _ (List.Pairwise.sublist (List.dropLast_sublist heap) hs)
        · have h1 : (insAsc hv heap.dropLast ++ m :: dropped).Perm (hv :: (heap.dropLast ++ m :: dropped)) :=
            (List.Perm.append_right _ (insAsc_perm hv _))
          have h2 : heap.dropLast ++ m :: dropped = heap ++ dropped := by
            rw [← hsplit]; simp
          rw [h2] at h1
          exact h1.trans ((List.Perm.cons hv hp).trans (List.perm_append_comm (l₁ := [hv]) (l₂ := seen)))
        · intro x hx y hy
          rcases mem_insAsc.mp hy with hy | hy
          · subst hy
            rcases List.mem_cons.mp hx with hx | hx
            · subst hx; omega
            · have := hb x hx m hmem_m; omega
          · rcases List.mem_cons.mp hx with hx | hx
            · subst hx; exact hD y hy
            · exact hb x hx y ((List.dropLast_sublist heap).subset hy)
      · rename_i hge
        have hge : m ≤ hv := (hrep hv m).2 (by simpa using hge)
        apply ih heap (hv :: dropped) (seen ++ [hv]) hs
        · exact (List.perm_middle).trans ((List.Perm.cons hv hp).trans (List.perm_append_comm (l₁ := [hv]) (l₂ := seen)))
        · intro x hx y hy
          rcases List.mem_cons.mp hx with hx | hx
          · subst hx; have := hall y hy; omega
          · exact hb x hx y hy



/-! ### byte-lexicographic order -/

theorem bytesLe_total : ∀ u v : List Nat, bytesLe u v = true ∨ bytesLe v u = true := by
  intro u
  induction u with
  | nil => intro v; simp [bytesLe]
  | cons x xs ih =>
    intro v
    cases v with
    | nil => simp [bytesLe]
    | cons y ys =>
      simp only [bytesLe]
      by_cases h1 : x < y
      · simp [h1]
      · by_cases h2 : y < x
        · simp [h2]
        · simpa [h1, h2] using ih ys

theorem bytesLe_trans : ∀ u v w : List Nat, bytesLe u v = true → bytesLe v w = true → bytesLe u w = true := by
  intro u
  induction u with
  | nil => intro v w _ _; simp [bytesLe]
  | cons x xs ih =>
    intro v w h1 h2
    cases v with
    | nil => simp [bytesLe] at h1
    | cons y ys =>
      cases w with
      | nil => simp [bytesLe] at h2
      | cons z zs =>
        simp only [bytesLe] at h1 h2 ⊢
        by_cases a1 : x < y
        · by_cases b1 : y < z
          · have : x < z := by omega
            simp [this]
          · by_cases b2 : z < y
            · simp [b1, b2] at h2
            · have : x < z := by omega
              simp [this]
        · by_cases a2 : y < x
          · simp [a1, a2] at h1
          · simp only [a1, a2, if_false] at h1
            have hxy : x = y := by omega
            subst hxy
            by_cases b1 : x < z
            · simp [b1]
            · by_cases b2 : z < x
              · simp [b1, b2] at h2
              · simp only [b1, b2, if_false] at h2 ⊢
                exact ih ys zs h1 h2

theorem bytesLt_asymm : ∀ u v : List Nat, bytesLt u v = true → bytesLt v u = false := by
  intro u
  induction u with
  | nil => intro v _; cases v <;> simp [bytesLt]
  | cons x xs ih =>
    intro v h
    cases v with
    | nil => simp [bytesLt] at h
    | cons y ys =>
      simp only [bytesLt] at h ⊢
      by_cases a1 : x < y
      · have : ¬ y < x := by omega
        simp [this, a1]
      · by_cases a2 : y < x
        · simp [a1, a2] at h
        · simp only [a1, a2, if_false] at h ⊢
          exact ih ys h

theorem bytesLt_connected : ∀ u v : List Nat, u ≠ v → bytesLt u v = true ∨ bytesLt v u = true := by
  intro u
  induction u with
  | nil => intro v h; cases v with
    | nil => exact absurd rfl h
    | cons y ys => simp [bytesLt]
  | cons x xs ih =>
    intro v h
    cases v with
    | nil => simp [bytesLt]
    | cons y ys =>
      simp only [bytesLt]
      by_cases a1 : x < y
      · simp [a1]
      · by_cases a2 : y < x
        · simp [a2]
        · have hxy : x = y := by omega
          subst hxy
          have hne : xs ≠ ys := by intro e; exact h (by rw [e])
          simpa [a1] using ih ys hne

theorem utf8Bytes_lt (s : String) : ∀ x ∈ utf8Bytes s, x < 256 := by
  intro x hx
  simp only [utf8Bytes, List.mem_map] at hx
  obtain ⟨b, _, rfl⟩ := hx
  exact UInt8.toNat_lt b

theorem utf8Bytes_inj {a b : String} (h : utf8Bytes a = utf8Bytes b) : a = b := by
  unfold utf8Bytes at h
  have h1 : a.toUTF8.data.toList = b.toUTF8.data.toList :=
    (List.map_inj_right (fun x y hxy => UInt8.toNat_inj.mp hxy)).mp h
  have h2 : a.toUTF8.data = b.toUTF8.data := Array.toList_inj.mp h1
  have h3 : a.toByteArray = b.toByteArray := ByteArray.ext h2
  exact String.toByteArray_inj.mp h3

/-! ### the integer key of a byte window -/

/-- The big-endian value of the first `w` bytes of `l`, zero padded on the right. -/
def keyVal : Nat → List Nat → Nat
  | 0, _ => 0
  | _ + 1, [] => 0
  | w + 1, x :: xs => x * 256 ^ w + keyVal w xs

theorem keyVal_lt : ∀ (w : Nat) (l : List Nat), (∀ x ∈ l, x < 256) → keyVal w l < 256 ^ w := by
  intro w
  induction w with
  | zero => intro l _; simp [keyVal]
  | succ w ih =>
    intro l hl
    cases l with
    | nil => simp only [keyVal]; exact Nat.pow_pos (by omega)
    | cons x xs =>
      simp only [keyVal]
      have hx : x < 256 := hl x (by simp)
      have hk := ih xs (fun y hy => hl y (by simp [hy]))
      have h1 : x * 256 ^ w + keyVal w xs < (x + 1) * 256 ^ w := by rw [Nat.succ_mul]; omega
      have h2 : (x + 1) * 256 ^ w ≤ 256 * 256 ^ w := Nat.mul_le_mul_right _ (by omega)
      have h3 : 256 ^ (w + 1) = 256 * 256 ^ w := by rw [Nat.pow_succ, Nat.mul_comm]
      omega

theorem keyVal_mono : ∀ (w : Nat) (u v : List Nat), (∀ x ∈ u, x < 256) → (∀ x ∈ v, x < 256) →
    bytesLe u v = true → keyVal w u ≤ keyVal w v := by
  intro w
  induction w with
  | zero => intro u v _ _ _; simp [keyVal]
  | succ w ih =>
    intro u v hu hv h
    cases u with
    | nil => simp [keyVal]
    | cons x xs =>
      cases v with
      | nil => simp [bytesLe] at h
      | cons y ys =>
        simp only [bytesLe] at h
        simp only [keyVal]
        have hk1 := keyVal_lt w xs (fun z hz => hu z (by simp [hz]))
        by_cases a1 : x < y
        · have h1 : x * 256 ^ w + keyVal w xs < (x + 1) * 256 ^ w := by rw [Nat.succ_mul]; omega
          have h2 : (x + 1) * 256 ^ w ≤ y * 256 ^ w := Nat.mul_le_mul_right _ (by omega)
          omega
        · by_cases a2 : y < x
          · simp [a1, a2] at h
          · simp only [a1, a2, if_false] at h
            have hxy : x = y := by omega
            subst hxy
            have := ih xs ys (fun z hz => hu z (by simp [hz])) (fun z hz => hv z (by simp [hz])) h
            omega

theorem beVal_replicate_zero : ∀ n, beVal (List.replicate n 0) = 0 := by
  intro n
  induction n with
  | zero => simp [beVal]
  | succ n ih => simp [List.replicate_succ, beVal, ih]

/-- `value.encode()[:w].ljust(w, b"\0")` read big endian is `keyVal w`. -/
theorem beVal_window : ∀ (w : Nat) (l : List Nat),
    beVal (l.take w ++ List.replicate (w - (l.take w).length) 0) = keyVal w l := by
  intro w
  induction w with
  | zero => intro l; simp [beVal, keyVal]
  | succ w ih =>
    intro l
    cases l with
    | nil => simp [keyVal, beVal_replicate_zero]
    | cons x xs =>
      have hlen : (xs.take w ++ List.replicate (w - (xs.take w).length) 0).length = w := by
        have : (xs.take w).length ≤ w := by simp [List.length_take]; omega
        simp only [List.length_append, List.length_replicate]; omega
      simp only [List.take_succ_cons, List.length_cons, Nat.add_sub_add_right, List.cons_append, beVal, keyVal,
        hlen, ih xs]

end Profile
