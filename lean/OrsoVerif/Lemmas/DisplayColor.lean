import OrsoVerif.Lemmas.DisplayWidth
/-! Helper lemmas for C18, part 5: `colorizer` — sequential `str.replace` over the colour table
substitutes exactly the tokens of a well-formed string. -/
namespace Display

/-- no token marker -/
def NoMark (s : Str) : Prop := '\x01' ∉ s

/-- a colour token: the marker, a name containing neither the marker nor `m`, then `m` -/
def TokShape (k : Str) : Prop := ∃ name, k = '\x01' :: (name ++ ['m']) ∧ '\x01' ∉ name ∧ 'm' ∉ name

/-- decidable form of `TokShape` (used on the extracted table) -/
def tokShapeB : Str → Bool
  | [] => false
  | c :: rest => c == '\x01' && rest.getLast? == some 'm' && rest.dropLast.all (fun x => x != '\x01' && x != 'm')

theorem tokShape_of_B {k : Str} (h : tokShapeB k = true) : TokShape k := by
  cases k with
  | nil => simp [tokShapeB] at h
  | cons c rest =>
    simp only [tokShapeB, Bool.and_eq_true, beq_iff_eq, List.all_eq_true, bne_iff_ne, ne_eq] at h
    obtain ⟨⟨hc, hl⟩, ha⟩ := h
    refine ⟨rest.dropLast, ?_, fun hm => (ha _ hm).1 rfl, fun hm => (ha _ hm).2 rfl⟩
    have hne : rest ≠ [] := by intro e; simp [e] at hl
    have hlast : rest.getLast hne = 'm' := by
      rw [List.getLast?_eq_some_getLast hne] at hl; exact Option.some.inj hl
    rw [hc, ← hlast, List.dropLast_concat_getLast hne]

/-- A string in token form: text without markers, and tokens. -/
inductive Seg where
  | txt (s : Str)
  | tok (k : Str)

def Seg.flat : Seg → Str
  | .txt s => s
  | .tok k => k

def flat (segs : List Seg) : Str := segs.flatMap Seg.flat

/-- text segments carry no marker; token segments are tokens of the table -/
def SegOk (keys : List Str) : Seg → Prop
  | .txt s => NoMark s
  | .tok k => k ∈ keys

/-- what one `replace(key, rep)` does to a segment -/
def expand (key rep : Str) : Seg → Seg
  | .txt s => .txt s
  | .tok k => if k = key then .txt rep else .tok k

theorem flat_cons (sg : Seg) (segs : List Seg) : flat (sg :: segs) = sg.flat ++ flat segs := by
  simp [flat]

theorem replGo_noMark {key rep : Str} (hk : TokShape key) (s t : Str) (hs : NoMark s) :
    replGo key rep 0 (s ++ t) = s ++ replGo key rep 0 t := by
  obtain ⟨name, rfl, _, _⟩ := hk
  induction s with
  | nil => rfl
  | cons c cs ih =>
    have hc : c ≠ '\x01' := fun e => hs (by simp [e])
    have hcs : NoMark cs := fun h => hs (by simp [h])
    have hp : ('\x01' :: (name ++ ['m'])).isPrefixOf (c :: (cs ++ t)) = false := by
      simp only [List.isPrefixOf, Bool.and_eq_false_imp, beq_iff_eq]
      intro e; exact absurd e.symm hc
    simp only [List.cons_append, replGo, hp, Bool.false_eq_true, if_false, ih hcs]

theorem replGo_skip (key rep : Str) (xs t : Str) : replGo key rep xs.length (xs ++ t) = replGo key rep 0 t := by
  induction xs with
  | nil => rfl
  | cons x xs ih => simp only [List.length_cons, List.cons_append, replGo, ih]

theorem name_prefix_eq {n1 n2 t : Str} (h1 : 'm' ∉ n1) (h2 : 'm' ∉ n2)
    (h : (n1 ++ ['m']) <+: (n2 ++ 'm' :: t)) : n1 = n2 := by
  induction n1 generalizing n2 with
  | nil =>
    cases n2 with
    | nil => rfl
    | cons b n2 =>
      simp only [List.nil_append, List.cons_append, List.cons_prefix_cons] at h
      exact absurd (by rw [← h.1]; exact List.mem_cons_self) h2
  | cons a n1 ih =>
    cases n2 with
    | nil =>
      simp only [List.cons_append, List.nil_append, List.cons_prefix_cons] at h
      exact absurd (by rw [h.1]; exact List.mem_cons_self) h1
    | cons b n2 =>
      simp only [List.cons_append, List.cons_prefix_cons] at h
      rw [h.1, ih (fun hm => h1 (by simp [hm])) (fun hm => h2 (by simp [hm])) h.2]

theorem tok_prefix_iff {key k t : Str} (hkey : TokShape key) (hk : TokShape k) :
    key.isPrefixOf (k ++ t) = true ↔ k = key := by
  obtain ⟨n1, rfl, _, m1⟩ := hkey
  obtain ⟨n2, rfl, _, m2⟩ := hk
  rw [List.isPrefixOf_iff_prefix]
  constructor
  · intro h
    simp only [List.cons_append, List.cons_prefix_cons, true_and, List.append_assoc] at h
    rw [name_prefix_eq m1 m2 h]
  · intro h; rw [h]; exact List.prefix_append _ _

/-- **One `replace(key, rep)`** on a string in token form replaces exactly the segments that are the
token `key`, and leaves everything else — text and other tokens — untouched. -/
theorem replaceAll_segs {keys : List Str} (hkeys : ∀ k ∈ keys, TokShape k) {key rep : Str} (hkey : TokShape key)
    (segs : List Seg) (hs : ∀ sg ∈ segs, SegOk keys sg) :
    replaceAll key rep (flat segs) = flat (segs.map (expand key rep)) := by
  unfold replaceAll
  induction segs with
  | nil => rfl
  | cons sg segs ih =>
    have ih' := ih (fun x hx => hs x (by simp [hx]))
    have hsg := hs sg (by simp)
    rw [List.map_cons, flat_cons, flat_cons]
    cases sg with
    | txt s => rw [show (Seg.txt s).flat = s from rfl, replGo_noMark hkey _ _ hsg, ih']; rfl
    | tok k =>
      have hk : TokShape k := hkeys k hsg
      simp only [Seg.flat, expand]
      by_cases he : k = key
      · subst he
        obtain ⟨name, rfl, _, _⟩ := hk
        have hp : ('\x01' :: (name ++ ['m'])).isPrefixOf ('\x01' :: (name ++ ['m']) ++ flat segs) = true :=
          (tok_prefix_iff hkey hkey).mpr rfl
        rw [if_pos rfl]
        simp only [List.cons_append] at hp ⊢
        simp only [replGo, hp, if_true, List.length_cons, Nat.add_sub_cancel]
        rw [replGo_skip, ih']
      · have hp : key.isPrefixOf (k ++ flat segs) = false := by
          cases h : key.isPrefixOf (k ++ flat segs) with
          | false => rfl
          | true => exact absurd ((tok_prefix_iff hkey hk).mp h) he
        rw [if_neg he]
        obtain ⟨name, rfl, hn1, _⟩ := hk
        simp only [List.cons_append] at hp ⊢
        simp only [replGo, hp, Bool.false_eq_true, if_false]
        have hnm : NoMark (name ++ ['m']) := by
          intro h; rcases List.mem_append.mp h with h | h
          · exact hn1 h
          · simp at h
        rw [replGo_noMark hkey _ _ hnm, ih']

theorem expand_ok {keys : List Str} {key rep : Str} (hrep : NoMark rep) {sg : Seg} (h : SegOk keys sg) :
    SegOk keys (expand key rep sg) := by
  cases sg with
  | txt s => exact h
  | tok k => simp only [expand]; split; exact hrep; exact h

/-- what the whole loop does to a segment: the first table entry with that key decides -/
def resolve (table : List (Str × Str)) (on : Bool) : Seg → Seg
  | .txt s => .txt s
  | .tok k =>
    match table.find? (fun kv => kv.1 == k) with
    | some kv => .txt (if on then kv.2 else [])
    | none => .tok k

theorem foldl_expand_txt (table : List (Str × Str)) (on : Bool) (s : Str) :
    table.foldl (fun sg kv => expand kv.1 (if on then kv.2 else []) sg) (.txt s) = .txt s := by
  induction table with
  | nil => rfl
  | cons kv rest ih => simpa [List.foldl_cons, expand] using ih

theorem foldl_expand (table : List (Str × Str)) (on : Bool) (sg : Seg) :
    table.foldl (fun sg kv => expand kv.1 (if on then kv.2 else []) sg) sg = resolve table on sg := by
  cases sg with
  | txt s => exact foldl_expand_txt table on s
  | tok k =>
    induction table with
    | nil => rfl
    | cons kv rest ih =>
      rw [List.foldl_cons]
      have hx : expand kv.1 (if on then kv.2 else []) (.tok k)
          = if k = kv.1 then .txt (if on then kv.2 else []) else .tok k := rfl
      rw [hx]
      by_cases he : k = kv.1
      · rw [if_pos he, foldl_expand_txt]
        have hb : (kv.1 == k) = true := by simp [he]
        simp [resolve, hb]
      · rw [if_neg he, ih]
        have hb : (kv.1 == k) = false := by simp; exact fun e => he e.symm
        simp [resolve, hb]

/-- **`colorizer`'s loop over the colour table** (`for k, v in COLORS.items(): record = record.replace(k, …)`):
on a string in token form every token of the table is replaced by its ANSI code (colour on) or removed
(colour off), text is untouched, and nothing else happens — provided every key has the token shape and
no replacement contains the marker. -/
theorem colorize_segs (table : List (Str × Str)) (on : Bool)
    (hk : ∀ kv ∈ table, TokShape kv.1) (hv : ∀ kv ∈ table, NoMark kv.2)
    (keys : List Str) (hkeys : ∀ k ∈ keys, TokShape k)
    (segs : List Seg) (hs : ∀ sg ∈ segs, SegOk keys sg) :
    colorize table on (flat segs) = flat (segs.map (resolve table on)) := by
  have key : ∀ (tb : List (Str × Str)), (∀ kv ∈ tb, TokShape kv.1) → (∀ kv ∈ tb, NoMark kv.2) →
      ∀ (sgs : List Seg), (∀ sg ∈ sgs, SegOk keys sg) →
      colorize tb on (flat sgs)
        = flat (sgs.map fun sg => tb.foldl (fun sg kv => expand kv.1 (if on then kv.2 else []) sg) sg) := by
    intro tb
    induction tb with
    | nil => intro _ _ sgs _; simp [colorize]
    | cons kv rest ih =>
      intro hk hv sgs hs
      have hrep : NoMark (if on then kv.2 else []) := by
        split
        · exact hv kv (by simp)
        · intro h; simp at h
      simp only [colorize, List.foldl_cons]
      rw [replaceAll_segs hkeys (hk kv (by simp)) sgs hs]
      have := ih (fun x hx => hk x (by simp [hx])) (fun x hx => hv x (by simp [hx]))
        (sgs.map (expand kv.1 (if on then kv.2 else [])))
        (by intro sg hsg; simp only [List.mem_map] at hsg; obtain ⟨s0, h0, rfl⟩ := hsg; exact expand_ok hrep (hs s0 h0))
      simp only [colorize] at this
      rw [this, List.map_map]; rfl
  rw [key table hk hv segs hs]
  congr 1
  exact List.map_congr_left (fun sg _ => foldl_expand table on sg)

/-- printed width of a string in token form whose text has no escape at all: the text lengths -/
def segWidth : Seg → Nat
  | .txt s => s.length
  | .tok _ => 0

theorem W_flat_map (g : Seg → Seg) (wf : Seg → Nat) (segs : List Seg)
    (h : ∀ sg ∈ segs, W (g sg).flat (wf sg)) : W (flat (segs.map g)) ((segs.map wf).sum) := by
  induction segs with
  | nil => exact W_nil
  | cons sg segs ih =>
    rw [List.map_cons, flat_cons, List.map_cons, List.sum_cons]
    exact W_append (h sg (by simp)) (ih (fun x hx => h x (by simp [hx])))

end Display
