import OrsoVerif.Model.DictRowCode
/-!
# Helper lemmas for C02 (association lists, the extractor loop)

Not property theorems: the clauses of the property are in `Props/C02.lean`.
-/
namespace C02
open DictRow Gen.DictCode

variable {α : Type}

def keys (d : List (String × α)) : List String := d.map (·.1)

theorem lookup_none_of_not_mem (k : String) (d : List (String × α)) (h : k ∉ keys d) :
    lookup k d = none := by
  induction d with
  | nil => rfl
  | cons p rest ih =>
    obtain ⟨k', v⟩ := p
    simp only [keys, List.map_cons, List.mem_cons, not_or] at h
    have hne : ¬ k' = k := fun e => h.1 e.symm
    simp only [lookup, hne, if_false]
    exact ih h.2

theorem lookup_mem (k : String) (v : α) (d : List (String × α)) (hn : (keys d).Nodup)
    (h : (k, v) ∈ d) : lookup k d = some v := by
  induction d with
  | nil => cases h
  | cons p rest ih =>
    obtain ⟨k', v'⟩ := p
    simp only [keys, List.map_cons, List.nodup_cons] at hn
    rcases List.mem_cons.mp h with h | h
    · cases h; simp [lookup]
    · have hk : k ∈ keys rest := List.mem_map.mpr ⟨(k, v), h, rfl⟩
      have hne : ¬ k' = k := fun e => hn.1 (e ▸ hk)
      simp only [lookup, hne, if_false]
      exact ih hn.2 h

theorem lookup_append_of_not_mem (k : String) (d extra : List (String × α)) (h : k ∉ keys extra) :
    lookup k (d ++ extra) = lookup k d := by
  induction d with
  | nil => simpa [lookup] using lookup_none_of_not_mem k extra h
  | cons p rest ih =>
    obtain ⟨k', v⟩ := p
    by_cases hk : k' = k
    · simp [lookup, hk]
    · simp [lookup, hk, ih]

theorem insert_fresh (k : String) (v : α) (d : List (String × α)) (h : k ∉ keys d) :
    DictRow.insert k v d = d ++ [(k, v)] := by
  induction d with
  | nil => rfl
  | cons p rest ih =>
    obtain ⟨k', v'⟩ := p
    simp only [keys, List.map_cons, List.mem_cons, not_or] at h
    have hne : ¬ k' = k := fun e => h.1 e.symm
    simp only [DictRow.insert, hne, if_false, List.cons_append]
    rw [ih h.2]

theorem keys_zip_sublist (fields : List String) (row : List α) :
    (keys (fields.zip row)).Sublist fields := by
  induction fields generalizing row with
  | nil => simp [keys]
  | cons n ns ih =>
    cases row with
    | nil => simp [keys]
    | cons v vs =>
      simp only [keys, List.zip_cons_cons, List.map_cons]
      exact (ih vs).cons_cons n

theorem foldl_insert_fresh (m acc : List (String × α)) (hn : (keys (acc ++ m)).Nodup) :
    m.foldl (fun acc p => DictRow.insert p.1 p.2 acc) acc = acc ++ m := by
  induction m generalizing acc with
  | nil => simp
  | cons p rest ih =>
    obtain ⟨k, v⟩ := p
    have hk : k ∉ keys acc := by
      simp only [keys, List.map_append, List.map_cons] at hn
      have := (List.nodup_append.mp hn).2.2
      intro hmem
      exact this k hmem k (by simp) rfl
    simp only [List.foldl_cons]
    rw [insert_fresh k v acc hk, ih]
    · simp
    · simpa using hn

theorem lookup_zip (fields : List String) (row : List α) (f : String) :
    lookup f (fields.zip row) = (indexOf fields f).bind (fun i => row[i]?) := by
  induction fields generalizing row with
  | nil => simp [lookup, indexOf]
  | cons n ns ih =>
    cases row with
    | nil =>
      simp only [List.zip_nil_right, lookup, indexOf]
      by_cases h : n = f
      · simp [h]
      · simp only [h, if_false]
        cases indexOf ns f <;> simp
    | cons v vs =>
      by_cases h : n = f
      · simp [List.zip_cons_cons, lookup, indexOf, h]
      · simp only [List.zip_cons_cons, lookup, indexOf, h, if_false, ih vs]
        cases indexOf ns f <;> simp

theorem lookup_insert (k k' : String) (v : α) (d : List (String × α)) :
    lookup k (DictRow.insert k' v d) = if k' = k then some v else lookup k d := by
  induction d with
  | nil => simp [DictRow.insert, lookup]
  | cons p rest ih =>
    obtain ⟨a, b⟩ := p
    by_cases h1 : a = k'
    · subst h1
      by_cases h2 : a = k
      · simp [DictRow.insert, lookup, h2]
      · simp [DictRow.insert, lookup, h2]
    · by_cases h2 : a = k
      · subst h2
        have : ¬ k' = a := fun e => h1 e.symm
        simp [DictRow.insert, lookup, h1, this]
      · simp [DictRow.insert, lookup, h1, h2, ih]

theorem lookup_append (k : String) (a b : List (String × α)) :
    lookup k (a ++ b) = (lookup k a).or (lookup k b) := by
  induction a with
  | nil => simp [lookup]
  | cons p rest ih =>
    obtain ⟨x, y⟩ := p
    by_cases h : x = k <;> simp [lookup, h, ih]

theorem lookup_foldl_insert (k : String) (m acc : List (String × α)) :
    lookup k (m.foldl (fun acc p => DictRow.insert p.1 p.2 acc) acc) = (lookup k m.reverse).or (lookup k acc) := by
  induction m generalizing acc with
  | nil => simp [lookup]
  | cons p rest ih =>
    obtain ⟨x, y⟩ := p
    simp only [List.foldl_cons, List.reverse_cons]
    rw [ih, lookup_append, lookup_insert]
    by_cases h : x = k
    · subst h; cases lookup x rest.reverse <;> simp [lookup]
    · cases lookup k rest.reverse <;> simp [lookup, h]

theorem keys_insert (k : String) (v : α) (d : List (String × α)) :
    keys (DictRow.insert k v d) = if k ∈ keys d then keys d else keys d ++ [k] := by
  induction d with
  | nil => simp [DictRow.insert, keys]
  | cons p rest ih =>
    obtain ⟨a, b⟩ := p
    by_cases h1 : a = k
    · subst h1; simp [DictRow.insert, keys]
    · have h1' : ¬ k = a := fun e => h1 e.symm
      simp only [keys] at ih
      by_cases h2 : k ∈ List.map (fun x => x.fst) rest
      · simp [DictRow.insert, keys, h1, h1', h2, ih]
      · simp [DictRow.insert, keys, h1, h1', h2, ih]

theorem nodup_keys_foldl_insert (m acc : List (String × α)) (h : (keys acc).Nodup) :
    (keys (m.foldl (fun acc p => DictRow.insert p.1 p.2 acc) acc)).Nodup := by
  induction m generalizing acc with
  | nil => simpa using h
  | cons p rest ih =>
    apply ih
    rw [keys_insert]
    by_cases hk : p.1 ∈ keys acc
    · simp [hk, h]
    · simp only [hk, if_false]
      rw [List.nodup_append]
      refine ⟨h, by simp, ?_⟩
      intro a ha b hb
      simp at hb; subst hb
      intro e; subst e; exact hk ha

theorem mapM_some {β γ : Type} (g : β → γ) (l : List β) : l.mapM (fun x => some (g x)) = some (l.map g) := by
  induction l with
  | nil => rfl
  | cons a t ih => simp [List.mapM_cons, ih]

theorem indexOf_lt (fields : List String) (f : String) (i : Nat) (h : indexOf fields f = some i) :
    i < fields.length ∧ fields[i]? = some f ∧ ∀ j, j < i → fields[j]? ≠ some f := by
  induction fields generalizing i with
  | nil => simp [indexOf] at h
  | cons n ns ih =>
    by_cases hn : n = f
    · simp [indexOf, hn] at h; subst h; simp [hn]
    · simp only [indexOf, hn, if_false] at h
      cases hi : indexOf ns f with
      | none => simp [hi] at h
      | some i' =>
        simp [hi] at h; subst h
        obtain ⟨h1, h2, h3⟩ := ih i' hi
        refine ⟨by simp; omega, by simpa using h2, ?_⟩
        intro j hj
        cases j with
        | zero => simp [hn]
        | succ j => simpa using h3 j (by omega)

theorem mem_keys_foldl_insert (k : String) (m acc : List (String × α)) :
    k ∈ keys (m.foldl (fun acc p => DictRow.insert p.1 p.2 acc) acc) ↔ k ∈ keys m ∨ k ∈ keys acc := by
  induction m generalizing acc with
  | nil => simp [keys]
  | cons p rest ih =>
    simp only [List.foldl_cons]
    rw [ih, keys_insert]
    by_cases hk : p.1 ∈ keys acc
    · rw [if_pos hk]
      have hk' : p.1 ∈ List.map (fun x => x.fst) acc := hk
      simp only [keys, List.map_cons, List.mem_cons]
      constructor
      · rintro (h | h)
        · exact Or.inl (Or.inr h)
        · exact Or.inr h
      · rintro ((h | h) | h)
        · right; rw [h]; exact hk'
        · exact Or.inl h
        · exact Or.inr h
    · rw [if_neg hk]
      simp only [keys, List.map_cons, List.mem_cons, List.mem_append, List.not_mem_nil, or_false]
      constructor
      · rintro (h | h | h)
        · exact Or.inl (Or.inr h)
        · exact Or.inr h
        · exact Or.inl (Or.inl h)
      · rintro ((h | h) | h)
        · exact Or.inr (Or.inr h)
        · exact Or.inl h
        · exact Or.inr (Or.inl h)

theorem mem_insert (k : String) (v : α) (l : List (String × α)) (p : String × α) (h : p ∈ DictRow.insert k v l) :
    p = (k, v) ∨ p ∈ l := by
  induction l with
  | nil => simp [DictRow.insert] at h; exact Or.inl h
  | cons q qs ih =>
    obtain ⟨k', v'⟩ := q
    simp only [DictRow.insert] at h
    by_cases hk : k' = k
    · simp only [hk, if_true, List.mem_cons] at h
      rcases h with h | h
      · exact Or.inl h
      · exact Or.inr (List.mem_cons_of_mem _ h)
    · simp only [hk, if_false, List.mem_cons] at h
      rcases h with h | h
      · exact Or.inr (by rw [h]; exact List.mem_cons_self ..)
      · rcases ih h with h | h
        · exact Or.inl h
        · exact Or.inr (List.mem_cons_of_mem _ h)

theorem mem_foldl_insert (m acc : List (String × α)) (p : String × α)
    (h : p ∈ m.foldl (fun a q => DictRow.insert q.1 q.2 a) acc) : p ∈ acc ∨ p ∈ m := by
  induction m generalizing acc with
  | nil => exact Or.inl h
  | cons q qs ih =>
    rcases ih _ h with h | h
    · rcases mem_insert _ _ _ _ h with h | h
      · exact Or.inr (by rw [h]; exact List.mem_cons_self ..)
      · exact Or.inl h
    · exact Or.inr (List.mem_cons_of_mem _ h)

/-- every item of the dictionary view is a (field, cell) pair of the row -/
theorem asDict_values_mem (fields : List String) (row : List α) (p : String × α) (h : p ∈ asDict fields row) :
    p.2 ∈ row := by
  rcases mem_foldl_insert _ [] p h with h | h
  · cases h
  · exact (List.of_mem_zip h).2

end C02
