import OrsoVerif.Model.Encodings
import OrsoVerif.Lemmas.Encodings
/-! Lemmas about the numpy primitives of `Model/Np.lean` against the recursive model of
`Model/Encodings.lean`.  (The lemmas that mention the definitions regenerated from `orso/schema.py`
are theorems of `Props/C09.lean`, so that a source change breaks a named theorem and not a
dependency of all of them.) -/
namespace Enc

variable {α β : Type}

/-! ### RLE -/

/-- The state of the generated loop after the two final appends (`run_values.append(prev_value)`,
`run_lengths.append(run_length)`): the stored run values and run lengths. -/
def rleFinish (st : α × Nat × List Nat × List α) : List α × List Nat :=
  (st.2.2.2 ++ [st.1], st.2.2.1 ++ [st.2.1])

/-! ### sparse -/

theorem whereFrom_scan (ne : α → α → Bool) (d : α) (xs : List α) (k : Nat) :
    Np.whereFrom k (xs.map fun x => ne x d) = (sparseScan ne d k xs).map (·.1) := by
  induction xs generalizing k with
  | nil => rfl
  | cons x t ih =>
    simp only [List.map_cons, Np.whereFrom, sparseScan]
    cases h : ne x d <;> simp [ih]

theorem take_scan (ne : α → α → Bool) (d : α) (xs : List α) (pre : List α) :
    Np.take (pre ++ xs) ((sparseScan ne d pre.length xs).map (·.1)) = some ((sparseScan ne d pre.length xs).map (·.2)) := by
  induction xs generalizing pre with
  | nil => simp [sparseScan, Np.take]
  | cons x t ih =>
    have key := ih (pre ++ [x])
    simp only [List.length_append, List.length_cons, List.length_nil, Nat.zero_add,
      List.append_assoc, List.singleton_append] at key
    unfold sparseScan
    cases h : ne x d
    · simpa using key
    · simp only [if_true, List.map_cons, Np.take, List.mapM_cons]
      have hx : (pre ++ x :: t)[pre.length]? = some x := by simp
      rw [hx]
      unfold Np.take at key
      simp [key]

end Enc
