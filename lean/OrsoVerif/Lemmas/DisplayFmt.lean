import OrsoVerif.Model.DisplayFmt
import OrsoVerif.Lemmas.DisplayTable
/-! Helper lemmas for C18, part 6: a colour token at the start of a text passes through `trunc_printable`
unchanged, so every branch of `formatCell` starts with its token. -/
namespace Display

theorem truncGo_ign_prefix (A : Arith) (cw : Char → Nat) (w : Nat) (full : Bool) (rest : Str) (off : Nat) :
    ∀ (body : Str), (∀ c ∈ body, c ≠ 'm' ∧ c ≠ '\n' ∧ c ≠ '\r') →
      (body ++ ['m']) <+: truncGo A cw w full (body ++ 'm' :: rest) off true
  | [], _ => by
    simp only [List.nil_append]
    unfold truncGo
    rw [if_neg (by decide), if_neg (by decide)]
    simp only [Bool.true_or, if_true, beq_self_eq_true, Bool.and_self]
    split <;> exact ⟨_, rfl⟩
  | c :: cs, h => by
    obtain ⟨hm, hn, hr⟩ := h c (by simp)
    have ih := truncGo_ign_prefix A cw w full rest off cs (fun x hx => h x (by simp [hx]))
    simp only [List.cons_append]
    unfold truncGo
    rw [if_neg hn, if_neg hr]
    have hbm : (c == 'm') = false := by simpa using hm
    simp only [Bool.true_or, if_true, hbm, Bool.and_false, Bool.false_eq_true, if_false, Bool.not_true, Bool.false_and]
    obtain ⟨t, ht⟩ := ih
    exact ⟨t, by rw [← ht]; simp⟩

/-- A token `\x01NAMEm` at the start of the text is emitted as it is. -/
theorem truncPrintable_token_prefix (A : Arith) (cw : Char → Nat) (w : Nat) (full : Bool) (name rest : Str)
    (h : ∀ c ∈ name, c ≠ 'm' ∧ c ≠ '\n' ∧ c ≠ '\r') :
    ('\x01' :: name ++ ['m']) <+: truncPrintable A cw ('\x01' :: name ++ 'm' :: rest) w full := by
  unfold truncPrintable
  simp only [List.cons_append]
  unfold truncGo
  rw [if_neg (by decide), if_neg (by decide)]
  have e1 : isEsc '\x01' = true := by decide
  have e2 : ('\x01' == 'm') = false := by decide
  simp only [e1, Bool.or_true, if_true, e2, Bool.and_false, Bool.false_eq_true, if_false, Bool.not_true, Bool.false_and]
  obtain ⟨t, ht⟩ := truncGo_ign_prefix A cw w full rest 0 name h
  exact ⟨t, by rw [← ht]; simp⟩

end Display
