import OrsoVerif.Model.Layout
import OrsoVerif.Lemmas.RowClass
/-!
Lemmas about the bound machine (`Model/Layout.lean`) for *any* configuration that is `sound` and any statement order of
`append` for which one append lays the row out by the current columns (`AppendOk`, proved of the generated order in
`Props/C05.lean`).
-/
namespace Layout
open Validate RowClass
open Gen.Layout (Relayout Iter FieldsFrom)
open Gen.RowClass (NewKind)

theorem sound_parts (cfg : LCfg) (h : cfg.sound = true) :
    cfg.relayout = .current ∧ cfg.beforeBuild = true ∧ (cfg.fieldsFrom = .columns ∨ cfg.iter = .each) ∧ cfg.new = .rowNew := by
  simp only [LCfg.sound, Bool.and_eq_true, Bool.or_eq_true, beq_iff_eq] at h
  exact ⟨h.1.1.1, h.1.1.2, h.1.2, h.2⟩

/-- A class made for a schema has one field per column, in column order. -/
theorem classFields_sound (cfg : LCfg) (h : cfg.sound = true) (s : List Column) : classFields cfg s = names s := by
  obtain ⟨_, _, h3, _⟩ := sound_parts cfg h
  unfold classFields iterNames
  rcases h3 with h3 | h3
  · simp [h3]
  · cases hf : cfg.fieldsFrom <;> simp [h3]

/-- After the relayout statement the frame builds its rows by the column names as they are now — whatever class it had. -/
theorem relaid_sound (cfg : LCfg) (h : cfg.sound = true) (s : List Column) (f seen : List String) :
    relaid cfg s f seen = names s := by
  obtain ⟨h1, _, _, _⟩ := sound_parts cfg h
  unfold relaid
  rw [h1]
  by_cases hf : f = names s
  · simp [hf]
  · simp [hf, classFields_sound cfg h]

/-- One append on the bound machine does what `appendK` on the current columns does (rows and result), for every class
the frame may have been left with and whatever the names helper remembers. -/
def AppendOk (cfg : LCfg) : Prop :=
  ∀ (s : List Column) (seen f : List String) (rows : List Row) (k : Kind) (r : Record) (z : Bool),
    (appendL cfg s seen f rows k r z).1 = (appendK s rows k r z).1
    ∧ (appendL cfg s seen f rows k r z).2.2 = (appendK s rows k r z).2

theorem regs_set (frames : List BFr) (i : Nat) (f : BFr) :
    (frames.set i f).map (·.rows) = (frames.map (·.rows)).set i f.rows := by
  simp [List.map_set]

theorem step_refinesB (cfg : LCfg) (h : AppendOk cfg) (st : BSt) (op : BOp) :
    ((stepB cfg st op).cols, (stepB cfg st op).regs) = stepBR (st.cols, st.regs) op := by
  cases op with
  | edit o => simp [stepB, stepBR, BSt.regs]
  | bind rows => simp [stepB, stepBR, BSt.regs]
  | read i => simp [stepB, stepBR, BSt.regs]
  | append i k r z =>
    simp only [stepB, stepBR, BSt.regs, List.getElem?_map]
    cases hf : st.frames[i]? with
    | none => simp
    | some f =>
      simp only [Option.map_some, regs_set]
      rw [(h st.cols _ f.fields f.rows k r z).1]

theorem run_refinesB (cfg : LCfg) (h : AppendOk cfg) (ops : List BOp) :
    ∀ (st : BSt), ((runB cfg st ops).cols, (runB cfg st ops).regs) = runBR (st.cols, st.regs) ops := by
  induction ops with
  | nil => intro st; rfl
  | cons op ops ih =>
    intro st
    simp only [runB, runBR]
    rw [ih, step_refinesB cfg h]

theorem results_lengthB (cfg : LCfg) (ops : List BOp) :
    ∀ (st : BSt), (resultsB cfg st ops).length = (ops.filter fun o => match o with | .append .. => true | _ => false).length := by
  induction ops with
  | nil => intro st; rfl
  | cons op ops ih =>
    intro st
    cases op <;> simp [resultsB, ih]

theorem runB_append (cfg : LCfg) (a b : List BOp) : ∀ (st : BSt), runB cfg st (a ++ b) = runB cfg (runB cfg st a) b := by
  induction a with
  | nil => intro st; rfl
  | cons op a ih => intro st; simp [runB, ih]

theorem runBR_append (a b : List BOp) : ∀ p, runBR p (a ++ b) = runBR (runBR p a) b := by
  induction a with
  | nil => intro p; rfl
  | cons op a ih => intro p; simp [runBR, ih]

/-- The rows the appends of a program add to frame `j`: each accepted record laid out by the columns *of its moment*. -/
def acceptedRows (j : Nat) : List Column → List BOp → List Row
  | _, [] => []
  | s, .edit op :: ops => acceptedRows j (mutate s op) ops
  | s, .append i k r z :: ops =>
    (if i = j ∧ (appendK s [] k r z).2 = .ok then [rowOf s r] else []) ++ acceptedRows j s ops
  | s, _ :: ops => acceptedRows j s ops

/-- What `appendK` adds does not depend on the rows already there: nothing, or `rowOf` of the current columns. -/
def KSpec : Prop :=
  ∀ (s : List Column) (rows : List Row) (k : Kind) (r : Record) (z : Bool), k.wf = true →
    (appendK s rows k r z).1 = (if (appendK s [] k r z).2 = .ok then rows ++ [rowOf s r] else rows)

/-- the record objects of a program are objects CPython can make -/
def BOp.wf : BOp → Bool
  | .append _ k _ _ => k.wf
  | _ => true

theorem runBR_frame (hk : KSpec) (j : Nat) (ops : List BOp) :
    (∀ op ∈ ops, op.wf = true) →
    ∀ (s : List Column) (regs : List (List Row)) (rows : List Row), regs[j]? = some rows →
      (runBR (s, regs) ops).2[j]? = some (rows ++ acceptedRows j s ops) := by
  induction ops with
  | nil => intro _ s regs rows h; simp [runBR, acceptedRows, h]
  | cons op ops ih =>
    intro hwf s regs rows h
    have hop : op.wf = true := hwf op (by simp)
    have ih := ih (fun o ho => hwf o (by simp [ho]))
    cases op with
    | edit o => simp only [runBR, stepBR, acceptedRows]; exact ih _ _ _ h
    | bind rs =>
      simp only [runBR, stepBR, acceptedRows]
      apply ih
      rw [List.getElem?_append_left]
      · exact h
      · exact (List.getElem?_eq_some_iff.mp h).1
    | read i => simp only [runBR, stepBR, acceptedRows]; exact ih _ _ _ h
    | append i k r z =>
      simp only [runBR, stepBR, acceptedRows]
      cases hi : regs[i]? with
      | none =>
        have hij : i ≠ j := by intro e; subst e; rw [h] at hi; cases hi
        simp only [hij, false_and, if_false, List.nil_append]
        exact ih _ _ _ h
      | some ri =>
        simp only
        by_cases hij : i = j
        · subst hij
          rw [h] at hi
          cases hi
          have hlt : i < regs.length := (List.getElem?_eq_some_iff.mp h).1
          have := ih s (regs.set i (appendK s rows k r z).1) (appendK s rows k r z).1 (by simp [hlt])
          rw [this, hk s rows k r z hop]
          by_cases ha : (appendK s [] k r z).2 = .ok <;> simp [ha]
        · simp only [hij, false_and, if_false, List.nil_append]
          apply ih
          rw [List.getElem?_set_ne hij]
          exact h

end Layout
