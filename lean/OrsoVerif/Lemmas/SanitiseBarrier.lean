import OrsoVerif.Model.Sanitise
import OrsoVerif.Lemmas.Sanitise
/-!
Helper lemmas for C20: a *barrier* is a run of text `B` that no pattern of a scanning function can
touch (no window of the pattern overlaps it).  Every scanning function of the sanitiser then maps
`a ++ B ++ b` to `a' ++ B ++ b'` with `a'`, `b'` not depending on `B`.  Used twice: `B` = the
`://user-info@` of a URL (plain-text branch), `B` = a visible token (JSON branch).
-/
namespace Sanitise

/-! ## `str.replace` -/

theorem replaceAllF_cons (pat rep : Str) (n : Nat) (c : Char) (r : Str) :
    replaceAllF pat rep (n + 1) (c :: r) =
      match stripPrefix charEq pat (c :: r) with
      | some rest => rep ++ replaceAllF pat rep n rest
      | none => c :: replaceAllF pat rep n r := rfl

theorem stripPrefix_length_lt (p : Char) (ps s rest : Str)
    (h : stripPrefix charEq (p :: ps) s = some rest) : rest.length < s.length := by
  have := (stripPrefix_charEq _ _ _).mp h
  subst this; simp; omega

theorem replaceAllF_fuel (p : Char) (ps rep : Str) : ∀ (n m : Nat) (s : Str), s.length ≤ n → s.length ≤ m →
    replaceAllF (p :: ps) rep n s = replaceAllF (p :: ps) rep m s := by
  intro n
  induction n with
  | zero =>
    intro m s hn _
    have : s = [] := List.length_eq_zero_iff.mp (by omega)
    subst this
    cases m <;> simp [replaceAllF]
  | succ n ih =>
    intro m s hn hm
    cases s with
    | nil => cases m <;> simp [replaceAllF]
    | cons c r =>
      cases m with
      | zero => simp at hm
      | succ m =>
        simp only [replaceAllF_cons]
        simp only [List.length_cons] at hn hm
        cases hs : stripPrefix charEq (p :: ps) (c :: r) with
        | none => simp only; rw [ih m r (by omega) (by omega)]
        | some rest =>
          have := stripPrefix_length_lt p ps _ _ hs
          simp only [List.length_cons] at this
          simp only; rw [ih m rest (by omega) (by omega)]

/-- `replaceAll` for a non-empty pattern, with its canonical fuel. -/
def RA (pat rep s : Str) : Str := replaceAllF pat rep (s.length + 1) s

theorem replaceAll_eq_RA (p : Char) (ps rep s : Str) : replaceAll (p :: ps) rep s = RA (p :: ps) rep s := by
  simp [replaceAll, RA]

theorem RA_nil (pat rep : Str) : RA pat rep [] = [] := rfl

theorem RA_cons (p : Char) (ps rep : Str) (c : Char) (r : Str) :
    RA (p :: ps) rep (c :: r) =
      match stripPrefix charEq (p :: ps) (c :: r) with
      | some rest => rep ++ RA (p :: ps) rep rest
      | none => c :: RA (p :: ps) rep r := by
  simp only [RA, List.length_cons, replaceAllF_cons]
  cases hs : stripPrefix charEq (p :: ps) (c :: r) with
  | none => simp only
  | some rest =>
    have := stripPrefix_length_lt p ps _ _ hs
    simp only [List.length_cons] at this
    simp only
    rw [replaceAllF_fuel p ps rep (r.length + 1) (rest.length + 1) rest (by omega) (by omega)]

/-- A pattern that does not match at the front of `s` does not match at the front of `s ++ x :: t`
either when `x` does not occur in the pattern. -/
theorem stripPrefix_none_append (pat : Str) : ∀ (s : Str) (x : Char) (t : Str), x ∉ pat →
    stripPrefix charEq pat s = none → stripPrefix charEq pat (s ++ x :: t) = none := by
  induction pat with
  | nil => intro s x t _ h; simp [stripPrefix] at h
  | cons p ps ih =>
    intro s x t hx h
    have hpx : p ≠ x := fun e => hx (by simp [e])
    have hxps : x ∉ ps := fun hm => hx (List.mem_cons_of_mem _ hm)
    cases s with
    | nil => simp [stripPrefix, charEq, hpx]
    | cons c cs =>
      simp only [stripPrefix, List.cons_append] at h ⊢
      split
      · rename_i hc
        simp only [hc, if_true] at h
        exact ih cs x t hxps h
      · rfl

theorem stripPrefix_head_ne (p : Char) (ps : Str) (x : Char) (t : Str) (h : x ≠ p) :
    stripPrefix charEq (p :: ps) (x :: t) = none := by
  simp [stripPrefix, charEq, Ne.symm h]

/-- The barrier conditions for one pattern. -/
structure Barrier (pat B : Str) : Prop where
  /-- no window can start inside the barrier -/
  head_ne : ∀ p ps, pat = p :: ps → ∀ x ∈ B, x ≠ p
  /-- no window starting before the barrier can reach into it -/
  first_notin : ∀ b bs, B = b :: bs → b ∉ pat

theorem RA_through (p : Char) (ps rep : Str) : ∀ (B b : Str), (∀ x ∈ B, x ≠ p) →
    RA (p :: ps) rep (B ++ b) = B ++ RA (p :: ps) rep b := by
  intro B
  induction B with
  | nil => intro b _; rfl
  | cons x B ih =>
    intro b hB
    rw [List.cons_append, RA_cons, stripPrefix_head_ne p ps x _ (hB x (by simp))]
    simp only
    rw [ih b (fun y hy => hB y (List.mem_cons_of_mem _ hy))]
    rfl

/-- **Barrier lemma for `str.replace`.** -/
theorem RA_barrier (p : Char) (ps rep : Str) (B b : Str) (hb : Barrier (p :: ps) B) (hne : B ≠ []) :
    ∀ (k : Nat) (a : Str), a.length ≤ k →
      RA (p :: ps) rep (a ++ B ++ b) = RA (p :: ps) rep a ++ B ++ RA (p :: ps) rep b := by
  have hB : ∀ x ∈ B, x ≠ p := hb.head_ne p ps rfl
  obtain ⟨b0, bs, hBeq⟩ : ∃ b0 bs, B = b0 :: bs := by
    cases B with
    | nil => exact absurd rfl hne
    | cons b0 bs => exact ⟨b0, bs, rfl⟩
  have hb0 : b0 ∉ p :: ps := hb.first_notin b0 bs hBeq
  intro k
  induction k with
  | zero =>
    intro a ha
    have : a = [] := List.length_eq_zero_iff.mp (by omega)
    subst this
    simp [RA_nil, RA_through p ps rep B b hB]
  | succ k ih =>
    intro a ha
    cases a with
    | nil => simp [RA_nil, RA_through p ps rep B b hB]
    | cons c r =>
      simp only [List.length_cons] at ha
      rw [RA_cons p ps rep c r]
      have hX : c :: r ++ B ++ b = (c :: r) ++ b0 :: (bs ++ b) := by simp [hBeq]
      cases hs : stripPrefix charEq (p :: ps) (c :: r) with
      | none =>
        have h1 : stripPrefix charEq (p :: ps) (c :: (r ++ B ++ b)) = none := by
          have := stripPrefix_none_append (p :: ps) (c :: r) b0 (bs ++ b) hb0 hs
          simpa [hBeq] using this
        simp only [List.cons_append, List.append_assoc] at h1 ⊢
        rw [RA_cons, h1]
        simp only
        have := ih r (by omega)
        simp only [List.append_assoc] at this
        rw [this]
      | some rest =>
        have hl := stripPrefix_length_lt p ps _ _ hs
        simp only [List.length_cons] at hl
        have h1 : stripPrefix charEq (p :: ps) (c :: (r ++ B ++ b)) = some (rest ++ B ++ b) := by
          have := stripPrefix_append charEq (p :: ps) (c :: r) rest (B ++ b) hs
          simpa [List.append_assoc] using this
        simp only [List.cons_append, List.append_assoc] at h1 ⊢
        rw [RA_cons, h1]
        simp only
        have := ih rest (by omega)
        simp only [List.append_assoc] at this
        rw [this]

theorem replaceAll_barrier (pat rep a B b : Str) (hb : Barrier pat B) (hne : B ≠ []) :
    replaceAll pat rep (a ++ B ++ b) = replaceAll pat rep a ++ B ++ replaceAll pat rep b := by
  cases pat with
  | nil => simp [replaceAll]
  | cons p ps =>
    simp only [replaceAll_eq_RA]
    exact RA_barrier p ps rep B b hb hne a.length a (Nat.le_refl _)

/-! ## `pat in s` -/

theorem isInfix_cons (pat : Str) (c : Char) (r : Str) :
    isInfix pat (c :: r) = ((stripPrefix charEq pat (c :: r)).isSome || isInfix pat r) := rfl

theorem isInfix_through (p : Char) (ps : Str) : ∀ (B b : Str), (∀ x ∈ B, x ≠ p) →
    isInfix (p :: ps) (B ++ b) = isInfix (p :: ps) b := by
  intro B
  induction B with
  | nil => intro b _; rfl
  | cons x B ih =>
    intro b hB
    rw [List.cons_append, isInfix_cons, stripPrefix_head_ne p ps x _ (hB x (by simp))]
    simp only [Option.isSome_none, Bool.false_or]
    exact ih b (fun y hy => hB y (List.mem_cons_of_mem _ hy))

theorem isInfix_barrier (p : Char) (ps : Str) (B b : Str) (hb : Barrier (p :: ps) B) (hne : B ≠ []) :
    ∀ a : Str, isInfix (p :: ps) (a ++ B ++ b) = (isInfix (p :: ps) a || isInfix (p :: ps) b) := by
  have hB : ∀ x ∈ B, x ≠ p := hb.head_ne p ps rfl
  obtain ⟨b0, bs, hBeq⟩ : ∃ b0 bs, B = b0 :: bs := by
    cases B with
    | nil => exact absurd rfl hne
    | cons b0 bs => exact ⟨b0, bs, rfl⟩
  have hb0 : b0 ∉ p :: ps := hb.first_notin b0 bs hBeq
  intro a
  induction a with
  | nil => simp [isInfix, isInfix_through p ps B b hB]
  | cons c r ih =>
    have e : c :: r ++ B ++ b = c :: (r ++ B ++ b) := by simp
    rw [e, isInfix_cons, isInfix_cons, ih]
    cases hs : stripPrefix charEq (p :: ps) (c :: r) with
    | none =>
      have h1 : stripPrefix charEq (p :: ps) (c :: (r ++ B ++ b)) = none := by
        have := stripPrefix_none_append (p :: ps) (c :: r) b0 (bs ++ b) hb0 hs
        simpa [hBeq] using this
      rw [h1]; rfl
    | some rest =>
      have h1 : stripPrefix charEq (p :: ps) (c :: (r ++ B ++ b)) = some (rest ++ (B ++ b)) := by
        have := stripPrefix_append charEq (p :: ps) (c :: r) rest (B ++ b) hs
        simpa [List.append_assoc] using this
      rw [h1]; rfl

theorem isInfix_self (pat a b : Str) (hne : pat ≠ []) : isInfix pat (a ++ pat ++ b) = true := by
  induction a with
  | nil =>
    cases pat with
    | nil => exact absurd rfl hne
    | cons p ps =>
      have : stripPrefix charEq (p :: ps) (p :: ps ++ b) = some b := (stripPrefix_charEq _ _ _).mpr rfl
      simp only [List.nil_append, List.cons_append] at this ⊢
      rw [isInfix_cons, this]; rfl
  | cons c r ih =>
    have e : c :: r ++ pat ++ b = c :: (r ++ pat ++ b) := by simp
    rw [e, isInfix_cons, ih]; simp

end Sanitise
