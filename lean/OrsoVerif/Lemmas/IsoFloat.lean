import OrsoVerif.Model.IsoPrim
/-! Helper lemmas for C08 (seventh pass): the integer `floatTrunc` returns brackets the exact value of the double. -/
namespace Iso

/-- Numerator of the magnitude of a finite double with the given bit pattern: |x| = `fMant b * 2 ^ fEx b / 2 ^ 1075`. -/
def fMant (b : UInt64) : Nat := if (b.toNat / 2 ^ 52) % 2048 == 0 then b.toNat % 2 ^ 52 else b.toNat % 2 ^ 52 + 2 ^ 52
/-- Biased exponent (1 for subnormals) of a finite double. -/
def fEx (b : UInt64) : Nat := if (b.toNat / 2 ^ 52) % 2048 == 0 then 1 else (b.toNat / 2 ^ 52) % 2048

/-- `mag = ⌊mant * 2^ex / 2^K⌋` written with the shift the model uses: `mag * 2^K ≤ mant * 2^ex < (mag + 1) * 2^K`. -/
theorem trunc_bounds (K mant ex mag : Nat)
    (hm : mag = if ex ≥ K then mant * 2 ^ (ex - K) else mant / 2 ^ (K - ex)) :
    mag * 2 ^ K ≤ mant * 2 ^ ex ∧ mant * 2 ^ ex < (mag + 1) * 2 ^ K := by
  by_cases hge : ex ≥ K
  · rw [if_pos hge] at hm
    have e : mant * 2 ^ (ex - K) * 2 ^ K = mant * 2 ^ ex := by
      rw [Nat.mul_assoc, ← Nat.pow_add]; congr 2; omega
    rw [hm]
    constructor
    · exact Nat.le_of_eq e
    · rw [← e]; exact Nat.mul_lt_mul_of_pos_right (Nat.lt_succ_self _) (Nat.two_pow_pos _)
  · rw [if_neg hge] at hm
    have hp : (2:Nat) ^ K = 2 ^ (K - ex) * 2 ^ ex := by rw [← Nat.pow_add]; congr 1; omega
    have hpos : 0 < (2:Nat) ^ (K - ex) := Nat.two_pow_pos _
    have h1 := Nat.div_mul_le_self mant (2 ^ (K - ex))
    have h2 := Nat.lt_div_mul_add (a := mant) hpos
    rw [hm, hp]
    constructor
    · rw [← Nat.mul_assoc]; exact Nat.mul_le_mul_right _ h1
    · rw [← Nat.mul_assoc]
      apply Nat.mul_lt_mul_of_pos_right _ (Nat.two_pow_pos _)
      rw [Nat.add_mul, Nat.one_mul]; exact h2

/-- The integer `floatTrunc` returns for a finite double brackets the double's exact magnitude, with the double's sign. -/
theorem floatTrunc_brackets (b : UInt64) (z : Int) (h : floatTrunc b = .fin z) :
    z.natAbs * 2 ^ 1075 ≤ fMant b * 2 ^ fEx b ∧ fMant b * 2 ^ fEx b < (z.natAbs + 1) * 2 ^ 1075 ∧
    (z < 0 → b.toNat / 2 ^ 63 = 1) := by
  unfold floatTrunc at h
  simp only at h
  split at h
  · split at h <;> cases h
  · injection h with h
    have h' : (if (b.toNat / 2 ^ 63 == 1) = true
        then -(((if fEx b ≥ 1075 then fMant b * 2 ^ (fEx b - 1075) else fMant b / 2 ^ (1075 - fEx b) : Nat)) : Int)
        else (((if fEx b ≥ 1075 then fMant b * 2 ^ (fEx b - 1075) else fMant b / 2 ^ (1075 - fEx b) : Nat)) : Int)) = z := h
    clear h
    generalize fMant b = mant at h' ⊢
    generalize fEx b = ex at h' ⊢
    generalize hm : (if ex ≥ 1075 then mant * 2 ^ (ex - 1075) else mant / 2 ^ (1075 - ex)) = mag at h'
    have hb := trunc_bounds 1075 mant ex mag hm.symm
    by_cases hn : (b.toNat / 2 ^ 63 == 1) = true
    · rw [if_pos hn] at h'
      have hz : z.natAbs = mag := by rw [← h']; simp
      rw [hz]
      exact ⟨hb.1, hb.2, fun _ => by simpa using hn⟩
    · rw [if_neg hn] at h'
      have hz : z.natAbs = mag := by rw [← h']; simp
      rw [hz]
      exact ⟨hb.1, hb.2, fun hlt => by omega⟩

end Iso
