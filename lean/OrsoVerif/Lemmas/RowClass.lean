import OrsoVerif.Model.RowClass
import OrsoVerif.Lemmas.Family
/-!
Facts about the process machine of `Model/RowClass.lean` that hold for *any* configuration satisfying `Cfg.sound`;
that the working tree's configuration does is `C05.row_classes_sound` in `Props/C05.lean`.
-/
namespace RowClass
open Validate
open Gen.RowClass (NewKind)
open Gen.ValidateFlow (Step)

theorem find_mem (k : Key) (c : Cls) : ∀ (cache : Cache), find k cache = some c → (k, c) ∈ cache := by
  intro cache
  induction cache with
  | nil => simp [find]
  | cons p ps ih =>
    obtain ⟨k', c'⟩ := p
    intro h
    simp only [find] at h
    by_cases hk : k' = k
    · simp only [hk, if_true, Option.some.injEq] at h
      subst h; subst hk
      exact List.mem_cons_self
    · simp only [hk, if_false] at h
      exact List.mem_cons_of_mem _ (ih h)

/-- Every class kept in the cache is the class any request that maps to its key would have been given afresh. -/
def CacheOk (cfg : Cfg) (cache : Cache) : Prop :=
  ∀ spec, cfg.cacheKey = some spec → ∀ p ∈ cache, ∀ fields flag, keyOf spec fields flag = p.1 → p.2 = ⟨fields, cfg.classNew flag⟩

theorem cacheOk_nil (cfg : Cfg) : CacheOk cfg [] := by
  intro spec _ p hp
  cases hp

/-- With a sound configuration a request for a class is answered as if there were no cache, and the cache stays good. -/
theorem createClass_sound (cfg : Cfg) (h : cfg.sound = true) (cache : Cache) (hc : CacheOk cfg cache)
    (fields : List String) (flag : Bool) :
    (createClass cfg cache fields flag).1 = ⟨fields, cfg.classNew flag⟩ ∧ CacheOk cfg (createClass cfg cache fields flag).2 := by
  unfold createClass
  cases hk : cfg.cacheKey with
  | none => exact ⟨rfl, hc⟩
  | some spec =>
    simp only []
    cases hf : find (keyOf spec fields flag) cache with
    | some c =>
      refine ⟨?_, hc⟩
      exact hc spec hk _ (find_mem _ _ _ hf) fields flag rfl
    | none =>
      refine ⟨rfl, ?_⟩
      intro spec' hk' p hp fields' flag' hkey
      rw [hk] at hk'
      cases hk'
      rcases List.mem_cons.mp hp with rfl | hp
      · -- the new entry: the key tells the requests apart
        obtain ⟨f, t⟩ := spec
        simp only [Cfg.sound, hk, Bool.and_eq_true, Bool.or_eq_true, beq_iff_eq] at h
        obtain ⟨_, hf1, ht⟩ := h
        subst hf1
        simp only [keyOf, if_true, Prod.mk.injEq, Option.some.injEq] at hkey
        obtain ⟨hfs, hfl⟩ := hkey
        subst hfs
        rcases ht with ht | ht
        · subst ht
          simp only [if_true, Option.some.injEq] at hfl
          subst hfl; rfl
        · cases flag <;> cases flag' <;> simp [ht]
      · exact hc spec hk p hp fields' flag' hkey

/-- Row's own constructor, for the columns' names: the values in column order for what it reads as a dict. -/
theorem buildRow_names (s : List Column) (k : Kind) (r : Record) :
    buildRow ⟨names s, NewKind.rowNew⟩ k r = if rowReads k then rowOf s r else keysRow r := by
  simp [buildRow, rowOf, names, List.map_map, Function.comp_def]

/-- `append` on a frame whose class is Row's own for the columns' names is `appendK`. -/
theorem runStepsF_eq (s : List Column) (r : Record) (z : Bool) (steps : List Step) :
    ∀ (k : Kind) (rows : List (List Value)) (row : Option (List Value)),
      runStepsF s ⟨names s, NewKind.rowNew⟩ r z k steps rows row = runStepsK s r z k steps rows row := by
  induction steps with
  | nil => intro k rows row; simp [runStepsF, runStepsK]
  | cons st rest ih =>
    intro k rows row
    cases st with
    | validate => simp only [runStepsF, runStepsK, ih]
    | coerce => simp only [runStepsF, runStepsK, ih]
    | build => simp only [runStepsF, runStepsK, ih, buildRow_names]
    | size => cases row <;> simp only [runStepsF, runStepsK, ih]
    | materialize => simp only [runStepsF, runStepsK, ih]
    | store => cases row <;> simp only [runStepsF, runStepsK, ih]
    | count => simp only [runStepsF, runStepsK, ih]
    | cursor => simp only [runStepsF, runStepsK, ih]

theorem appendF_eq (s : List Column) (rows : List (List Value)) (k : Kind) (r : Record) (z : Bool) :
    appendF s ⟨names s, NewKind.rowNew⟩ rows k r z = appendK s rows k r z := by
  simp [appendF, appendK, runStepsF_eq]

/-- The cache is good and every frame has Row's own constructor for its columns' names. -/
def Good (cfg : Cfg) (s : List Column) (st : PSt) : Prop :=
  CacheOk cfg st.cache ∧ ∀ f ∈ st.frames, f.cls = ⟨names s, NewKind.rowNew⟩

theorem good_empty (cfg : Cfg) (s : List Column) : Good cfg s ⟨[], []⟩ :=
  ⟨cacheOk_nil cfg, by intro f hf; cases hf⟩

theorem sound_frame (cfg : Cfg) (h : cfg.sound = true) : cfg.classNew cfg.frameFlag = NewKind.rowNew := by
  simp only [Cfg.sound, Bool.and_eq_true, beq_iff_eq] at h
  exact h.1

theorem newFrame_good (cfg : Cfg) (h : cfg.sound = true) (s : List Column) (st : PSt) (hg : Good cfg s st)
    (rows : List Family.Row) :
    (newFrame cfg s st rows).regs = st.regs ++ [rows] ∧ Good cfg s (newFrame cfg s st rows) := by
  obtain ⟨h1, h2⟩ := createClass_sound cfg h st.cache hg.1 (names s) cfg.frameFlag
  refine ⟨by simp [newFrame, PSt.regs], ?_, ?_⟩
  · exact h2
  · intro f hf
    simp only [newFrame, List.mem_append, List.mem_singleton] at hf
    rcases hf with hf | hf
    · exact hg.2 f hf
    · subst hf
      simp only [h1, sound_frame cfg h]

theorem regs_getElem? (st : PSt) (i : Nat) : st.regs[i]? = (st.frames[i]?).map (·.rows) := by
  simp [PSt.regs]

/-- One step: the frames of the process machine show what the register machine holds, and stay good. -/
theorem step_refinesP (cfg : Cfg) (h : cfg.sound = true) (s : List Column) (st : PSt) (hg : Good cfg s st) (op : POp) :
    (stepP cfg s st op).regs = stepRP s st.regs op ∧ Good cfg s (stepP cfg s st op) := by
  cases op with
  | feature fields who =>
    exact ⟨rfl, (createClass_sound cfg h st.cache hg.1 fields (flagOf cfg who)).2, hg.2⟩
  | frame arrow rows =>
    simp only [stepP, stepRP]
    cases arrow with
    | false => simpa using newFrame_good cfg h s st hg rows
    | true =>
      have hg' : Good cfg s ⟨(createClass cfg st.cache (names s) cfg.arrowFlag).2, st.frames⟩ :=
        ⟨(createClass_sound cfg h st.cache hg.1 (names s) cfg.arrowFlag).2, hg.2⟩
      simpa [PSt.regs] using newFrame_good cfg h s _ hg' rows
  | fop fo =>
    cases fo with
    | append i k r z =>
      simp only [stepP, stepRP, Family.stepR, regs_getElem?]
      cases hi : st.frames[i]? with
      | none => exact ⟨rfl, hg⟩
      | some f =>
        have hf : f.cls = ⟨names s, NewKind.rowNew⟩ := hg.2 f (List.mem_of_getElem? hi)
        simp only [Option.map_some]
        refine ⟨?_, hg.1, ?_⟩
        · simp only [PSt.regs, List.map_set, hf, appendF_eq]
        · intro f' hf'
          rcases List.mem_or_eq_of_mem_set hf' with hf' | hf'
          · exact hg.2 f' hf'
          · subst hf'; exact hf
    | derive i d =>
      simp only [stepP, stepRP, Family.stepR, regs_getElem?]
      cases hi : st.frames[i]? with
      | none => exact ⟨rfl, hg⟩
      | some f =>
        simp only [Option.map_some]
        generalize Family.derive f.rows _ d = out
        cases out with
        | shared => simpa using newFrame_good cfg h s st hg f.rows
        | fresh rows' => simpa using newFrame_good cfg h s st hg rows'
        | raises => exact ⟨rfl, hg⟩
        | nothing => exact ⟨rfl, hg⟩

/-- **The process machine refines the register machine** for every program, as long as the configuration is sound. -/
theorem run_refinesP (cfg : Cfg) (h : cfg.sound = true) (s : List Column) (ops : List POp) :
    ∀ (st : PSt), Good cfg s st → (runP cfg s st ops).regs = runRP s st.regs ops ∧ Good cfg s (runP cfg s st ops) := by
  induction ops with
  | nil => intro st hg; exact ⟨rfl, hg⟩
  | cons op ops ih =>
    intro st hg
    obtain ⟨hv, hi⟩ := step_refinesP cfg h s st hg op
    simp only [runP, runRP]
    rw [← hv]
    exact ih _ hi

theorem runP_append (cfg : Cfg) (s : List Column) (a b : List POp) :
    ∀ st, runP cfg s st (a ++ b) = runP cfg s (runP cfg s st a) b := by
  induction a with
  | nil => intro st; rfl
  | cons op ops ih => intro st; simp [runP, ih]

theorem appendsK_append (s : List Column) (a b : List (Kind × Record × Bool)) :
    ∀ rows, appendsK s rows (a ++ b) = appendsK s (appendsK s rows a) b := by
  induction a with
  | nil => intro rows; rfl
  | cons p ps ih => intro rows; obtain ⟨k, r, z⟩ := p; simp [appendsK, ih]

theorem appendsTo_cons (j : Nat) (op : Family.FOp) (ops : List Family.FOp) :
    Family.appendsTo j (op :: ops) = Family.appendsTo j [op] ++ Family.appendsTo j ops := by
  cases op with
  | append i k r z => by_cases h : i = j <;> simp [Family.appendsTo, h]
  | derive i d => simp [Family.appendsTo]

/-- In the register machine with features a frame is changed by nothing but the appends that go to it. -/
theorem runRP_frame (s : List Column) (j : Nat) (ops : List POp) :
    ∀ (regs : List (List Family.Row)) (rows : List Family.Row), regs[j]? = some rows →
      (runRP s regs ops)[j]? = some (appendsK s rows (Family.appendsTo j (fopsOf ops))) := by
  induction ops with
  | nil => intro regs rows h; simpa [runRP, fopsOf, Family.appendsTo, appendsK] using h
  | cons op ops ih =>
    intro regs rows h
    have hj : j < regs.length := by
      rcases Nat.lt_or_ge j regs.length with h' | h'
      · exact h'
      · rw [List.getElem?_eq_none_iff.mpr h'] at h; cases h
    cases op with
    | feature fields who => simpa [runRP, stepRP, fopsOf] using ih regs rows h
    | frame arrow rows' =>
      simp only [runRP, stepRP, fopsOf]
      apply ih
      simp [List.getElem?_append_left hj, h]
    | fop fo =>
      simp only [runRP, stepRP, fopsOf]
      have h1 := Family.runR_frame s j [fo] regs rows h
      simp only [Family.runR] at h1
      rw [appendsTo_cons, appendsK_append]
      exact ih _ _ h1

/-- Features ask for classes; they make no frame and touch none. -/
theorem runP_features_frames (cfg : Cfg) (s : List Column) (fs : List (List String × Who)) :
    ∀ st, (runP cfg s st (fs.map fun p => POp.feature p.1 p.2)).frames = st.frames := by
  induction fs with
  | nil => intro st; rfl
  | cons p ps ih => intro st; simp only [List.map_cons, runP, ih]; rfl

theorem fopsOf_wf (ops : List POp) (h : ∀ op ∈ fopsOf ops, op.wf = true) (j : Nat) :
    ∀ p ∈ Family.appendsTo j (fopsOf ops), p.1.wf = true :=
  Family.appendsTo_wf j (fopsOf ops) h

end RowClass
