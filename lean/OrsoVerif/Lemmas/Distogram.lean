import OrsoVerif.Model.Distogram
import Mathlib.Tactic.Linarith
import Mathlib.Tactic.Ring
import Mathlib.Tactic.FieldSimp
import Mathlib.Tactic.Positivity
import Mathlib.Algebra.Order.Field.Basic
/-!
# Lemmas about the reference histogram machine over any linear ordered field

One-step lemmas for "merge any valid adjacent pair" and "insert", then their lifting through
`trimRef`, `updateRef`, `mergeRef`, `addRef`, `bulkRef`.
-/
namespace Distogram
set_option linter.unusedSectionVars false

variable {K : Type} [Field K] [LinearOrder K] [IsStrictOrderedRing K]

/-- Centres strictly increasing. -/
def Inc (l : List (K × K)) : Prop := l.Pairwise (fun a b => a.1 < b.1)
/-- Every count positive. -/
def Pos (l : List (K × K)) : Prop := ∀ b ∈ l, 0 < b.2
/-- Every centre inside `[lo, hi]`. -/
def Within (lo hi : K) (l : List (K × K)) : Prop := ∀ b ∈ l, lo ≤ b.1 ∧ b.1 ≤ hi
/-- Sum of the counts. -/
def mass (l : List (K × K)) : K := (l.map (fun b => b.2)).sum
/-- Sum of centre × count. -/
def wsum (l : List (K × K)) : K := (l.map (fun b => b.1 * b.2)).sum

/-! ## the weighted centroid -/

/-- the centre `_trim` computes lies strictly inside the pair -/
theorem trimCentre_gt {v1 f1 v2 f2 : K} (hv : v1 < v2) (h1 : 0 < f1) (h2 : 0 < f2) :
    v1 < Gen.DistogramExpr.trimCentre v1 f1 v2 f2 := by
  unfold Gen.DistogramExpr.trimCentre
  rw [lt_div_iff₀ (by linarith)]
  nlinarith

theorem trimCentre_lt {v1 f1 v2 f2 : K} (hv : v1 < v2) (h1 : 0 < f1) (h2 : 0 < f2) :
    Gen.DistogramExpr.trimCentre v1 f1 v2 f2 < v2 := by
  unfold Gen.DistogramExpr.trimCentre
  rw [div_lt_iff₀ (by linarith)]
  nlinarith

theorem pyMin_eq (a b : K) : Gen.DistogramOps.pyMin a b = if b < a then b else a := rfl
theorem pyMax_eq (a b : K) : Gen.DistogramOps.pyMax a b = if a < b then b else a := rfl

/-- **The stored centre lies within the pair, whatever was computed** (`min(max(centre, v1), v2)`): no hypothesis on
`c` — this is what keeps the centres strictly increasing and inside the bounds when the division is rounded. -/
theorem trimStored_within (c : K) {v1 v2 : K} (h : v1 ≤ v2) :
    v1 ≤ Gen.DistogramOps.trimStored c v1 v2 ∧ Gen.DistogramOps.trimStored c v1 v2 ≤ v2 := by
  unfold Gen.DistogramOps.trimStored
  rw [pyMin_eq, pyMax_eq]
  split_ifs <;> constructor <;> linarith

/-- a computed centre that is inside the pair is stored as it is -/
theorem trimStored_of_between {c v1 v2 : K} (h1 : v1 ≤ c) (h2 : c ≤ v2) : Gen.DistogramOps.trimStored c v1 v2 = c := by
  unfold Gen.DistogramOps.trimStored
  rw [pyMin_eq, pyMax_eq]
  split_ifs <;> first | rfl | (apply le_antisymm <;> linarith) | (exfalso; linarith)

/-- in exact arithmetic the stored centre is the computed one -/
theorem centroid_eq {v1 f1 v2 f2 : K} (hv : v1 < v2) (h1 : 0 < f1) (h2 : 0 < f2) :
    centroid v1 f1 v2 f2 = Gen.DistogramExpr.trimCentre v1 f1 v2 f2 :=
  trimStored_of_between (le_of_lt (trimCentre_gt hv h1 h2)) (le_of_lt (trimCentre_lt hv h1 h2))

theorem centroid_gt {v1 f1 v2 f2 : K} (hv : v1 < v2) (h1 : 0 < f1) (h2 : 0 < f2) :
    v1 < centroid v1 f1 v2 f2 := by
  rw [centroid_eq hv h1 h2]; exact trimCentre_gt hv h1 h2

theorem centroid_lt {v1 f1 v2 f2 : K} (hv : v1 < v2) (h1 : 0 < f1) (h2 : 0 < f2) :
    centroid v1 f1 v2 f2 < v2 := by
  rw [centroid_eq hv h1 h2]; exact trimCentre_lt hv h1 h2

theorem centroid_mul {v1 f1 v2 f2 : K} (hv : v1 < v2) (h1 : 0 < f1) (h2 : 0 < f2) :
    centroid v1 f1 v2 f2 * (f1 + f2) = v1 * f1 + v2 * f2 := by
  rw [centroid_eq hv h1 h2]
  unfold Gen.DistogramExpr.trimCentre
  have : f1 + f2 ≠ 0 := by linarith
  field_simp

/-- The source's merged count is the sum of both counts. -/
@[simp] theorem trimCount_eq (v1 f1 v2 f2 : K) : Gen.DistogramExpr.trimCount v1 f1 v2 f2 = f1 + f2 := rfl

/-! ## merging one adjacent pair -/

theorem mergeAt_mem : ∀ (i : Nat) (l : List (K × K)), Inc l → Pos l → ∀ x ∈ mergeAt i l,
    (∃ y ∈ l, y.1 ≤ x.1) ∧ (∃ z ∈ l, x.1 ≤ z.1) ∧ 0 < x.2
  | 0, [], _, _, x, hx => by simp [mergeAt] at hx
  | 0, [a], _, hp, x, hx => by
    simp only [mergeAt, List.mem_singleton] at hx
    rw [hx]
    exact ⟨⟨a, by simp, le_refl _⟩, ⟨a, by simp, le_refl _⟩, hp a (by simp)⟩
  | 0, (v1, f1) :: (v2, f2) :: rest, hi, hp, x, hx => by
    have h1 : 0 < f1 := hp (v1, f1) (by simp)
    have h2 : 0 < f2 := hp (v2, f2) (by simp)
    have hv : v1 < v2 := (List.pairwise_cons.mp hi).1 (v2, f2) (by simp)
    simp only [mergeAt, List.mem_cons] at hx
    rcases hx with hx | hx
    · rw [hx]
      exact ⟨⟨(v1, f1), by simp, le_of_lt (centroid_gt hv h1 h2)⟩,
        ⟨(v2, f2), by simp, le_of_lt (centroid_lt hv h1 h2)⟩, by show 0 < f1 + f2; linarith⟩
    · exact ⟨⟨x, by simp [hx], le_refl _⟩, ⟨x, by simp [hx], le_refl _⟩, hp x (by simp [hx])⟩
  | n + 1, [], _, _, x, hx => by simp [mergeAt] at hx
  | n + 1, a :: rest, hi, hp, x, hx => by
    simp only [mergeAt, List.mem_cons] at hx
    rcases hx with hx | hx
    · rw [hx]
      exact ⟨⟨a, by simp, le_refl _⟩, ⟨a, by simp, le_refl _⟩, hp a (by simp)⟩
    · have hi' : Inc rest := (List.pairwise_cons.mp hi).2
      have hp' : Pos rest := fun b hb => hp b (by simp [hb])
      obtain ⟨⟨y, hy, hyx⟩, ⟨z, hz, hxz⟩, hpos⟩ := mergeAt_mem n rest hi' hp' x hx
      exact ⟨⟨y, by simp [hy], hyx⟩, ⟨z, by simp [hz], hxz⟩, hpos⟩

theorem mergeAt_pos (i : Nat) (l : List (K × K)) (hi : Inc l) (hp : Pos l) : Pos (mergeAt i l) :=
  fun x hx => (mergeAt_mem i l hi hp x hx).2.2

theorem mergeAt_inc (i : Nat) : ∀ (l : List (K × K)), Inc l → Pos l → Inc (mergeAt i l) := by
  induction i with
  | zero =>
    intro l hi hp
    match l, hi, hp with
    | [], _, _ => simp [mergeAt, Inc]
    | [a], _, _ => simp [mergeAt, Inc]
    | (v1, f1) :: (v2, f2) :: rest, hi, hp =>
      have h1 : 0 < f1 := hp (v1, f1) (by simp)
      have h2 : 0 < f2 := hp (v2, f2) (by simp)
      have hv : v1 < v2 := (List.pairwise_cons.mp hi).1 (v2, f2) (by simp)
      have hi2 := (List.pairwise_cons.mp hi).2
      have hrest := List.pairwise_cons.mp hi2
      simp only [mergeAt]
      refine List.pairwise_cons.mpr ⟨?_, hrest.2⟩
      intro x hx
      exact lt_trans (centroid_lt hv h1 h2) (hrest.1 x hx)
  | succ n ih =>
    intro l hi hp
    match l, hi, hp with
    | [], _, _ => simp [mergeAt, Inc]
    | a :: rest, hi, hp =>
      have hi' : Inc rest := (List.pairwise_cons.mp hi).2
      have hp' : Pos rest := fun b hb => hp b (by simp [hb])
      simp only [mergeAt]
      refine List.pairwise_cons.mpr ⟨?_, ih rest hi' hp'⟩
      intro x hx
      obtain ⟨⟨y, hy, hyx⟩, _, _⟩ := mergeAt_mem n rest hi' hp' x hx
      exact lt_of_lt_of_le ((List.pairwise_cons.mp hi).1 y hy) hyx

theorem mergeAt_within (i : Nat) (l : List (K × K)) (hi : Inc l) (hp : Pos l) {lo hi' : K}
    (hw : Within lo hi' l) : Within lo hi' (mergeAt i l) := by
  intro x hx
  obtain ⟨⟨y, hy, hyx⟩, ⟨z, hz, hxz⟩, _⟩ := mergeAt_mem i l hi hp x hx
  exact ⟨le_trans (hw y hy).1 hyx, le_trans hxz (hw z hz).2⟩

theorem mergeAt_mass (i : Nat) : ∀ (l : List (K × K)), mass (mergeAt i l) = mass l := by
  induction i with
  | zero =>
    intro l
    match l with
    | [] => rfl
    | [a] => rfl
    | (v1, f1) :: (v2, f2) :: rest => simp only [mergeAt, mass, List.map_cons, List.sum_cons, trimCount_eq]; ring
  | succ n ih =>
    intro l
    match l with
    | [] => rfl
    | a :: rest =>
      have := ih rest
      simp only [mass] at this
      simp only [mergeAt, mass, List.map_cons, List.sum_cons, this]

theorem mergeAt_wsum (i : Nat) : ∀ (l : List (K × K)), Inc l → Pos l → wsum (mergeAt i l) = wsum l := by
  induction i with
  | zero =>
    intro l hi hp
    match l, hi, hp with
    | [], _, _ => rfl
    | [a], _, _ => rfl
    | (v1, f1) :: (v2, f2) :: rest, hi, hp =>
      have hv : v1 < v2 := (List.pairwise_cons.mp hi).1 (v2, f2) (by simp)
      have h1 : 0 < f1 := hp (v1, f1) (by simp)
      have h2 : 0 < f2 := hp (v2, f2) (by simp)
      simp only [mergeAt, wsum, List.map_cons, List.sum_cons, trimCount_eq, centroid_mul hv h1 h2]; ring
  | succ n ih =>
    intro l hi hp
    match l, hi, hp with
    | [], _, _ => rfl
    | a :: rest, hi, hp =>
      have := ih rest (List.pairwise_cons.mp hi).2 (fun b hb => hp b (by simp [hb]))
      simp only [wsum] at this
      simp only [mergeAt, wsum, List.map_cons, List.sum_cons, this]

theorem mergeAt_length (i : Nat) : ∀ (l : List (K × K)), i + 1 < l.length →
    (mergeAt i l).length + 1 = l.length := by
  induction i with
  | zero =>
    intro l h
    match l, h with
    | (v1, f1) :: (v2, f2) :: rest, _ => simp [mergeAt]
  | succ n ih =>
    intro l h
    match l, h with
    | a :: rest, h =>
      have := ih rest (by simpa using h)
      simp only [mergeAt, List.length_cons]; omega

/-! ## the first closest pair -/

theorem gaps_length : ∀ (l : List (K × K)), (gaps l).length = l.length - 1
  | [] => rfl
  | [_] => rfl
  | a :: b :: rest => by
    have := gaps_length (b :: rest)
    simp only [gaps, List.length_cons] at this ⊢
    omega

theorem argminFrom_lt : ∀ (xs : List K) (i bi : Nat) (bv : K), bi < i →
    argminFrom i bi bv xs < i + xs.length
  | [], i, bi, bv, h => by simpa [argminFrom] using h
  | x :: xs, i, bi, bv, h => by
    unfold argminFrom
    split
    · have := argminFrom_lt xs (i + 1) i x (by omega)
      simp only [List.length_cons]; omega
    · have := argminFrom_lt xs (i + 1) bi bv (by omega)
      simp only [List.length_cons]; omega

theorem argminFirst_lt (g : List K) (h : g ≠ []) : argminFirst g < g.length := by
  match g, h with
  | x :: xs, _ =>
    have := argminFrom_lt xs 1 0 x (by omega)
    simp only [argminFirst, List.length_cons]; omega

/-- `load`'s cached differences (the source's expression, position by position) are the adjacent gaps. -/
theorem loadDiffsFrom_eq_gaps : ∀ (prev : K) (l : List (K × K)), loadDiffsFrom prev l = gaps l
  | _, [] => rfl
  | _, [_] => rfl
  | prev, a :: b :: rest => by
    simp only [loadDiffsFrom, gaps, Gen.DistogramExpr.loadDiff, loadDiffsFrom_eq_gaps a.1 (b :: rest)]

theorem loadDiffs_eq_gaps (l : List (K × K)) : loadDiffs l = gaps l := by
  unfold loadDiffs
  cases h : l.getLast? with
  | none =>
    have : l = [] := by simpa using h
    subst this; rfl
  | some bl =>
    simp only [loadDiffsFrom_eq_gaps bl.1 l]
    apply List.take_of_length_le
    rw [gaps_length]
    simp only [Gen.DistogramOps.loadTurns]
    omega

/-- `bulkload`'s inserted value lies between the two edges it averages. -/
theorem bulkMid_between {a b : K} (h : a ≤ b) :
    a ≤ Gen.DistogramExpr.bulkMid a b ∧ Gen.DistogramExpr.bulkMid a b ≤ b := by
  unfold Gen.DistogramExpr.bulkMid
  constructor
  · rw [le_div_iff₀ (by norm_num)]; linarith
  · rw [div_le_iff₀ (by norm_num)]; linarith

/-! ## trimming -/

/-- Anything preserved by merging an arbitrary adjacent pair of a valid list is preserved by the trim. -/
theorem trimRef_induct (P : List (K × K) → Prop)
    (hstep : ∀ i l, Inc l → Pos l → P l → P (mergeAt i l)) (cap : Nat) :
    ∀ (fuel : Nat) (l : List (K × K)), Inc l → Pos l → P l →
      Inc (trimRef cap fuel l) ∧ Pos (trimRef cap fuel l) ∧ P (trimRef cap fuel l) := by
  intro fuel
  induction fuel with
  | zero => intro l hi hp h; exact ⟨hi, hp, h⟩
  | succ n ih =>
    intro l hi hp h
    unfold trimRef
    split
    · exact ih _ (mergeAt_inc _ l hi hp) (mergeAt_pos _ l hi hp) (hstep _ l hi hp h)
    · exact ⟨hi, hp, h⟩

theorem trimRef_length (cap : Nat) (hc : 1 ≤ cap) : ∀ (fuel : Nat) (l : List (K × K)),
    l.length ≤ cap + fuel → (trimRef cap fuel l).length ≤ cap := by
  intro fuel
  induction fuel with
  | zero => intro l h; simpa [trimRef] using h
  | succ n ih =>
    intro l h
    unfold trimRef
    split
    · rename_i hlt
      apply ih
      have hg : gaps l ≠ [] := by
        intro he
        have := gaps_length l
        rw [he] at this
        simp at this
        omega
      have h1 := argminFirst_lt (gaps l) hg
      rw [gaps_length] at h1
      have := mergeAt_length (argminFirst (gaps l)) l (by omega)
      omega
    · omega

/-! ## insertion -/

theorem insertRef_mem (v c : K) : ∀ (l : List (K × K)) (x : K × K), x ∈ insertRef v c l →
    x.1 = v ∨ ∃ y ∈ l, y.1 = x.1
  | [], x, hx => by
    simp only [insertRef, List.mem_singleton] at hx
    exact Or.inl (by rw [hx])
  | (w, f) :: rest, x, hx => by
    unfold insertRef at hx
    split at hx
    · simp only [List.mem_cons] at hx
      rcases hx with rfl | rfl | hx
      · exact Or.inl rfl
      · exact Or.inr ⟨(w, f), by simp, rfl⟩
      · exact Or.inr ⟨x, by simp [hx], rfl⟩
    · split at hx
      · simp only [List.mem_cons] at hx
        rcases hx with rfl | hx
        · exact Or.inr ⟨(w, f), by simp, rfl⟩
        · rcases insertRef_mem v c rest x hx with h | ⟨y, hy, hyx⟩
          · exact Or.inl h
          · exact Or.inr ⟨y, by simp [hy], hyx⟩
      · simp only [List.mem_cons] at hx
        rcases hx with rfl | hx
        · exact Or.inr ⟨(w, f), by simp, rfl⟩
        · exact Or.inr ⟨x, by simp [hx], rfl⟩

theorem insertRef_inc (v c : K) : ∀ (l : List (K × K)), Inc l → Inc (insertRef v c l)
  | [], _ => by simp [insertRef, Inc]
  | (w, f) :: rest, hi => by
    have hc := List.pairwise_cons.mp hi
    unfold insertRef
    split
    · rename_i hvw
      refine List.pairwise_cons.mpr ⟨?_, hi⟩
      intro x hx
      simp only [List.mem_cons] at hx
      rcases hx with rfl | hx
      · exact hvw
      · exact lt_trans hvw (hc.1 x hx)
    · split
      · rename_i _ hwv
        refine List.pairwise_cons.mpr ⟨?_, insertRef_inc v c rest hc.2⟩
        intro x hx
        rcases insertRef_mem v c rest x hx with h | ⟨y, hy, hyx⟩
        · show w < x.1
          rw [h]; exact hwv
        · show w < x.1
          rw [← hyx]; exact hc.1 y hy
      · exact List.pairwise_cons.mpr ⟨fun x hx => hc.1 x hx, hc.2⟩

theorem insertRef_pos (v c : K) (hcpos : 0 < c) : ∀ (l : List (K × K)), Pos l → Pos (insertRef v c l)
  | [], _ => by
    intro b hb
    simp only [insertRef, List.mem_singleton] at hb
    rw [hb]; exact hcpos
  | (w, f) :: rest, hp => by
    have hf : 0 < f := hp (w, f) (by simp)
    have hp' : Pos rest := fun b hb => hp b (by simp [hb])
    unfold insertRef
    split
    · intro b hb
      simp only [List.mem_cons] at hb
      rcases hb with rfl | hb
      · exact hcpos
      · exact hp b (by simpa using hb)
    · split
      · intro b hb
        simp only [List.mem_cons] at hb
        rcases hb with rfl | hb
        · exact hf
        · exact insertRef_pos v c hcpos rest hp' b hb
      · intro b hb
        simp only [List.mem_cons] at hb
        rcases hb with rfl | hb
        · show 0 < f + c
          linarith
        · exact hp' b hb

theorem insertRef_mass (v c : K) : ∀ (l : List (K × K)), mass (insertRef v c l) = mass l + c
  | [] => by simp [insertRef, mass]
  | (w, f) :: rest => by
    have ih := insertRef_mass v c rest
    simp only [mass] at ih
    unfold insertRef
    split
    · simp only [mass, List.map_cons, List.sum_cons]; ring
    · split
      · simp only [mass, List.map_cons, List.sum_cons, ih]; ring
      · simp only [mass, List.map_cons, List.sum_cons]; ring

theorem insertRef_wsum (v c : K) : ∀ (l : List (K × K)), wsum (insertRef v c l) = wsum l + v * c
  | [] => by simp [insertRef, wsum]
  | (w, f) :: rest => by
    have ih := insertRef_wsum v c rest
    simp only [wsum] at ih
    unfold insertRef
    split
    · simp only [wsum, List.map_cons, List.sum_cons]; ring
    · split
      · simp only [wsum, List.map_cons, List.sum_cons, ih]; ring
      · rename_i h1 h2
        have : v = w := le_antisymm (not_lt.mp h2) (not_lt.mp h1)
        subst this
        simp only [wsum, List.map_cons, List.sum_cons]; ring

theorem insertRef_length_le (v c : K) : ∀ (l : List (K × K)), (insertRef v c l).length ≤ l.length + 1
  | [] => by simp [insertRef]
  | (w, f) :: rest => by
    have := insertRef_length_le v c rest
    unfold insertRef
    split
    · simp
    · split
      · simp only [List.length_cons]; omega
      · simp

/-! ## the generated control flow (`Gen.DistogramFlow`, from the source's AST) means what the proofs use

Each lemma restates one model function over the generated tests in the form the proofs unfold.  A changed
operator, a changed `bisect_left` key, or `_trim`'s loop turned into a single test breaks the lemma here. -/

/-- `_trim` is a loop: as many turns as there are bins are available (`while`, not `if`). -/
theorem trimTurns_eq (n : Nat) : Gen.DistogramFlow.trimTurns n = n := rfl

/-- `_trim` runs while there are more bins than the limit. -/
theorem trim_succ (fuel : Nat) (h : Hist K) :
    trim (fuel + 1) h = if h.cap < h.bins.length then (trimStep h).bind (trim fuel) else .ok h := by
  rw [trim]
  simp only [Gen.DistogramFlow.trimGuard, decide_eq_true_eq, gt_iff_lt]

/-- The `bisect_left` key is `(value, 1)`. -/
theorem bisectLeft_def (value : K) (bins : List (K × K)) : bisectLeft value bins =
    (bins.takeWhile (fun b => decide (b.1 < value) || (eqK b.1 value && decide (b.2 < 1)))).length := rfl

/-- `index = 0` iff `value <= first centre`, else `index = -1` iff `value >= last centre`, else `bisect_left`. -/
theorem locate_def (bins : List (K × K)) (value : K) : locate bins value =
    match bins.head?, bins.getLast? with
    | some b0, some bl =>
      if value ≤ b0.1 then (false, 0)
      else if bl.1 ≤ value then (true, bins.length - 1)
      else (false, bisectLeft value bins)
    | _, _ => (false, 0) := by
  unfold locate
  simp only [Gen.DistogramFlow.updFirst, Gen.DistogramFlow.updLast, decide_eq_true_eq, ge_iff_le]
  cases bins.head? with
  | none => rfl
  | some b0 =>
    cases bins.getLast? with
    | none => rfl
    | some bl => simp only []

/-- the bounds after an insertion are the running minimum and maximum (whether the source tests `>` or `>=`) -/
theorem bumpBounds_min (h : Hist K) (v : K) : (bumpBounds h v).min = some (minO h.min v) := by
  unfold bumpBounds minO
  cases h.min with
  | none => rfl
  | some m =>
    simp only [Gen.DistogramFlow.bumpMin, decide_eq_true_eq]
      <;> (simp only [Option.some.injEq]; split_ifs <;> first | rfl | (apply le_antisymm <;> linarith) | (exfalso; linarith))

/-- The two bound updates of `update` are independent statements: the maximum is examined whether or not the minimum
moved (`if … if …`, not `if … elif …` — the first value of a stream moves both). -/
theorem bumpChained_eq : Gen.DistogramOps.bumpChained = false := rfl

theorem bumpBounds_max (h : Hist K) (v : K) : (bumpBounds h v).max = some (maxO h.max v) := by
  unfold bumpBounds maxO
  simp only [bumpChained_eq, Bool.false_and, Bool.false_eq_true, if_false]
  cases h.max with
  | none => rfl
  | some m =>
    simp only [Gen.DistogramFlow.bumpMax, decide_eq_true_eq]
      <;> (simp only [Option.some.injEq]; split_ifs <;> first | rfl | (apply le_antisymm <;> linarith) | (exfalso; linarith))

theorem bumpBounds_bins (h : Hist K) (v : K) : (bumpBounds h v).bins = h.bins := rfl
theorem bumpBounds_cap (h : Hist K) (v : K) : (bumpBounds h v).cap = h.cap := rfl
theorem bumpBounds_diffs (h : Hist K) (v : K) : (bumpBounds h v).diffs = h.diffs := rfl
theorem bumpBounds_minDiff (h : Hist K) (v : K) : (bumpBounds h v).minDiff = h.minDiff := rfl

/-! ### the tests on the optional gap cache (`Gen.DistogramOps`, from `_update_diffs`, `_trim`, `update`,
`_search_in_place_index`) are `is not None` / `is None`

`load()` of a histogram with a single bin creates the EMPTY list, which is not `None`: a bare truthiness test
(`if h.diffs:`) would treat it as "no cache" in `update`/`_trim` (never maintained) while `_search_in_place_index`
(`is None`) would never compute it, so `min_diff` stays infinite and every interior value is merged in place.  Each of
these equations is `rfl` for the source as it is and fails for a truthiness test. -/

theorem udCache_eq (d : Option (List K)) : Gen.DistogramOps.udCache d = d.isSome := rfl
theorem trimCachePick_eq (d : Option (List K)) : Gen.DistogramOps.trimCachePick d = d.isSome := rfl
theorem trimCacheKeep_eq (d : Option (List K)) : Gen.DistogramOps.trimCacheKeep d = d.isSome := rfl
theorem appendCache_eq (d : Option (List K)) : Gen.DistogramOps.appendCache d = d.isSome := rfl
theorem insertCache_eq (d : Option (List K)) : Gen.DistogramOps.insertCache d = d.isSome := rfl
theorem searchNoCache_eq (d : Option (List K)) : Gen.DistogramOps.searchNoCache d = d.isNone := rfl

/-- `update` appends iff `index == -1` -/
theorem isAppend_eq (neg : Bool) (idx : Nat) :
    Gen.DistogramOps.isAppend (if neg then -1 else (idx : Int)) = neg := by
  -- proved for `index == -1` and for the equivalent `index < 0` / `index <= -1` alike
  cases neg <;> simp [Gen.DistogramOps.isAppend] <;> omega

theorem inPlaceTry_eq (neg : Bool) (idx len cap : Nat) :
    Gen.DistogramFlow.inPlaceTry (if neg then -1 else (idx : Int)) len cap =
      (!neg && decide (0 < idx) && decide (cap ≤ len)) := by
  cases neg <;> simp [Gen.DistogramFlow.inPlaceTry]

/-- the in-place shortcut is tried for a position `index > 0` (not an append) of a full histogram; whether its answer
is taken (`in_place_index > 0` in the source) is left as the source has it — both outcomes refine the reference -/
theorem afterHit_def (h : Hist K) (neg : Bool) (idx : Nat) (value count : K) : afterHit h neg idx value count =
    if !neg && decide (0 < idx) && decide (h.cap ≤ h.bins.length) then
      (if h.diffs.isNone then computeDiffs h else .ok h).bind fun h1 =>
      (searchInPlaceIndex h1 value idx).bind fun r =>
      match r with
      | some ib =>
        if Gen.DistogramFlow.inPlaceTake (ib : Int) then trimInPlace h1 value count ib
        else insertTrim h1 neg idx value count
      | none => insertTrim h1 neg idx value count
    else insertTrim h neg idx value count := by
  unfold afterHit
  rw [inPlaceTry_eq]
  rfl

/-- a count `<= 0` is rejected; an exact hit (`vi == value`) adds the count to the bin -/
theorem update_def (h : Hist K) (value count : K) : update h value count =
    if count ≤ 0 then .error "ValueError" else
    match (if 0 < h.bins.length then h.bins[(locate h.bins value).2]? else none) with
    | some (vi, fi) =>
      if eqK vi value then .ok { h with bins := h.bins.set (locate h.bins value).2 (vi, fi + count) }
      else afterHit h (locate h.bins value).1 (locate h.bins value).2 value count
    | none =>
      if 0 < h.bins.length then .error "IndexError"
      else afterHit h (locate h.bins value).1 (locate h.bins value).2 value count := by
  unfold update
  simp only [Gen.DistogramFlow.updCountBad, Gen.DistogramFlow.hitTest, Gen.DistogramFlow.hitCount, decide_eq_true_eq]
  rfl

/-! ## The statements around the update path are the model's (`Gen.DistogramOps.*`, regenerated on every run)

`__add__`, `bulkload`, the append bookkeeping of `update`, `_update_diffs`, the positions of `_trim`: each lemma restates
one model function over the generated tests, expressions and positions in the form the proofs unfold.  A changed test
(`operand.min is not None` turned into a truthiness test), operator, offset (`pop(i + 1)`), or guard (`i < len - 1`)
breaks the lemma here. -/

theorem pyMin_def (a b : K) : Gen.DistogramOps.pyMin a b = if b < a then b else a := rfl
theorem pyMax_def (a b : K) : Gen.DistogramOps.pyMax a b = if a < b then b else a := rfl

/-- the lowering test of `_update_diffs` is `new gap < min_diff` -/
theorem ltMinDiff_def (x : K) (m : Option K) :
    ltMinDiff x m = (match m with | none => true | some y => decide (x < y)) := rfl

/-- the stale-minimum test of `_update_diffs` is `old entry == min_diff` -/
theorem eqMinDiff_def (x : K) (m : Option K) :
    eqMinDiff x m = (match m with | none => false | some y => eqK x y) := rfl

/-- `_update_diffs` stores `bins[j + 1] - bins[j]` at cache position `j` -/
theorem diffBlock_def (bins : List (K × K)) (st : List K × Option K × Bool) (c : Bool) (j : Nat) :
    diffBlock bins st c j =
      if c then
        match bins[j + 1]?, bins[j]? with
        | some bn, some bi => pointUpdate st j (bn.1 - bi.1)
        | _, _ => .error "IndexError"
      else .ok st := rfl

/-- `_update_diffs(h, i)` refreshes the gap left of bin `i` iff `i > 0` and the gap right of it iff `i` is not the last bin -/
theorem updateDiffs_def (h : Hist K) (i : Nat) : updateDiffs h i =
    match h.diffs with
    | none => .ok h
    | some d0 =>
      (diffBlock h.bins (d0, h.minDiff, false) (decide (0 < i)) (i - 1)).bind fun s1 =>
      (diffBlock h.bins s1 (decide (i + 1 < h.bins.length)) i).bind fun s2 =>
      (finishMin s2).bind fun md =>
      .ok { h with diffs := some s2.1, minDiff := md } := by
  have e1 : Gen.DistogramOps.udLeft (i : Int) (h.bins.length : Int) = decide (0 < i) := by
    simp [Gen.DistogramOps.udLeft]
  have e2 : Gen.DistogramOps.udRight (i : Int) (h.bins.length : Int) = decide (i + 1 < h.bins.length) := by
    unfold Gen.DistogramOps.udRight
    exact decide_eq_decide.mpr (by omega)
  unfold updateDiffs
  rw [e1, e2, udCache_eq]
  cases h.diffs <;> rfl

/-- one turn of `_trim` reads bin `i`, pops bin `i + 1`, stores the merged bin at `i`, pops cache entry `i` and
refreshes the cache around `i` -/
theorem trimStep_def (h : Hist K) : trimStep h =
    (trimIndex h).bind fun i =>
    match h.bins[i]?, h.bins[i + 1]? with
    | some (v1, f1), some (v2, f2) =>
      let bins := (h.bins.eraseIdx (i + 1)).set i (centroid v1 f1 v2 f2, Gen.DistogramExpr.trimCount v1 f1 v2 f2)
      match h.diffs with
      | some d =>
        if d.length ≤ i then .error "IndexError" else
        (updateDiffs { h with bins := bins, diffs := some (d.eraseIdx i) } i).bind fun h1 =>
        match h1.diffs.bind listMin with
        | some m => .ok { h1 with minDiff := some m }
        | none => .error "ValueError"
      | none => .ok { h with bins := bins }
    | _, _ => .error "IndexError" := by
  unfold trimStep
  simp only [trimCacheKeep_eq, Gen.DistogramOps.trimKeep, Gen.DistogramOps.trimPopBin, Gen.DistogramOps.trimPopDiff,
    Gen.DistogramOps.trimRefresh]
  cases h.diffs <;> rfl

/-- an append lowers the cached minimum to the new last gap when that is smaller (`min(h.min_diff, diff)`) -/
theorem insertBin_def (h : Hist K) (neg : Bool) (idx : Nat) (value count : K) : insertBin h neg idx value count =
    if neg then
      match h.diffs, h.bins.getLast? with
      | some d, some bl =>
        let diff := value - bl.1
        .ok { h with bins := h.bins ++ [(value, count)], diffs := some (d ++ [diff]),
                     minDiff := some (match h.minDiff with
                                      | none => diff
                                      | some m => if diff < m then diff else m) }
      | _, _ => .ok { h with bins := h.bins ++ [(value, count)] }
    else
      match h.diffs with
      | some d =>
        updateDiffs { h with bins := h.bins.insertIdx idx (value, count), diffs := some (d.insertIdx idx (0 : K)) } idx
      | none => .ok { h with bins := h.bins.insertIdx idx (value, count) } := by
  unfold insertBin
  rw [isAppend_eq, appendCache_eq, insertCache_eq]
  cases neg <;> cases h.diffs <;> rfl

/-- `_compute_diffs` caches `v2 - v1` for adjacent centres: the adjacent gaps -/
theorem computeGaps_eq_gaps : ∀ (l : List (K × K)), computeGaps l = gaps l
  | [] => rfl
  | [_] => rfl
  | a :: b :: rest => by
    simp only [computeGaps, gaps, Gen.DistogramOps.computeGap, computeGaps_eq_gaps (b :: rest)]

theorem computeDiffs_def (h : Hist K) : computeDiffs h =
    match listMin (gaps h.bins) with
    | some m => .ok { h with diffs := some (gaps h.bins), minDiff := some m }
    | none => .error "ValueError" := by
  unfold computeDiffs
  simp only [computeGaps_eq_gaps]
  cases listMin (gaps h.bins) <;> rfl

/-- `merge(h1, h2)` hands each bin of `h2` to `update` as (value, count), in that order -/
theorem merge_def (h : Hist K) (other : List (K × K)) :
    merge h other = other.foldlM (fun acc b => update acc b.1 b.2) h := rfl

/-- `load`: `min_diff` is `min(diffs)` when there is a gap and infinity otherwise — `listMin` either way -/
theorem load_def (bins : List (K × K)) (mn mx : Option K) : load bins mn mx =
    { bins := bins, min := mn, max := mx, diffs := some (loadDiffs bins), minDiff := listMin (loadDiffs bins),
      cap := Gen.Distogram.binCount } := by
  unfold load
  cases hd : loadDiffs bins <;> simp [Gen.DistogramOps.loadHasDiffs, Gen.DistogramOps.listTruthy, Gen.DistogramOps.loadNoDiffs, listMin]

/-- `_trim` without a cache scans `enumerate(h.bins[1:], start=1)` recording `(i - 1, b[0] - h.bins[i - 1][0])` and takes
the first smallest: the first closest adjacent pair -/
theorem scan_fold : ∀ (l : List (K × K)) (i : Nat) (m : Nat × K), 1 ≤ i →
    ((scanPairs i l).foldl (fun m q => if q.2 < m.2 then q else m) m).1 = argminFrom (i - 1) m.1 m.2 (gaps l)
  | [], _, _, _ => rfl
  | [_], _, _, _ => rfl
  | a :: b :: rest, i, m, hi => by
    have e : ((i : Int) - 1).toNat = i - 1 := by omega
    have e2 : i + 1 - 1 = i - 1 + 1 := by omega
    simp only [scanPairs, gaps, List.foldl_cons, argminFrom, Gen.DistogramOps.trimScanIdx, Gen.DistogramOps.trimScanGap, e]
    split_ifs with hlt
    · rw [scan_fold (b :: rest) (i + 1) _ (by omega), e2]
    · rw [scan_fold (b :: rest) (i + 1) _ (by omega), e2]

theorem scanMin_eq (l : List (K × K)) : scanMin (scanPairs 1 l) =
    match gaps l with
    | [] => none
    | g => some (argminFirst g) := by
  match l with
  | [] => rfl
  | [_] => rfl
  | a :: b :: rest =>
    have e : ((1 : Int) - 1).toNat = 0 := by omega
    simp only [scanPairs, gaps, scanMin, argminFirst, Gen.DistogramOps.trimScanIdx, Gen.DistogramOps.trimScanGap,
      Nat.cast_one, e]
    rw [scan_fold (b :: rest) 2 _ (by omega)]

/-- `_trim` looks the pair up in the cache iff there is one (`h.diffs is not None`); without a cache it takes the first
closest adjacent pair -/
theorem trimIndex_def (h : Hist K) : trimIndex h =
    match h.diffs with
    | some d =>
      match h.minDiff with
      | some md =>
        match indexOf md d with
        | some i => .ok i
        | none => .error "ValueError"
      | none => .error "ValueError"
    | none =>
      match gaps h.bins with
      | [] => .error "ValueError"
      | g => .ok (argminFirst g) := by
  unfold trimIndex
  rw [trimCachePick_eq, scanMin_eq]
  cases h.diffs
  · simp only [Option.isSome_none, Bool.false_eq_true, if_false]
    cases gaps h.bins <;> rfl
  · rfl

/-- `__add__`: the right operand contributes its bounds iff it has a minimum (`operand.min is not None` — not a
truthiness test: a minimum of exactly zero counts), and the bounds of the sum are the smaller minimum / larger maximum -/
theorem add_def (h t : Hist K) : add h t =
    (merge h t.bins).bind fun m =>
    match m.min, m.max, t.min, t.max with
    | some a, some b, some c, some d =>
      .ok { m with min := some (if c < a then c else a), max := some (if b < d then d else b) }
    | _, _, none, _ => .ok m
    | _, _, _, _ => .error "TypeError" := by
  unfold add
  congr 1
  funext m
  simp only [Gen.DistogramOps.addGuard, Gen.DistogramOps.addMin, Gen.DistogramOps.addMax, pyMin_def, pyMax_def]
  cases t.min <;> cases t.max <;> cases m.min <;> cases m.max <;> simp

/-- `bulkload`: pairs with `count > 0` are inserted; without bounds the data's bounds are taken, else the smaller
minimum / larger maximum -/
theorem bulk_def (h : Hist K) (pairs : List (K × K)) (lo hi : K) : bulk h pairs lo hi =
    ((pairs.filter (fun p => decide (0 < p.2))).foldlM (fun acc b => update acc b.1 b.2) h).bind fun m =>
    match m.min, m.max with
    | some a, some b =>
      .ok { m with min := some (if lo < a then lo else a), max := some (if b < hi then hi else b) }
    | none, _ => .ok { m with min := some lo, max := some hi }
    | some _, none => .error "TypeError" := by
  unfold bulk
  have e : (fun p : K × K => Gen.DistogramOps.bulkTake p.2) = fun p => decide (0 < p.2) := rfl
  rw [e]
  congr 1
  funext m
  simp only [Gen.DistogramOps.bulkFresh, Gen.DistogramOps.bulkMin, Gen.DistogramOps.bulkMax, pyMin_def, pyMax_def]
  cases m.min <;> cases m.max <;> simp

/-- `bulkload` sends an array through numpy.histogram iff it has MORE than `limit * bulkFactor` distinct values: an
array with exactly that many is inserted value by value (and so keeps the exact mean). -/
theorem bulkAbove_iff (distinct cap : Nat) :
    Gen.DistogramOps.bulkAbove (distinct : Int) (cap : Int) = true ↔ cap * Gen.Distogram.bulkFactor < distinct := by
  simp only [Gen.DistogramOps.bulkAbove, Gen.Distogram.bulkFactor, decide_eq_true_eq]
  omega

end Distogram
