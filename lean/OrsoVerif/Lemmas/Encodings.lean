import OrsoVerif.Model.Encodings
/-! Helper lemmas for C09 (`Props/C09.lean`): the loops of `Model/Encodings.lean` by induction. -/
namespace Enc

variable {α β : Type}

theorem zip_map_fst_snd (l : List (α × β)) : (l.map (·.1)).zip (l.map (·.2)) = l := by
  induction l with
  | nil => rfl
  | cons p t ih => simp [ih]

theorem mapM_some_of_forall {g : α → Option β} {c : α → β} (l : List α)
    (h : ∀ v ∈ l, g v = some (c v)) : l.mapM g = some (l.map c) := by
  induction l with
  | nil => rfl
  | cons a t ih =>
    have h1 := h a (by simp)
    have h2 := ih (fun v hv => h v (by simp [hv]))
    simp [List.mapM_cons, h1, h2]

/-! ### run-length -/

/-- Expansion of a list of runs. -/
def expand (runs : List (α × Nat)) : List α := runs.flatMap fun p => List.replicate p.2 p.1

theorem rleDecode_runs (runs : List (α × Nat)) :
    rleDecode ⟨runs.map (·.1), runs.map (·.2)⟩ = expand runs := by
  simp [rleDecode, expand, zip_map_fst_snd]

theorem rleLoop_expand (eq : α → α → Bool) (heq : ∀ a b, eq a b = true → a = b)
    (vs : List α) (p : α) (n : Nat) :
    expand (rleLoop eq p n vs) = List.replicate n p ++ vs := by
  induction vs generalizing p n with
  | nil => simp [rleLoop, expand]
  | cons v vs ih =>
    unfold rleLoop
    split
    · rename_i h
      have hv := heq _ _ h
      subst hv
      rw [ih, List.replicate_succ']
      simp
    · have := ih v 1
      simp only [expand, List.flatMap_cons] at this ⊢
      rw [this]
      simp

theorem rleLoop_lengths_sum (eq : α → α → Bool) (vs : List α) (p : α) (n : Nat) :
    ((rleLoop eq p n vs).map (·.2)).sum = n + vs.length := by
  induction vs generalizing p n with
  | nil => simp [rleLoop]
  | cons v vs ih =>
    unfold rleLoop
    split
    · rw [ih]; simp; omega
    · simp [ih]; omega

theorem rleLoop_lengths_pos (eq : α → α → Bool) (vs : List α) (p : α) (n : Nat) (hn : 0 < n) :
    ∀ q ∈ rleLoop eq p n vs, 0 < q.2 := by
  induction vs generalizing p n with
  | nil => simp [rleLoop]; exact hn
  | cons v vs ih =>
    unfold rleLoop
    split
    · exact ih p (n + 1) (by omega)
    · intro q hq
      rcases List.mem_cons.mp hq with h | h
      · subst h; exact hn
      · exact ih v 1 (by omega) q h

/-- Consecutive entries are unequal under the comparison the loop uses (`eq next prev`). -/
def AdjDiffer (eq : α → α → Bool) : List α → Prop
  | [] => True
  | [_] => True
  | a :: b :: t => eq b a = false ∧ AdjDiffer eq (b :: t)

theorem rleLoop_head (eq : α → α → Bool) (vs : List α) (p : α) (n : Nat) :
    ∃ t, (rleLoop eq p n vs).map (·.1) = p :: t := by
  induction vs generalizing p n with
  | nil => exact ⟨[], by simp [rleLoop]⟩
  | cons v vs ih =>
    unfold rleLoop
    split
    · exact ih p (n + 1)
    · exact ⟨(rleLoop eq v 1 vs).map (·.1), by simp⟩

theorem rleLoop_adjDiffer (eq : α → α → Bool) (vs : List α) (p : α) (n : Nat) :
    AdjDiffer eq ((rleLoop eq p n vs).map (·.1)) := by
  induction vs generalizing p n with
  | nil => simp [rleLoop, AdjDiffer]
  | cons v vs ih =>
    unfold rleLoop
    split
    · exact ih p (n + 1)
    · rename_i h
      obtain ⟨t, ht⟩ := rleLoop_head eq vs v 1
      have := ih v 1
      simp only [List.map_cons, ht] at this ⊢
      exact ⟨by simpa using h, this⟩

theorem adjDiffer_getElem (eq : α → α → Bool) (l : List α) (h : AdjDiffer eq l)
    (i : Nat) (hi : i + 1 < l.length) : eq l[i + 1] l[i] = false := by
  induction l generalizing i with
  | nil => simp at hi
  | cons a t ih =>
    cases t with
    | nil => simp at hi
    | cons b t' =>
      cases i with
      | zero => exact h.1
      | succ j =>
        have := ih h.2 j (by simpa using hi)
        simpa using this

/-! ### dictionary -/

theorem mem_dedup [DecidableEq α] (a : α) (l : List α) : a ∈ dedup l ↔ a ∈ l := by
  induction l with
  | nil => simp [dedup]
  | cons x t ih =>
    unfold dedup
    split
    · rename_i h
      constructor
      · intro ha; exact List.mem_cons_of_mem _ (ih.mp ha)
      · intro ha
        rcases List.mem_cons.mp ha with h' | h'
        · subst h'; exact h
        · exact ih.mpr h'
    · simp [ih]

theorem nodup_dedup [DecidableEq α] (l : List α) : (dedup l).Nodup := by
  induction l with
  | nil => simp [dedup]
  | cons x t ih =>
    unfold dedup
    split
    · exact ih
    · rename_i h
      exact List.nodup_cons.mpr ⟨h, ih⟩

theorem getElem?_idxOf_of_mem [DecidableEq α] (x : α) (l : List α) (h : x ∈ l) :
    l[l.idxOf x]? = some x := by
  have hlt : l.idxOf x < l.length := List.idxOf_lt_length_of_mem h
  rw [List.getElem?_eq_getElem hlt, List.getElem_idxOf hlt]

theorem gather_idxOf [DecidableEq α] (vals xs : List α) (h : ∀ x ∈ xs, x ∈ vals) :
    (xs.map fun x => vals.idxOf x).mapM (fun c => vals[c]?) = some xs := by
  induction xs with
  | nil => rfl
  | cons x t ih =>
    have h1 := getElem?_idxOf_of_mem x vals (h x (by simp))
    have h2 := ih (fun y hy => h y (by simp [hy]))
    simp [List.mapM_cons, h1, h2]

theorem gather_map (f : α → β) (vals : List α) (codes : List Nat) :
    codes.mapM (fun c => (vals.map f)[c]?) = (codes.mapM fun c => vals[c]?).map (List.map f) := by
  induction codes with
  | nil => rfl
  | cons c t ih =>
    simp only [List.mapM_cons]
    rw [ih]
    simp only [List.getElem?_map]
    cases h1 : vals[c]? <;> cases h2 : (t.mapM fun c => vals[c]?) <;> simp

/-! ### sparse -/

theorem sparseScan_ne (ne : α → α → Bool) (d : α) (xs : List α) (k : Nat) :
    ∀ p ∈ sparseScan ne d k xs, ne p.2 d = true := by
  induction xs generalizing k with
  | nil => simp [sparseScan]
  | cons x t ih =>
    unfold sparseScan
    split
    · rename_i h
      intro p hp
      rcases List.mem_cons.mp hp with h' | h'
      · subst h'; exact h
      · exact ih (k + 1) p h'
    · exact ih (k + 1)

theorem sparseScan_range (ne : α → α → Bool) (d : α) (xs : List α) (k : Nat) :
    ∀ p ∈ sparseScan ne d k xs, k ≤ p.1 ∧ p.1 < k + xs.length ∧ xs[p.1 - k]? = some p.2 := by
  induction xs generalizing k with
  | nil => simp [sparseScan]
  | cons x t ih =>
    have rest : ∀ p ∈ sparseScan ne d (k + 1) t,
        k ≤ p.1 ∧ p.1 < k + (x :: t).length ∧ (x :: t)[p.1 - k]? = some p.2 := by
      intro p hp
      obtain ⟨h1, h2, h3⟩ := ih (k + 1) p hp
      refine ⟨by omega, by simp; omega, ?_⟩
      have : p.1 - k = (p.1 - (k + 1)) + 1 := by omega
      rw [this, List.getElem?_cons_succ]; exact h3
    unfold sparseScan
    split
    · intro p hp
      rcases List.mem_cons.mp hp with h' | h'
      · subst h'; simp
      · exact rest p h'
    · exact rest

theorem sparseScan_increasing (ne : α → α → Bool) (d : α) (xs : List α) (k : Nat) :
    ((sparseScan ne d k xs).map (·.1)).Pairwise (· < ·) := by
  induction xs generalizing k with
  | nil => simp [sparseScan]
  | cons x t ih =>
    unfold sparseScan
    split
    · simp only [List.map_cons, List.pairwise_cons]
      refine ⟨?_, ih (k + 1)⟩
      intro j hj
      obtain ⟨p, hp, rfl⟩ := List.mem_map.mp hj
      have := (sparseScan_range ne d t (k + 1) p hp).1
      omega
    · exact ih (k + 1)

/-- The scatter of a scan reconstructs the input; stated with an element-wise conversion `c`
applied to default and values (`c = id` for the plain round trip): positions the scan dropped
hold `c d`, which is `c x` there by `h`. -/
theorem scatter_scan (ne : α → α → Bool) (d : α) (c : α → β) (xs : List α)
    (h : ∀ x ∈ xs, ne x d = false → c x = c d) (pre : List β) :
    scatter (pre ++ List.replicate xs.length (c d))
      ((sparseScan ne d pre.length xs).map fun p => (p.1, c p.2)) = some (pre ++ xs.map c) := by
  induction xs generalizing pre with
  | nil => simp [sparseScan, scatter]
  | cons x t ih =>
    have ht : ∀ y ∈ t, ne y d = false → c y = c d := fun y hy => h y (by simp [hy])
    have key := ih ht (pre ++ [c x])
    simp only [List.length_append, List.length_cons, List.length_nil, Nat.zero_add,
      List.append_assoc, List.singleton_append] at key
    unfold sparseScan
    split
    · simp only [List.map_cons, scatter, List.length_append, List.length_cons,
        List.length_replicate]
      have hlt : pre.length < pre.length + (t.length + 1) := by omega
      simp only [hlt, if_true]
      have hset : (pre ++ List.replicate (t.length + 1) (c d)).set pre.length (c x)
          = pre ++ c x :: List.replicate t.length (c d) := by
        rw [List.set_append_right _ _ (Nat.le_refl _)]
        simp [List.replicate_succ]
      rw [hset, key]
    · rename_i hx
      have hx' : ne x d = false := by simpa using hx
      have hc := h x (by simp) hx'
      simp only [List.length_cons, List.replicate_succ, List.map_cons]
      rw [hc] at key ⊢
      exact key

theorem scatter_map (f : α → β) (ps : List (Nat × α)) (acc : List α) :
    scatter (acc.map f) (ps.map fun p => (p.1, f p.2)) = (scatter acc ps).map (List.map f) := by
  induction ps generalizing acc with
  | nil => simp [scatter]
  | cons p t ih =>
    obtain ⟨i, v⟩ := p
    simp only [List.map_cons, scatter, List.length_map]
    split
    · rw [← ih, List.map_set]
    · rfl

theorem sparseDecode_map (f : α → β) (d : α) (e : Sparse α) :
    sparseDecode (f d) (e.mapValues f) = (sparseDecode d e).map (List.map f) := by
  unfold sparseDecode Sparse.mapValues
  simp only [List.length_map]
  split
  · rw [← scatter_map, List.map_replicate]
    congr 1
    rw [List.zip_map_right]
    simp [Prod.map]
  · rfl

/-! ### dtypes -/

theorem DType.le_join_left (a b : DType) : DType.le a (DType.join a b) = true := by
  cases a <;> cases b <;> simp [DType.join, DType.le, DType.rank] <;> omega

theorem DType.le_join_right (a b : DType) : DType.le b (DType.join a b) = true := by
  cases a <;> cases b <;> simp [DType.join, DType.le, DType.rank] <;> omega

/-- `w` is `v` itself or `v` widened along `bool → int → float`. -/
def Widened (i2f : Int → UInt64) (v w : PyVal) : Prop :=
  w = v
  ∨ (∃ i, v = .int i ∧ w = .float (i2f i))
  ∨ (∃ b, v = .bool b ∧ w = .int (if b then 1 else 0))
  ∨ (∃ b, v = .bool b ∧ w = .float (i2f (if b then 1 else 0)))

end Enc
