import OrsoVerif.Lemmas.PersistFns
/-!
# C16, fifth pass — a schema with a history

A *session* on one schema object: records are validated, then the schema is edited in place (an attribute of a
column assigned, a column added, removed, replaced, the column list reversed), any number of times.  In the model a
schema is a value: validating a record leaves it as it is (`Session.use`), which is exactly what the extracted
`Gen.ValidateFlow.hiddenState = []` says of the code (`C16.validate_reads_current_columns`).  The lemmas here show
that every edit keeps each column in a `Reachable` state, so the round-trip theorems apply after any session.
-/
namespace Persist
open Gen.Persist
variable {V : Type}

/-- an in-place assignment to one column (the attributes of `Reachable`) -/
inductive ColEdit (V : Type) where
  | name (x : String) | description (x : Option String) | aliases (x : Option (List String)) | nullable (x : Bool)
  | identity (x : String) | highest_value (x : V) | lowest_value (x : V) | null_count (x : Option Nat)
  | origin (x : List String) | length (x : Option Nat)

def ColEdit.apply : ColEdit V → Col V → Col V
  | .name x, c => { c with name := x }
  | .description x, c => { c with description := x }
  | .aliases x, c => { c with aliases := x }
  | .nullable x, c => { c with nullable := x }
  | .identity x, c => { c with identity := x }
  | .highest_value x, c => { c with highest_value := x }
  | .lowest_value x, c => { c with lowest_value := x }
  | .null_count x, c => { c with null_count := x }
  | .origin x, c => { c with origin := x }
  | .length x, c => { c with length := x }

theorem ColEdit.reachable (K : Caster V) (e : ColEdit V) (c : Col V) (h : Reachable K c) : Reachable K (e.apply c) := by
  cases e with
  | name x => exact .name x h
  | description x => exact .description x h
  | aliases x => exact .aliases x h
  | nullable x => exact .nullable x h
  | identity x => exact .identity x h
  | highest_value x => exact .highest_value x h
  | lowest_value x => exact .lowest_value x h
  | null_count x => exact .null_count x h
  | origin x => exact .origin x h
  | length x => exact .length x h

def modifyAt {α : Type} (f : α → α) : Nat → List α → List α
  | _, [] => []
  | 0, a :: l => f a :: l
  | n + 1, a :: l => a :: modifyAt f n l

def removeAt {α : Type} : Nat → List α → List α
  | _, [] => []
  | 0, _ :: l => l
  | n + 1, a :: l => a :: removeAt n l

theorem mem_modifyAt {α : Type} (f : α → α) (P : α → Prop) (hf : ∀ a, P a → P (f a)) :
    ∀ (n : Nat) (l : List α), (∀ a ∈ l, P a) → ∀ a ∈ modifyAt f n l, P a
  | n, [], _ => by intro a ha; cases n <;> simp [modifyAt] at ha
  | 0, b :: l, h => by
    intro a ha
    simp only [modifyAt, List.mem_cons] at ha
    rcases ha with rfl | ha
    · exact hf b (h b (List.mem_cons_self ..))
    · exact h a (List.mem_cons_of_mem _ ha)
  | n + 1, b :: l, h => by
    intro a ha
    simp only [modifyAt, List.mem_cons] at ha
    rcases ha with rfl | ha
    · exact h a (List.mem_cons_self ..)
    · exact mem_modifyAt f P hf n l (fun x hx => h x (List.mem_cons_of_mem _ hx)) a ha

theorem mem_removeAt {α : Type} (P : α → Prop) :
    ∀ (n : Nat) (l : List α), (∀ a ∈ l, P a) → ∀ a ∈ removeAt n l, P a
  | n, [], _ => by intro a ha; cases n <;> simp [removeAt] at ha
  | 0, b :: l, h => by
    intro a ha
    exact h a (List.mem_cons_of_mem _ ha)
  | n + 1, b :: l, h => by
    intro a ha
    simp only [removeAt, List.mem_cons] at ha
    rcases ha with rfl | ha
    · exact h a (List.mem_cons_self ..)
    · exact mem_removeAt P n l (fun x hx => h x (List.mem_cons_of_mem _ hx)) a ha

/-- one step of a session on a schema object -/
inductive Edit (V : Type) where
  /-- a record is validated (directly or through `DataFrame.append`): the schema is read, not written -/
  | use (record : Validate.Record)
  | col (i : Nat) (e : ColEdit V)
  | add (c : Col V)
  | remove (i : Nat)
  | replace (i : Nat) (c : Col V)
  | reverse
  | schemaName (x : String)
  | schemaAliases (x : List String)
  | primaryKey (x : Option String)

def Edit.apply : Edit V → Schema V → Schema V
  | .use _, s => s
  | .col i e, s => { s with columns := modifyAt e.apply i s.columns }
  | .add c, s => { s with columns := s.columns ++ [c] }
  | .remove i, s => { s with columns := removeAt i s.columns }
  | .replace i c, s => { s with columns := modifyAt (fun _ => c) i s.columns }
  | .reverse, s => { s with columns := s.columns.reverse }
  | .schemaName x, s => { s with name := x }
  | .schemaAliases x, s => { s with aliases := x }
  | .primaryKey x, s => { s with primary_key := x }

/-- a column brought into the schema by an edit is itself reachable (built by the constructor, possibly edited) -/
def Edit.Fine (K : Caster V) : Edit V → Prop
  | .add c => Reachable K c
  | .replace _ c => Reachable K c
  | _ => True

def runSession (es : List (Edit V)) (s : Schema V) : Schema V := es.foldl (fun s e => e.apply s) s

theorem Edit.keeps (K : Caster V) (e : Edit V) (he : e.Fine K) (s : Schema V) (h : ∀ c ∈ s.columns, Reachable K c) :
    ∀ c ∈ (e.apply s).columns, Reachable K c := by
  cases e with
  | use r => exact h
  | col i ce => exact mem_modifyAt _ (Reachable K) (fun a ha => ce.reachable K a ha) i s.columns h
  | add c =>
    intro x hx
    simp only [Edit.apply, List.mem_append, List.mem_singleton] at hx
    rcases hx with hx | rfl
    · exact h x hx
    · exact he
  | remove i => exact mem_removeAt (Reachable K) i s.columns h
  | replace i c => exact mem_modifyAt _ (Reachable K) (fun _ _ => he) i s.columns h
  | reverse =>
    intro x hx
    simp only [Edit.apply, List.mem_reverse] at hx
    exact h x hx
  | schemaName x => exact h
  | schemaAliases x => exact h
  | primaryKey x => exact h

theorem runSession_keeps (K : Caster V) : ∀ (es : List (Edit V)), (∀ e ∈ es, e.Fine K) → ∀ (s : Schema V),
    (∀ c ∈ s.columns, Reachable K c) → ∀ c ∈ (runSession es s).columns, Reachable K c
  | [], _, _, h => h
  | e :: es, hf, s, h => by
    show ∀ c ∈ (runSession es (e.apply s)).columns, Reachable K c
    exact runSession_keeps K es (fun x hx => hf x (List.mem_cons_of_mem _ hx)) (e.apply s)
      (e.keeps K (hf e (List.mem_cons_self ..)) s h)

/-- does the step write the schema? (`use` = validating a record does not) -/
def Edit.writes : Edit V → Bool
  | .use _ => false
  | _ => true

/-- validating records in between changes nothing: a session with its `use` steps removed ends in the same schema -/
theorem runSession_ignores_use : ∀ (es : List (Edit V)) (s : Schema V),
    runSession es s = runSession (es.filter Edit.writes) s
  | [], _ => rfl
  | e :: es, s => by
    cases h : e.writes with
    | true =>
      rw [List.filter_cons_of_pos h]
      show runSession es (e.apply s) = runSession (es.filter Edit.writes) (e.apply s)
      exact runSession_ignores_use es _
    | false =>
      rw [List.filter_cons_of_neg (by simp [h])]
      have hs : e.apply s = s := by
        cases e <;> first | rfl | (simp [Edit.writes] at h)
      show runSession es (e.apply s) = runSession (es.filter Edit.writes) s
      rw [hs]
      exact runSession_ignores_use es s


/-! ## any written state: what `validate` reads survives the dictionary, whatever else the column holds

An attribute assigned in place (a type member next to a default of the old type, a DECIMAL without precision, a raw
default) gives a state no constructor call produces; `from_dict ∘ to_dict` is then not the identity (the constructor
casts the default and fills the DECIMAL parameters on load) and may raise.  When it succeeds, the name, the type and
the nullability are the ones written. -/

theorem init_reads (K : Caster V) (fresh : String) (r : Raw V) (c' : Col V) (h : init K fresh r = .ok c') :
    ∃ t, resolveType (rd "type" r.type (.member missingName)) (rd "element_type" r.element_type none)
          (rd "length" r.length none) (rd "precision" r.precision none) (rd "scale" r.scale none) = .ok t
      ∧ c'.type = t.ty ∧ rdReq "name" r.name = some c'.name ∧ c'.nullable = rd "nullable" r.nullable true := by
  unfold init at h
  split at h
  · cases h
  · rename_i name hname
    split at h
    · cases h
    · rename_i t ht
      split at h
      · cases h
      · split at h
        · cases h
        · split at h
          · cases h
          · cases h
            exact ⟨t, ht, rfl, hname, rfl⟩

theorem resolveType_ty_text {m : TypeName.Str} (hm : m ∈ TypeName.baseTypes) (e : Option RawTy) (l p s : Option Nat)
    (r : Resolved) (h : resolveType (.text (TypeName.valueOf m)) e l p s = .ok r) : r.ty = .member m := by
  unfold resolveType at h
  simp only [fromNameRaw, base_resolves m hm] at h
  cases h
  rfl

theorem resolveType_ty_rawTy (ty : TypeName.Ty) (e : Option RawTy) (l p s : Option Nat)
    (r : Resolved) (h : resolveType (rawTy ty) e l p s = .ok r) : r.ty = ty := by
  rw [resolveType_rawTy] at h
  cases h
  rfl

/-- the type is a member of the enum or the int 0 (what an in-place assignment of an `OrsoTypes` member keeps true) -/
def TypeWritable (c : Col V) : Prop := c.type = .zero ∨ ∃ m, c.type = .member m ∧ m ∈ persistableTypes

theorem colFromDict_vcol (K : Caster V) (fresh : String) (c c' : Col V) (hty : TypeWritable c)
    (h : colFromDict K fresh (colToDict c) = .ok c') : vcol c' = vcol c := by
  unfold colFromDict at h
  rw [colToDict_eq, prepare_eq] at h
  have key : c'.type = c.type ∧ c'.name = c.name ∧ c'.nullable = c.nullable := by
    rcases hty with hz | ⟨m, hm, hmem⟩
    · have hw : writeTy c.type = .zero := by rw [hz]; rfl
      have t1 : ∀ m, tyEqValue .zero m = false := fun _ => rfl
      simp only [typeIs, hw, t1, Bool.false_eq_true, if_false, Bool.false_and] at h
      obtain ⟨t, ht, h1, h2, h3⟩ := init_reads K fresh _ c' h
      have := resolveType_ty_rawTy .zero _ _ _ _ t ht
      refine ⟨by rw [h1, this, hz], ?_, h3⟩
      have h2' : some c.name = some c'.name := h2
      exact (Option.some.inj h2').symm
    · simp only [persistableTypes, List.mem_cons] at hmem
      rcases hmem with rfl | hmem
      · have hw : writeTy c.type = .text (TypeName.valueOf missingName) := by rw [hm]; rfl
        have t1 : tyEqValue (.text (TypeName.valueOf missingName)) missingName = true := by decide
        have t2 : tyEqValue (.member missingName) TypeName.litArray = false := by decide
        simp only [typeIs, hw, t1, t2, if_true, Bool.false_and, Bool.false_eq_true, if_false] at h
        obtain ⟨t, ht, h1, h2, h3⟩ := init_reads K fresh _ c' h
        have := resolveType_ty_rawTy (.member missingName) _ _ _ _ t ht
        refine ⟨by rw [h1, this, hm], ?_, h3⟩
        have h2' : some c.name = some c'.name := h2
        exact (Option.some.inj h2').symm
      · have hw : writeTy c.type = .text (TypeName.valueOf m) := by rw [hm]; rfl
        have t1 : tyEqValue (.text (TypeName.valueOf m)) missingName = false := by
          simpa [tyEqValue] using base_ne_missing m hmem
        simp only [typeIs, hw, t1, Bool.false_eq_true, if_false] at h
        split at h
        · obtain ⟨t, ht, h1, h2, h3⟩ := init_reads K fresh _ c' h
          rename_i harr
          have hma : m = TypeName.litArray := by
            have h4 := base_value_array m (List.mem_cons_of_mem _ hmem)
            simp only [Bool.and_eq_true] at harr
            have h5 : tyEqValue (.text (TypeName.valueOf m)) TypeName.litArray = true := harr.1
            have h6 : (m == TypeName.litArray) = true := by rw [← h4]; exact h5
            exact eq_of_beq h6
          have := resolveType_ty_rawTy (.member TypeName.litArray) _ _ _ _ t ht
          refine ⟨by rw [h1, this, hm, hma], ?_, h3⟩
          have h2' : some c.name = some c'.name := h2
          exact (Option.some.inj h2').symm
        · obtain ⟨t, ht, h1, h2, h3⟩ := init_reads K fresh _ c' h
          have := resolveType_ty_text hmem _ _ _ _ t ht
          refine ⟨by rw [h1, this, hm], ?_, h3⟩
          have h2' : some c.name = some c'.name := h2
          exact (Option.some.inj h2').symm
  obtain ⟨k1, k2, k3⟩ := key
  unfold vcol
  rw [k1, k2, k3]


/-- the same through JSON: what `to_json` writes for `c` is what `to_dict` writes for `c` with the JSON renderings of its
default, statistics and expectations in their place - a column of the same name, type and nullability -/
theorem jsonRoundTrip_vcol (K : Caster V) (fresh : String) (c c' : Col V) (hty : TypeWritable c)
    (h : jsonRoundTrip K fresh c = .ok c') : vcol c' = vcol c := by
  unfold jsonRoundTrip at h
  split at h
  · cases h
  · rename_i d hd
    unfold colToJson at hd
    split at hd
    · cases hd
    · split at hd
      · rename_i dv hv lv ex _ _ _ _
        cases hd
        exact colFromDict_vcol K fresh
          { c with default := dv, highest_value := hv, lowest_value := lv, expectations := ex } c' hty h
      · cases hd

theorem mapE_vcol (K : Caster V) (fresh : String) : ∀ (cs cs' : List (Col V)), (∀ c ∈ cs, TypeWritable c) →
    mapE (load columnLoader K fresh) (cs.map colToDict) = .ok cs' → cs'.map vcol = cs.map vcol
  | [], cs', _, h => by cases h; rfl
  | c :: cs, cs', hw, h => by
    simp only [List.map_cons, mapE] at h
    split at h
    · cases h
    · rename_i b hb
      split at h
      · cases h
      · rename_i bs hbs
        cases h
        have h1 : vcol b = vcol c := colFromDict_vcol K fresh c b (hw c (List.mem_cons_self ..)) hb
        have h2 := mapE_vcol K fresh cs bs (fun x hx => hw x (List.mem_cons_of_mem _ hx)) hbs
        simp only [List.map_cons, h1, h2]

/-- whatever state the columns are in (type a member or the int 0): when the written dictionary loads, the loaded
schema shows `validate` the same columns -/
theorem fromDict_vcols (K : Caster V) (fresh : String) (s s' : Schema V) (hw : ∀ c ∈ s.columns, TypeWritable c)
    (h : fromDict K fresh (toDict s) = .ok s') : vcols s' = vcols s := by
  have hn : fw fromDictRestores (sName (toDict s)) "name" = some s.name := rfl
  have hk : fromDictRestores.lookup "columns" = some "columns" := rfl
  have hc : sColumns (toDict s) "columns" = some (s.columns.map colToDict) := rfl
  unfold fromDict at h
  simp only [hn, hk, hc] at h
  split at h
  · cases h
  · rename_i cs hcs
    cases h
    exact mapE_vcol K fresh s.columns cs hw hcs


/-! ## sessions with arbitrary in-place writes -/

/-- one step of a session in which anything may be written: `touch` is any in-place write to a column that leaves its
type alone (a raw default, a precision, a name, …), `retype` assigns an `OrsoTypes` member to its type -/
inductive RawEdit (V : Type) where
  | use (record : Validate.Record)
  | touch (i : Nat) (f : Col V → Col V) (hf : ∀ c, (f c).type = c.type)
  | retype (i : Nat) (m : TypeName.Str)
  | add (c : Col V)
  | remove (i : Nat)
  | replace (i : Nat) (c : Col V)
  | reverse

def RawEdit.apply : RawEdit V → Schema V → Schema V
  | .use _, s => s
  | .touch i f _, s => { s with columns := modifyAt f i s.columns }
  | .retype i m, s => { s with columns := modifyAt (fun c => { c with type := .member m }) i s.columns }
  | .add c, s => { s with columns := s.columns ++ [c] }
  | .remove i, s => { s with columns := removeAt i s.columns }
  | .replace i c, s => { s with columns := modifyAt (fun _ => c) i s.columns }
  | .reverse, s => { s with columns := s.columns.reverse }

def RawEdit.Fine : RawEdit V → Prop
  | .retype _ m => m ∈ persistableTypes
  | .add c => TypeWritable c
  | .replace _ c => TypeWritable c
  | _ => True

def runRaw (es : List (RawEdit V)) (s : Schema V) : Schema V := es.foldl (fun s e => e.apply s) s

theorem RawEdit.keeps (e : RawEdit V) (he : e.Fine) (s : Schema V) (h : ∀ c ∈ s.columns, TypeWritable c) :
    ∀ c ∈ (e.apply s).columns, TypeWritable c := by
  cases e with
  | use r => exact h
  | touch i f hf =>
    refine mem_modifyAt f TypeWritable (fun a ha => ?_) i s.columns h
    unfold TypeWritable at ha ⊢
    rw [hf a]
    exact ha
  | retype i m => exact mem_modifyAt _ TypeWritable (fun _ _ => .inr ⟨m, rfl, he⟩) i s.columns h
  | add c =>
    intro x hx
    simp only [RawEdit.apply, List.mem_append, List.mem_singleton] at hx
    rcases hx with hx | rfl
    · exact h x hx
    · exact he
  | remove i => exact mem_removeAt TypeWritable i s.columns h
  | replace i c => exact mem_modifyAt _ TypeWritable (fun _ _ => he) i s.columns h
  | reverse =>
    intro x hx
    simp only [RawEdit.apply, List.mem_reverse] at hx
    exact h x hx

theorem runRaw_keeps : ∀ (es : List (RawEdit V)), (∀ e ∈ es, e.Fine) → ∀ (s : Schema V),
    (∀ c ∈ s.columns, TypeWritable c) → ∀ c ∈ (runRaw es s).columns, TypeWritable c
  | [], _, _, h => h
  | e :: es, hf, s, h => by
    show ∀ c ∈ (runRaw es (e.apply s)).columns, TypeWritable c
    exact runRaw_keeps es (fun x hx => hf x (List.mem_cons_of_mem _ hx)) (e.apply s)
      (e.keeps (hf e (List.mem_cons_self ..)) s h)

/-- a reachable column's type is a member or the int 0 -/
theorem typeWritable_of_reachable (K : Caster V)
    (hIdem : ∀ m v w, K.parse m v = some w → K.truthy w = true → K.parse m w = some w)
    (c : Col V) (h : Reachable K c) : TypeWritable c := (reachable_ok K hIdem c h).2.1

end Persist
