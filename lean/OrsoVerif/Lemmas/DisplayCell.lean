import OrsoVerif.Lemmas.DisplayWidth
/-! Helper lemmas for C18, part 3: pads and formatted cells have exactly the column's printed width. -/
namespace Display

theorem ok_not_nl {c : Char} (h : Ok c) : c ≠ '\n' ∧ c ≠ '\r' := by
  rcases h with h | h | h
  · exact (printable_not_esc h).2
  · subst h; exact ⟨by decide, by decide⟩
  · exact (box_facts c h).2

theorem truncGo_ok (A : Arith) (cw : Char → Nat) (width : Nat) (full : Bool) (l : Str) (hl : OkStr l)
    (off : Nat) (ign : Bool) : OkStr (truncGo A cw width full l off ign) := by
  induction l generalizing off ign with
  | nil =>
    simp only [truncGo]
    apply okStr_append (okStr_tok (by simp [usedTokens]))
    split
    · exact okStr_of_pstr (pstr_spaces _)
    · intro c hc; simp at hc
  | cons c cs ih =>
    have hc := hl c (by simp)
    have hcs : OkStr cs := fun c hc => hl c (by simp [hc])
    simp only [truncGo, (ok_not_nl hc).1, (ok_not_nl hc).2, if_false]
    intro x hx
    have key : ∀ (b : Bool) (o : Nat) (g : Bool),
        x ∈ (if b = true then c :: T_OFF else c :: truncGo A cw width full cs o g) → Ok x := by
      intro b o g hx
      split at hx
      · rcases List.mem_cons.mp hx with rfl | hx
        · exact hc
        · exact okStr_tok (t := T_OFF) (by simp [usedTokens]) x hx
      · rcases List.mem_cons.mp hx with rfl | hx
        · exact hc
        · exact ih hcs _ _ x hx
    exact key _ _ _ hx

theorem pstr_append {a b : Str} (ha : PStr a) (hb : PStr b) : PStr (a ++ b) := by
  intro c hc; rcases List.mem_append.mp hc with h | h; exact ha c h; exact hb c h

theorem pstr_take {a : Str} (n : Nat) (ha : PStr a) : PStr (a.take n) :=
  fun c hc => ha c (List.mem_of_mem_take hc)

theorem pstr_noesc {s : Str} (h : PStr s) : ∀ c ∈ s, isEsc c = false :=
  fun c hc => (printable_not_esc (h c hc)).1

theorem W_pstr {s : Str} (h : PStr s) : W s s.length := W_noesc s (pstr_noesc h)

theorem pstr_rjust {s : Str} (w : Nat) (h : PStr s) : PStr (rjust w s) := pstr_append (pstr_spaces _) h
theorem pstr_ljust {s : Str} (w : Nat) (h : PStr s) : PStr (ljust w s) := pstr_append h (pstr_spaces _)
theorem pstr_center {s : Str} (w : Nat) (h : PStr s) : PStr (center w s) :=
  pstr_append (pstr_append (pstr_spaces _) h) (pstr_spaces _)

theorem length_rjust (w : Nat) (s : Str) : (rjust w s).length = max w s.length := by
  simp [rjust, spaces]; omega
theorem length_ljust (w : Nat) (s : Str) : (ljust w s).length = max w s.length := by
  simp [ljust, spaces]; omega
theorem length_center (w : Nat) (s : Str) : (center w s).length = max w s.length := by
  simp only [center, spaces, List.length_append, List.length_replicate]
  split <;> omega

/-- a padded printable text cut to `w` characters prints exactly `w` characters -/
theorem W_take_of_len {s : Str} (w : Nat) (h : PStr s) (hlen : w ≤ s.length) : W (s.take w) w := by
  have := W_pstr (pstr_take w h)
  rwa [List.length_take, Nat.min_eq_left hlen] at this

theorem W_fixed {tok s : Str} (w : Nat) (ht : tok ∈ usedTokens) (h : PStr s) (hlen : w ≤ s.length) :
    W (tok ++ s.take w ++ T_OFF) w := by
  have := W_append (W_append (W_tok ht) (W_take_of_len w h hlen)) (W_tok (t := T_OFF) (by simp [usedTokens]))
  simpa using this

theorem okStr_fixed {tok s : Str} (w : Nat) (ht : tok ∈ usedTokens) (h : PStr s) :
    OkStr (tok ++ s.take w ++ T_OFF) :=
  okStr_append (okStr_append (okStr_tok ht) (okStr_of_pstr (pstr_take w h))) (okStr_tok (by simp [usedTokens]))

theorem pstr_natStr (n : Nat) : PStr (natStr n) := by
  intro c hc
  have := Nat.isDigit_of_mem_toDigits (b := 10) (by decide) (by decide) hc
  simp only [Char.isDigit, Bool.and_eq_true, decide_eq_true_eq] at this
  unfold Printable
  have h1 : (48 : Nat) ≤ c.toNat := by
    have := this.1; exact UInt32.le_iff_toNat_le.mp this
  have h2 : c.toNat ≤ 57 := by
    have := this.2; exact UInt32.le_iff_toNat_le.mp this
  omega

theorem pstr_intStr (i : Int) : PStr (intStr i) := by
  unfold intStr
  split
  · intro c hc
    rcases List.mem_cons.mp hc with rfl | hc
    · decide
    · exact pstr_natStr _ c hc
  · exact pstr_natStr _

theorem pstr_boolStr (b : Bool) : PStr (boolStr b) := by cases b <;> (unfold PStr boolStr; decide)
theorem pstr_nullStr : PStr nullStr := by unfold PStr nullStr; decide

/-- a trunc-printable cell: prefix token, padded/cut payload, closing token -/
theorem W_trunc (cw : Char → Nat) (hcw : ∀ c, Printable c → cw c = 1) (hbox : ∀ c ∈ boxChars, cw c = 1)
    {pre post payload : Str} (w : Nat)
    (hpre : pre = [] ∨ pre ∈ usedTokens) (hpost : post = [] ∨ post ∈ usedTokens) (hp : OkStr payload) (hw : 1 ≤ w) :
    W (pre ++ truncPrintable specArith cw payload w true ++ post) w
    ∧ OkStr (pre ++ truncPrintable specArith cw payload w true ++ post) := by
  have hgood : ∀ c ∈ payload, Good cw c := fun c hc => ok_good cw hcw hbox (hp c hc)
  have hmid : W (truncPrintable specArith cw payload w true) w := by
    have := truncGo_full cw w payload hgood 0 false (by omega)
    simpa [W, truncPrintable] using this
  have hpre' : W pre 0 ∧ OkStr pre := by
    rcases hpre with rfl | h
    · exact ⟨W_nil, fun c hc => by simp at hc⟩
    · exact ⟨W_tok h, okStr_tok h⟩
  have hpost' : W post 0 ∧ OkStr post := by
    rcases hpost with rfl | h
    · exact ⟨W_nil, fun c hc => by simp at hc⟩
    · exact ⟨W_tok h, okStr_tok h⟩
  constructor
  · have := W_append (W_append hpre'.1 hmid) hpost'.1
    simpa using this
  · exact okStr_append (okStr_append hpre'.2 (truncGo_ok specArith cw w true payload hp 0 false)) hpost'.2

end Display

namespace Display

/-- printable-ASCII content of a cell (every text parameter and every byte) -/
def CellAscii : Cell → Prop
  | .null => True
  | .bool _ => True
  | .int _ => True
  | .num s _ => PStr s
  | .text s => PStr s
  | .datetime d t _ => PStr d ∧ PStr t
  | .date d _ => PStr d
  | .bytes b _ => ∀ x ∈ b, 32 ≤ x.toNat ∧ x.toNat < 127
  | .dict kvs _ => ∀ kv ∈ kvs, PStr kv.1 ∧ PStr kv.2
  | .interval ps _ => ∀ s ∈ ps, PStr s
  | .intervalInt _ _ _ _ => True
  | .list xs _ => ∀ s ∈ xs, PStr s
  | .other s => PStr s

theorem okStr_joinWith {sep : Str} {xs : List Str} (hs : OkStr sep) (hx : ∀ x ∈ xs, OkStr x) :
    OkStr (joinWith sep xs) := by
  induction xs with
  | nil => intro c hc; simp [joinWith] at hc
  | cons x rest ih =>
    cases rest with
    | nil => simpa [joinWith] using hx x (by simp)
    | cons y rest =>
      simp only [joinWith]
      exact okStr_append (okStr_append (hx x (by simp)) hs) (ih (fun z hz => hx z (by simp [hz])))

theorem printable_ofNat : ∀ n, n < 127 → 32 ≤ n → Printable (Char.ofNat n) := by decide

theorem utf8Go_ascii (strict : Bool) (b : List UInt8) (h : ∀ x ∈ b, 32 ≤ x.toNat ∧ x.toNat < 127)
    (fuel : Nat) (hf : b.length ≤ fuel) :
    utf8Go strict fuel b = .ok (b.map fun x => Char.ofNat x.toNat) := by
  induction b generalizing fuel with
  | nil => cases fuel <;> simp [utf8Go]
  | cons x xs ih =>
    cases fuel with
    | zero => simp at hf
    | succ fuel =>
      have hx := h x (by simp)
      have hlt : x < 0x80 := by rw [UInt8.lt_iff_toNat_lt]; simp; omega
      simp only [utf8Go, hlt, if_true]
      rw [ih (fun y hy => h y (by simp [hy])) fuel (by simpa using hf)]
      simp [consOk]

theorem utf8Decode_ascii (strict : Bool) (b : List UInt8) (h : ∀ x ∈ b, 32 ≤ x.toNat ∧ x.toNat < 127) :
    ∃ s, utf8Decode strict b = .ok s ∧ PStr s := by
  refine ⟨_, utf8Go_ascii strict b h _ (by omega), ?_⟩
  intro c hc
  simp only [List.mem_map] at hc
  obtain ⟨x, hx, rfl⟩ := hc
  exact printable_ofNat _ (h x hx).2 (h x hx).1

theorem okStr_dictText {kvs : List (Str × Str)} (h : ∀ kv ∈ kvs, PStr kv.1 ∧ PStr kv.2) : OkStr (dictText kvs) := by
  have hP : OkStr T_PUNC := okStr_tok (by simp [usedTokens])
  have hK : OkStr T_KEY := okStr_tok (by simp [usedTokens])
  have hV : OkStr T_VALUE := okStr_tok (by simp [usedTokens])
  have hO : OkStr T_OFF := okStr_tok (by simp [usedTokens])
  have lit : ∀ s : Str, PStr s → OkStr s := fun s => okStr_of_pstr
  unfold dictText
  refine okStr_append (okStr_append (okStr_append (okStr_append hP (lit _ (by unfold PStr; decide))) ?_)
    (lit _ (by unfold PStr; decide))) hO
  apply okStr_joinWith (okStr_append hP (lit _ (by unfold PStr; decide)))
  intro x hx
  simp only [List.mem_map] at hx
  obtain ⟨kv, hkv, rfl⟩ := hx
  unfold dictItem
  exact okStr_append (okStr_append (okStr_append (okStr_append (okStr_append (okStr_append (okStr_append
    (lit _ (by unfold PStr; decide)) hK) (lit _ (h kv hkv).1)) hP) (lit _ (by unfold PStr; decide))) hV)
    (lit _ (h kv hkv).2)) hP |> fun t => okStr_append t (lit _ (by unfold PStr; decide))

theorem okStr_listText {xs : List Str} (h : ∀ s ∈ xs, PStr s) : OkStr (listText xs) := by
  have hP : OkStr T_PUNC := okStr_tok (by simp [usedTokens])
  have hV : OkStr T_VALUE := okStr_tok (by simp [usedTokens])
  have hO : OkStr T_OFF := okStr_tok (by simp [usedTokens])
  have lit : ∀ s : Str, PStr s → OkStr s := fun s => okStr_of_pstr
  unfold listText
  refine okStr_append (okStr_append (okStr_append (okStr_append (okStr_append (okStr_append hP
    (lit _ (by unfold PStr; decide))) hV) ?_) hP) (lit _ (by unfold PStr; decide))) hO
  exact okStr_joinWith (okStr_append (okStr_append hP (lit _ (by unfold PStr; decide))) hV)
    (fun x hx => lit _ (h x hx))

theorem okStr_intervalText {ps : List Str} (h : ∀ s ∈ ps, PStr s) : OkStr (intervalText ps) := by
  unfold intervalText
  exact okStr_append (okStr_append (okStr_tok (by simp [usedTokens]))
    (okStr_joinWith (okStr_of_pstr (by unfold PStr; decide)) (fun x hx => okStr_of_pstr (h x hx))))
    (okStr_tok (by simp [usedTokens]))

theorem pstr_intervalParts (A : Arith) (mo d sc : Int) : ∀ s ∈ intervalParts A mo d sc, PStr s := by
  intro s hs
  have lit : ∀ (i : Int) (suf : Str), PStr suf → PStr (intStr i ++ suf) := fun i suf h => pstr_append (pstr_intStr i) h
  simp only [intervalParts, List.mem_append] at hs
  rcases hs with ((((hs | hs) | hs) | hs) | hs) | hs <;>
    (split at hs
     · simp only [List.mem_cons, List.not_mem_nil, or_false] at hs
       subst hs
       exact lit _ _ (by unfold PStr; decide)
     · simp at hs)

/-- **Every formatted cell of printable-ASCII content is produced without error, prints exactly
`w` characters (`w ≥ 1`), and leaves no escape open** — whatever the decode mode. -/
theorem formatCell_width (cw : Char → Nat) (hcw : ∀ c, Printable c → cw c = 1) (hbox : ∀ c ∈ boxChars, cw c = 1)
    (strict : Bool) (c : Cell) (w : Nat) (hc : CellAscii c) (hw : 1 ≤ w) :
    ∃ s, formatCell specArith cw strict c w = .ok s ∧ W s w ∧ OkStr s := by
  have tk : ∀ t, t ∈ usedTokens → ([] : Str) = [] ∨ t ∈ usedTokens := fun t h => Or.inr h
  cases c with
  | null =>
    exact ⟨_, rfl, W_fixed w (by simp [usedTokens]) (pstr_rjust w pstr_nullStr) (by rw [length_rjust]; omega),
      okStr_fixed w (by simp [usedTokens]) (pstr_rjust w pstr_nullStr)⟩
  | bool b =>
    exact ⟨_, rfl, W_fixed w (by simp [usedTokens]) (pstr_rjust w (pstr_boolStr b)) (by rw [length_rjust]; omega),
      okStr_fixed w (by simp [usedTokens]) (pstr_rjust w (pstr_boolStr b))⟩
  | int i =>
    exact ⟨_, rfl, W_fixed w (by simp [usedTokens]) (pstr_rjust w (pstr_intStr i)) (by rw [length_rjust]; omega),
      okStr_fixed w (by simp [usedTokens]) (pstr_rjust w (pstr_intStr i))⟩
  | num s n =>
    exact ⟨_, rfl, W_fixed w (by simp [usedTokens]) (pstr_rjust w hc) (by rw [length_rjust]; omega),
      okStr_fixed w (by simp [usedTokens]) (pstr_rjust w hc)⟩
  | text s =>
    have := W_trunc cw hcw hbox (pre := T_VARCHAR) (post := T_OFF) (payload := ljust w s) w
      (Or.inr (by simp [usedTokens])) (Or.inr (by simp [usedTokens])) (okStr_of_pstr (pstr_ljust w hc)) hw
    exact ⟨_, rfl, this.1, this.2⟩
  | datetime d t n =>
    have hp : OkStr (rjust w (d ++ [' '] ++ T_TIME ++ t)) :=
      okStr_append (okStr_of_pstr (pstr_spaces _))
        (okStr_append (okStr_append (okStr_append (okStr_of_pstr hc.1) (okStr_of_pstr (by unfold PStr; decide)))
          (okStr_tok (by simp [usedTokens]))) (okStr_of_pstr hc.2))
    have := W_trunc cw hcw hbox (pre := T_DATE) (post := T_OFF) w
      (Or.inr (by simp [usedTokens])) (Or.inr (by simp [usedTokens])) hp hw
    exact ⟨_, rfl, this.1, this.2⟩
  | date d n =>
    have := W_trunc cw hcw hbox (pre := T_DATE) (post := T_OFF) (payload := rjust w d) w
      (Or.inr (by simp [usedTokens])) (Or.inr (by simp [usedTokens])) (okStr_of_pstr (pstr_rjust w hc)) hw
    exact ⟨_, rfl, this.1, this.2⟩
  | bytes b n =>
    obtain ⟨s, hs, hp⟩ := utf8Decode_ascii strict b hc
    have := W_trunc cw hcw hbox (pre := T_BLOB) (post := T_OFF) (payload := ljust w s) w
      (Or.inr (by simp [usedTokens])) (Or.inr (by simp [usedTokens])) (okStr_of_pstr (pstr_ljust w hp)) hw
    exact ⟨_, by simp [formatCell, hs], this.1, this.2⟩
  | dict kvs n =>
    have := W_trunc cw hcw hbox (pre := []) (post := []) (payload := dictText kvs) w
      (Or.inl rfl) (Or.inl rfl) (okStr_dictText hc) hw
    exact ⟨_, rfl, by simpa using this.1, by simpa using this.2⟩
  | interval ps n =>
    have := W_trunc cw hcw hbox (pre := []) (post := []) (payload := intervalText ps) w
      (Or.inl rfl) (Or.inl rfl) (okStr_intervalText hc) hw
    exact ⟨_, rfl, by simpa using this.1, by simpa using this.2⟩
  | intervalInt mo d sc n =>
    have := W_trunc cw hcw hbox (pre := []) (post := []) (payload := intervalText (intervalParts specArith mo d sc)) w
      (Or.inl rfl) (Or.inl rfl) (okStr_intervalText (pstr_intervalParts specArith mo d sc)) hw
    exact ⟨_, rfl, by simpa using this.1, by simpa using this.2⟩
  | list xs n =>
    have := W_trunc cw hcw hbox (pre := []) (post := []) (payload := listText xs) w
      (Or.inl rfl) (Or.inl rfl) (okStr_listText hc) hw
    exact ⟨_, rfl, by simpa using this.1, by simpa using this.2⟩
  | other s =>
    refine ⟨_, rfl, ?_, okStr_of_pstr (pstr_take w (pstr_ljust w hc))⟩
    exact W_take_of_len w (pstr_ljust w hc) (by rw [length_ljust]; omega)

end Display
