import OrsoVerif.Model.Estimators
import OrsoVerif.Lemmas.Distogram
/-!
# Lemmas for C14: the interior trapezoid of `count_at` and the interior walk of `quantile`
over any linear ordered field, by induction over a strictly increasing list of bins.
-/
namespace Distogram
set_option linter.unusedSectionVars false

variable {K : Type} [Field K] [LinearOrder K] [IsStrictOrderedRing K]

theorem sumCounts_eq_mass : ∀ (l : List (K × K)), sumCounts l = mass l
  | [] => by simp [sumCounts, mass]
  | b :: rest => by
    have := sumCounts_eq_mass rest
    simp only [sumCounts, mass, List.map_cons, List.sum_cons] at this ⊢
    rw [this]

theorem mass_nonneg {l : List (K × K)} (hp : Pos l) : 0 ≤ mass l := by
  induction l with
  | nil => simp [mass]
  | cons b rest ih =>
    have h1 : 0 < b.2 := hp b (by simp)
    have h2 := ih (fun x hx => hp x (by simp [hx]))
    simp only [mass, List.map_cons, List.sum_cons] at h2 ⊢
    linarith

/-- In a strictly increasing list the head is the smallest centre. -/
theorem inc_head_le {b0 : K × K} {tail : List (K × K)} (hi : Inc (b0 :: tail)) :
    ∀ b ∈ b0 :: tail, b0.1 ≤ b.1 := by
  intro b hb
  simp only [List.mem_cons] at hb
  rcases hb with rfl | hb
  · exact le_refl _
  · exact le_of_lt ((List.pairwise_cons.mp hi).1 b hb)

/-- In a strictly increasing list the last element is the largest centre. -/
theorem inc_le_last : ∀ (l : List (K × K)) (bl : K × K), Inc l → l.getLast? = some bl →
    ∀ b ∈ l, b.1 ≤ bl.1
  | [], _, _, h => by simp at h
  | [a], bl, _, h => by
    simp only [List.getLast?_singleton, Option.some.injEq] at h
    intro b hb
    simp only [List.mem_singleton] at hb
    rw [hb, h]
  | a :: c :: rest, bl, hi, h => by
    have h' : (c :: rest).getLast? = some bl := by simpa [List.getLast?_cons_cons] using h
    have ih := inc_le_last (c :: rest) bl (List.pairwise_cons.mp hi).2 h'
    intro b hb
    simp only [List.mem_cons] at hb
    rcases hb with rfl | hb
    · exact le_trans (le_of_lt ((List.pairwise_cons.mp hi).1 c (by simp))) (ih c (by simp))
    · exact ih b (by simpa using hb)

theorem getLast?_mem : ∀ (l : List (K × K)) (bl : K × K), l.getLast? = some bl → bl ∈ l
  | [], _, h => by simp at h
  | [a], bl, h => by simp at h; simp [h]
  | a :: c :: rest, bl, h => by
    have h' : (c :: rest).getLast? = some bl := by simpa [List.getLast?_cons_cons] using h
    have := getLast?_mem (c :: rest) bl h'
    exact List.mem_cons_of_mem _ this

/-! ## the trapezoid on one segment -/

theorem seg_shift (a S vi fi vj fj x : K) : seg (a + S) vi fi vj fj x = seg S vi fi vj fj x + a := by
  unfold seg Gen.DistogramExpr.countInteriorResult Gen.DistogramExpr.countMb; ring

theorem seg_left (S vi fi vj fj : K) : seg S vi fi vj fj vi = S + fi / 2 := by
  unfold seg Gen.DistogramExpr.countInteriorResult Gen.DistogramExpr.countMb; simp

theorem seg_right (S vi fi vj fj : K) (h : vi < vj) : seg S vi fi vj fj vj = S + fi + fj / 2 := by
  unfold seg Gen.DistogramExpr.countInteriorResult Gen.DistogramExpr.countMb
  have : vj - vi ≠ 0 := by linarith
  field_simp
  ring

/-- The interior branch is non-decreasing on its segment: the difference is a product. -/
theorem seg_mono (S vi fi vj fj x y : K) (h : vi < vj) (hfi : 0 < fi) (hfj : 0 < fj)
    (hx : vi ≤ x) (hxy : x ≤ y) (hy : y ≤ vj) :
    seg S vi fi vj fj x ≤ seg S vi fi vj fj y := by
  have hd : 0 < vj - vi := by linarith
  have key : seg S vi fi vj fj y - seg S vi fi vj fj x
      = (y - x) * ((2 * (vj - vi) - (x - vi) - (y - vi)) * fi + ((x - vi) + (y - vi)) * fj)
        / (2 * (vj - vi) ^ 2) := by
    unfold seg Gen.DistogramExpr.countInteriorResult Gen.DistogramExpr.countMb
    field_simp
    ring
  have hnum : 0 ≤ (y - x) * ((2 * (vj - vi) - (x - vi) - (y - vi)) * fi + ((x - vi) + (y - vi)) * fj) := by
    apply mul_nonneg (by linarith)
    have h1 : 0 ≤ (2 * (vj - vi) - (x - vi) - (y - vi)) * fi := mul_nonneg (by linarith) (le_of_lt hfi)
    have h2 : 0 ≤ ((x - vi) + (y - vi)) * fj := mul_nonneg (by linarith) (le_of_lt hfj)
    linarith
  have : 0 ≤ seg S vi fi vj fj y - seg S vi fi vj fj x := by
    rw [key]; exact div_nonneg hnum (by positivity)
  linarith

/-! ## the interior branch of `count_at` -/

/-- The value of the cumulative estimate at the last centre: everything before the last bin plus
half of it. -/
def topK : List (K × K) → K
  | [] => 0
  | [b] => b.2 / 2
  | b :: rest => b.2 + topK rest

theorem topK_cons_cons (b c : K × K) (rest : List (K × K)) :
    topK (b :: c :: rest) = b.2 + topK (c :: rest) := rfl

theorem half_le_topK : ∀ (b : K × K) (rest : List (K × K)), Pos (b :: rest) → b.2 / 2 ≤ topK (b :: rest)
  | b, [], _ => by simp [topK]
  | b, c :: rest, hp => by
    have hb : 0 < b.2 := hp b (by simp)
    have hc : 0 < c.2 := hp c (by simp)
    have := half_le_topK c rest (fun x hx => hp x (by simp [hx]))
    rw [topK_cons_cons]
    linarith

theorem topK_le_mass : ∀ (b : K × K) (rest : List (K × K)), Pos (b :: rest) → topK (b :: rest) ≤ mass (b :: rest)
  | b, [], hp => by
    have hb : 0 < b.2 := hp b (by simp)
    simp only [topK, mass, List.map_cons, List.map_nil, List.sum_cons, List.sum_nil]
    linarith
  | b, c :: rest, hp => by
    have := topK_le_mass c rest (fun x hx => hp x (by simp [hx]))
    rw [topK_cons_cons]
    simp only [mass, List.map_cons, List.sum_cons] at this ⊢
    linarith

theorem topK_eq : ∀ (b : K × K) (rest : List (K × K)) (bl : K × K), (b :: rest).getLast? = some bl →
    topK (b :: rest) = mass (b :: rest).dropLast + bl.2 / 2
  | b, [], bl, h => by
    simp only [List.getLast?_singleton, Option.some.injEq] at h
    simp [topK, mass, h]
  | b, c :: rest, bl, h => by
    have h' : (c :: rest).getLast? = some bl := by simpa [List.getLast?_cons_cons] using h
    have := topK_eq c rest bl h'
    rw [topK_cons_cons, this]
    simp only [List.dropLast_cons_cons, mass, List.map_cons, List.sum_cons]
    ring

theorem countBelow_cons (x : K) (b : K × K) (l : List (K × K)) :
    countBelow x (b :: l) = (if b.1 < x then 1 else 0) + countBelow x l := by
  unfold countBelow
  by_cases h : b.1 < x
  · simp [h]; omega
  · simp [h]

theorem countBelow_zero (x : K) : ∀ (l : List (K × K)), (∀ b ∈ l, x ≤ b.1) → countBelow x l = 0
  | [], _ => rfl
  | b :: rest, h => by
    rw [countBelow_cons, countBelow_zero x rest (fun c hc => h c (by simp [hc]))]
    have : ¬ b.1 < x := not_lt.mpr (h b (by simp))
    simp [this]

theorem interior_first (b0 b1 : K × K) (rest : List (K × K)) (x : K)
    (hi : Inc (b0 :: b1 :: rest)) (h0 : b0.1 < x) (h1 : x ≤ b1.1) :
    interior (b0 :: b1 :: rest) x = some (seg 0 b0.1 b0.2 b1.1 b1.2 x) := by
  have hz : countBelow x (b1 :: rest) = 0 := by
    apply countBelow_zero
    intro b hb
    exact le_trans h1 (inc_head_le (List.pairwise_cons.mp hi).2 b hb)
  have hc : countBelow x (b0 :: b1 :: rest) = 1 := by
    rw [countBelow_cons, hz]; simp [h0]
  unfold interior
  simp [hc, sumCounts]

theorem interior_next (b0 b1 : K × K) (rest : List (K × K)) (x : K)
    (hi : Inc (b0 :: b1 :: rest)) (h1 : b1.1 < x) :
    interior (b0 :: b1 :: rest) x = (interior (b1 :: rest) x).map (fun r => r + b0.2) := by
  have h0 : b0.1 < x := lt_trans ((List.pairwise_cons.mp hi).1 b1 (by simp)) h1
  have hc1 : 1 ≤ countBelow x (b1 :: rest) := by
    rw [countBelow_cons]; simp [h1]
  have hc : countBelow x (b0 :: b1 :: rest) = 1 + countBelow x (b1 :: rest) := by
    rw [countBelow_cons]; simp [h0]
  obtain ⟨c, hcc⟩ : ∃ c, countBelow x (b1 :: rest) = c + 1 := ⟨countBelow x (b1 :: rest) - 1, by omega⟩
  unfold interior
  rw [hc, hcc]
  have e1 : 1 + (c + 1) - 1 = c + 1 := by omega
  have e2 : c + 1 - 1 = c := by omega
  simp only [e1, e2, List.getElem?_cons_succ, List.take_succ_cons, sumCounts]
  generalize (b1 :: rest)[c]? = p
  generalize rest[c]? = q
  cases p with
  | none => rfl
  | some p =>
    cases q with
    | none => rfl
    | some q =>
      obtain ⟨vi, fi⟩ := p
      obtain ⟨vj, fj⟩ := q
      simp only [Option.map_some, seg_shift]

/-- The interior branch is defined between the first and the last centre, starts at half the
first bin and stays below the value at the last centre. -/
theorem interior_range : ∀ (b0 : K × K) (tail : List (K × K)) (x : K), Inc (b0 :: tail) → Pos (b0 :: tail) →
    b0.1 < x → (∃ b ∈ b0 :: tail, x ≤ b.1) →
    ∃ r, interior (b0 :: tail) x = some r ∧ b0.2 / 2 ≤ r ∧ r ≤ topK (b0 :: tail)
  | b0, [], x, _, _, h0, ⟨b, hb, hxb⟩ => by
    simp only [List.mem_singleton] at hb
    rw [hb] at hxb
    exact absurd h0 (not_lt.mpr hxb)
  | b0, b1 :: rest, x, hi, hp, h0, hex => by
    have hv : b0.1 < b1.1 := (List.pairwise_cons.mp hi).1 b1 (by simp)
    have hf0 : 0 < b0.2 := hp b0 (by simp)
    have hf1 : 0 < b1.2 := hp b1 (by simp)
    have hp' : Pos (b1 :: rest) := fun c hc => hp c (by simp [hc])
    have hi' : Inc (b1 :: rest) := (List.pairwise_cons.mp hi).2
    by_cases h1 : x ≤ b1.1
    · refine ⟨_, interior_first b0 b1 rest x hi h0 h1, ?_, ?_⟩
      · have := seg_mono 0 b0.1 b0.2 b1.1 b1.2 b0.1 x hv hf0 hf1 (le_refl _) (le_of_lt h0) h1
        rw [seg_left] at this
        linarith
      · have := seg_mono 0 b0.1 b0.2 b1.1 b1.2 x b1.1 hv hf0 hf1 (le_of_lt h0) h1 (le_refl _)
        rw [seg_right _ _ _ _ _ hv] at this
        have h2 := half_le_topK b1 rest hp'
        rw [topK_cons_cons]
        linarith
    · have h1' : b1.1 < x := not_le.mp h1
      obtain ⟨b, hb, hxb⟩ := hex
      have hb' : b ∈ b1 :: rest := by
        simp only [List.mem_cons] at hb
        rcases hb with rfl | hb
        · exact absurd h0 (not_lt.mpr hxb)
        · simpa using hb
      obtain ⟨r', hr', hlo, hup⟩ := interior_range b1 rest x hi' hp' h1' ⟨b, hb', hxb⟩
      refine ⟨r' + b0.2, ?_, ?_, ?_⟩
      · rw [interior_next b0 b1 rest x hi h1', hr']; rfl
      · linarith
      · rw [topK_cons_cons]; linarith

/-- The interior branch is non-decreasing across all segments. -/
theorem interior_mono : ∀ (b0 : K × K) (tail : List (K × K)) (x y r1 r2 : K), Inc (b0 :: tail) →
    Pos (b0 :: tail) → b0.1 < x → x ≤ y → (∃ b ∈ b0 :: tail, y ≤ b.1) →
    interior (b0 :: tail) x = some r1 → interior (b0 :: tail) y = some r2 → r1 ≤ r2
  | b0, [], x, y, _, _, _, _, h0, hxy, ⟨b, hb, hyb⟩, _, _ => by
    simp only [List.mem_singleton] at hb
    rw [hb] at hyb
    exact absurd (lt_of_lt_of_le h0 hxy) (not_lt.mpr hyb)
  | b0, b1 :: rest, x, y, r1, r2, hi, hp, h0, hxy, hex, hr1, hr2 => by
    have hv : b0.1 < b1.1 := (List.pairwise_cons.mp hi).1 b1 (by simp)
    have hf0 : 0 < b0.2 := hp b0 (by simp)
    have hf1 : 0 < b1.2 := hp b1 (by simp)
    have hp' : Pos (b1 :: rest) := fun c hc => hp c (by simp [hc])
    have hi' : Inc (b1 :: rest) := (List.pairwise_cons.mp hi).2
    have hex' : b1.1 < y → ∃ b ∈ b1 :: rest, y ≤ b.1 := by
      intro h1y
      obtain ⟨b, hb, hyb⟩ := hex
      simp only [List.mem_cons] at hb
      rcases hb with rfl | hb
      · exact absurd (lt_trans hv h1y) (not_lt.mpr hyb)
      · exact ⟨b, by simpa using hb, hyb⟩
    by_cases hy1 : y ≤ b1.1
    · -- both on the first segment
      rw [interior_first b0 b1 rest x hi h0 (le_trans hxy hy1)] at hr1
      rw [interior_first b0 b1 rest y hi (lt_of_lt_of_le h0 hxy) hy1] at hr2
      simp only [Option.some.injEq] at hr1 hr2
      rw [← hr1, ← hr2]
      exact seg_mono 0 b0.1 b0.2 b1.1 b1.2 x y hv hf0 hf1 (le_of_lt h0) hxy hy1
    · have hy1' : b1.1 < y := not_le.mp hy1
      rw [interior_next b0 b1 rest y hi hy1'] at hr2
      obtain ⟨r2', hr2', hlo2, _⟩ := interior_range b1 rest y hi' hp' hy1' (hex' hy1')
      rw [hr2'] at hr2
      simp only [Option.map_some, Option.some.injEq] at hr2
      by_cases hx1 : x ≤ b1.1
      · rw [interior_first b0 b1 rest x hi h0 hx1] at hr1
        simp only [Option.some.injEq] at hr1
        have := seg_mono 0 b0.1 b0.2 b1.1 b1.2 x b1.1 hv hf0 hf1 (le_of_lt h0) hx1 (le_refl _)
        rw [seg_right _ _ _ _ _ hv] at this
        rw [← hr1, ← hr2]
        linarith
      · have hx1' : b1.1 < x := not_le.mp hx1
        rw [interior_next b0 b1 rest x hi hx1'] at hr1
        obtain ⟨r1', hr1', _, _⟩ := interior_range b1 rest x hi' hp' hx1'
          (by obtain ⟨b, hb, hyb⟩ := hex' hy1'; exact ⟨b, hb, le_trans hxy hyb⟩)
        rw [hr1'] at hr1
        simp only [Option.map_some, Option.some.injEq] at hr1
        have := interior_mono b1 rest x y r1' r2' hi' hp' hx1' hxy (hex' hy1') hr1' hr2'
        rw [← hr1, ← hr2]
        linarith

end Distogram
