import OrsoVerif.Model.SchemaOps
/-! Helper lemmas for C17 (`Props/C17.lean`).  No Mathlib needed: core `List` lemmas only. -/
set_option linter.unusedSectionVars false
namespace SchemaOps

variable {ι ν : Type} [DecidableEq ι] [DecidableEq ν]

/-! ### `firstByKey` -/
section FBK
variable {α κ : Type} [DecidableEq κ] (key : α → κ)

theorem firstByKey_filter (q : κ → Bool) (xs : List α) :
    firstByKey key (xs.filter (fun x => q (key x)))
      = (firstByKey key xs).filter (fun x => q (key x)) := by
  induction xs with
  | nil => simp [firstByKey]
  | cons x xs ih =>
    by_cases hq : q (key x) = true
    · simp only [List.filter_cons, hq, if_true, firstByKey, ih, List.filter_filter]
      congr 1
      apply List.filter_congr
      intro y _
      exact Bool.and_comm _ _
    · have hq' : q (key x) = false := by simpa using hq
      simp only [List.filter_cons, hq', firstByKey, List.filter_filter, Bool.false_eq_true, if_false]
      rw [ih]
      apply List.filter_congr
      intro y _
      by_cases hy : key y = key x
      · simp [hy, hq']
      · simp [hy]

theorem firstByKey_sublist (xs : List α) : (firstByKey key xs).Sublist xs := by
  induction xs with
  | nil => simp [firstByKey]
  | cons x xs ih => exact (List.Sublist.trans List.filter_sublist ih).cons_cons x

theorem mem_keys_firstByKey (xs : List α) (k : κ) :
    k ∈ (firstByKey key xs).map key ↔ k ∈ xs.map key := by
  induction xs with
  | nil => simp [firstByKey]
  | cons x xs ih =>
    simp only [firstByKey, List.map_cons, List.mem_cons]
    constructor
    · rintro (h | h)
      · exact Or.inl h
      · right
        apply ih.mp
        obtain ⟨y, hy, rfl⟩ := List.mem_map.mp h
        exact List.mem_map.mpr ⟨y, (List.mem_filter.mp hy).1, rfl⟩
    · rintro (h | h)
      · exact Or.inl h
      · by_cases hk : k = key x
        · exact Or.inl hk
        · right
          obtain ⟨y, hy, rfl⟩ := List.mem_map.mp (ih.mpr h)
          exact List.mem_map.mpr ⟨y, List.mem_filter.mpr ⟨hy, by simpa using hk⟩, rfl⟩

theorem firstByKey_nodup (xs : List α) : ((firstByKey key xs).map key).Nodup := by
  induction xs with
  | nil => simp [firstByKey]
  | cons x xs ih =>
    simp only [firstByKey, List.map_cons, List.nodup_cons]
    constructor
    · intro h
      obtain ⟨y, hy, hyx⟩ := List.mem_map.mp h
      have h2 := (List.mem_filter.mp hy).2
      simp at h2
      exact h2 hyx
    · exact List.Nodup.sublist (List.Sublist.map key List.filter_sublist) ih

theorem firstByKey_first (xs : List α) (c : α) (h : c ∈ firstByKey key xs) :
    xs.find? (fun d => decide (key d = key c)) = some c := by
  induction xs with
  | nil => simp [firstByKey] at h
  | cons x xs ih =>
    simp only [firstByKey, List.mem_cons] at h
    rcases h with rfl | h
    · simp
    · have hm := List.mem_filter.mp h
      have hne : key c ≠ key x := by simpa using hm.2
      have hne' : ¬ key x = key c := fun e => hne e.symm
      simp only [List.find?_cons, hne', decide_false]
      exact ih hm.1

end FBK

theorem find?_filter_of {α : Type} (p q : α → Bool) (xs : List α) (c : α)
    (h : (xs.filter p).find? q = some c) (hpq : ∀ d, q d = true → p d = true) :
    xs.find? q = some c := by
  induction xs with
  | nil => simp at h
  | cons x xs ih =>
    by_cases hq : q x = true
    · have hp := hpq x hq
      simp only [List.filter_cons, hp, if_true, List.find?_cons, hq] at h ⊢
      exact h
    · have hq' : q x = false := by simpa using hq
      simp only [List.find?_cons, hq']
      by_cases hp : p x = true
      · simp only [List.filter_cons, hp, if_true, List.find?_cons, hq'] at h
        exact ih h
      · have hp' : p x = false := by simpa using hp
        simp only [List.filter_cons, hp', Bool.false_eq_true, if_false] at h
        exact ih h

/-! ### The loop of `__add__` -/

/-- The loop without its accumulator: the columns it appends. -/
def news (seen : List ι) : List (Col ι ν) → List (Col ι ν)
  | [] => []
  | c :: cs =>
    if c.identity ∈ seen then news seen cs else c :: news (seen ++ [c.identity]) cs

theorem unionLoop_eq (seen : List ι) (acc cs : List (Col ι ν)) :
    unionLoop seen acc cs = acc ++ news seen cs := by
  induction cs generalizing seen acc with
  | nil => simp [unionLoop, news]
  | cons c cs ih =>
    by_cases h : c.identity ∈ seen
    · simp [unionLoop, news, h, ih]
    · simp [unionLoop, news, h, ih]

theorem ids_append (xs ys : List (Col ι ν)) : ids (xs ++ ys) = ids xs ++ ids ys := by
  simp [ids]

theorem news_eq_fresh (seen : List ι) (cs : List (Col ι ν)) : news seen cs = fresh seen cs := by
  induction cs generalizing seen with
  | nil => simp [news, fresh, firstByKey]
  | cons c cs ih =>
    by_cases h : c.identity ∈ seen
    · simp only [news, h, if_true, ih]
      simp [fresh, h]
    · simp only [news, h, if_false, ih]
      unfold fresh
      have hd : decide (c.identity ∉ seen) = true := by simpa using h
      simp only [List.filter_cons, hd, if_true, firstByKey]
      congr 1
      have := firstByKey_filter (fun (d : Col ι ν) => d.identity) (fun i => decide (i ≠ c.identity))
        (cs.filter (fun d => decide (d.identity ∉ seen)))
      rw [← this, List.filter_filter]
      congr 1
      apply List.filter_congr
      intro y _
      simp only [List.mem_append, List.mem_singleton, not_or]
      by_cases h1 : y.identity ∈ seen <;> by_cases h2 : y.identity = c.identity <;> simp [h1, h2]

theorem news_append (seen : List ι) (xs ys : List (Col ι ν)) :
    news seen (xs ++ ys) = news seen xs ++ news (seen ++ ids (news seen xs)) ys := by
  induction xs generalizing seen with
  | nil => simp [news, ids]
  | cons x xs ih =>
    by_cases h : x.identity ∈ seen
    · simp [news, h, ih]
    · simp [news, h, ih, ids, List.append_assoc]

theorem news_covers (seen : List ι) (cs : List (Col ι ν)) (x : Col ι ν) (hx : x ∈ cs) :
    x.identity ∈ seen ∨ x.identity ∈ ids (news seen cs) := by
  by_cases h : x.identity ∈ seen
  · exact Or.inl h
  · right
    rw [news_eq_fresh]
    unfold fresh ids
    apply (mem_keys_firstByKey (fun (d : Col ι ν) => d.identity) _ _).mpr
    exact List.mem_map.mpr ⟨x, List.mem_filter.mpr ⟨hx, by simpa using h⟩, rfl⟩

theorem news_news (S T : List ι) (hTS : ∀ i, i ∈ T → i ∈ S) (cs : List (Col ι ν)) :
    news S (news T cs) = news S cs := by
  induction cs generalizing S T with
  | nil => simp [news]
  | cons x cs ih =>
    by_cases hT : x.identity ∈ T
    · have hS := hTS _ hT
      simp only [news, hT, hS, if_true]
      exact ih S T hTS
    · by_cases hS : x.identity ∈ S
      · simp only [news, hT, hS, if_true, if_false]
        apply ih S (T ++ [x.identity])
        intro i hi
        rcases List.mem_append.mp hi with hi | hi
        · exact hTS i hi
        · rw [List.mem_singleton.mp hi]; exact hS
      · simp only [news, hT, hS, if_false]
        congr 1
        apply ih (S ++ [x.identity]) (T ++ [x.identity])
        intro i hi
        rcases List.mem_append.mp hi with hi | hi
        · exact List.mem_append.mpr (Or.inl (hTS i hi))
        · exact List.mem_append.mpr (Or.inr hi)

theorem union_columns (a b : Schema ι ν) :
    (union a b).columns = a.columns ++ news (ids a.columns) b.columns := by
  simp [union, unionLoop_eq]

theorem unionAll_columns (a : Schema ι ν) (bs : List (Schema ι ν)) :
    (unionAll a bs).columns
      = a.columns ++ news (ids a.columns) (bs.flatMap (·.columns)) := by
  induction bs generalizing a with
  | nil => simp [unionAll, news]
  | cons b bs ih =>
    have h := ih (union a b)
    simp only [unionAll, List.foldl_cons] at h ⊢
    rw [h, union_columns, List.flatMap_cons, news_append, ids_append, List.append_assoc]

theorem unionAll_name (a : Schema ι ν) (bs : List (Schema ι ν)) :
    (unionAll a bs).name = a.name ∧ (unionAll a bs).aliases = a.aliases := by
  induction bs generalizing a with
  | nil => simp [unionAll]
  | cons b bs ih =>
    have h := ih (union a b)
    simp only [unionAll, List.foldl_cons] at h ⊢
    simpa [union] using h

/-! ### lookup -/

theorem mem_allNames (c : Col ι ν) (x : ν) :
    x ∈ c.allNames ↔ x = c.name ∨ ∃ as, c.aliases = some as ∧ x ∈ as := by
  unfold Col.allNames
  cases hal : c.aliases with
  | none => simp
  | some as =>
    cases Gen.SchemaOps.aliasesFirst <;> simp [or_comm]

theorem name_mem_allNames (c : Col ι ν) : c.name ∈ c.allNames :=
  (mem_allNames c c.name).mpr (Or.inl rfl)

theorem bears_own_name (c : Col ι ν) : c.bears id c.name = true := by
  simp [Col.bears, name_mem_allNames]

theorem bears_of_name (c : Col ι ν) (k : ν) (h : c.name = k) : c.bears id k = true := by
  rw [← h]; exact bears_own_name c

theorem findCol_eq_find? (norm : ν → ν) (k : ν) (cols : List (Col ι ν)) :
    findCol norm k cols = cols.find? (fun c => c.bears norm k) := by
  induction cols with
  | nil => simp [findCol]
  | cons c cs ih =>
    by_cases h : c.bears norm k = true
    · simp [findCol, h]
    · have h' : c.bears norm k = false := by simpa using h
      simp [findCol, h', ih]

theorem findCol_append (norm : ν → ν) (k : ν) (xs ys : List (Col ι ν)) :
    findCol norm k (xs ++ ys) = (findCol norm k xs).or (findCol norm k ys) := by
  induction xs with
  | nil => simp [findCol]
  | cons c cs ih =>
    by_cases h : c.bears norm k = true
    · simp [findCol, h]
    · have h' : c.bears norm k = false := by simpa using h
      simp [findCol, h', ih]

theorem findCol_none_of_forall (norm : ν → ν) (k : ν) (xs : List (Col ι ν))
    (h : ∀ d ∈ xs, d.bears norm k = false) : findCol norm k xs = none := by
  induction xs with
  | nil => simp [findCol]
  | cons c cs ih =>
    have hc := h c (List.mem_cons_self ..)
    simp only [findCol, hc, Bool.false_eq_true, if_false]
    exact ih (fun d hd => h d (List.mem_cons_of_mem _ hd))

theorem findCol_split (norm : ν → ν) (k : ν) (cols : List (Col ι ν)) (c : Col ι ν)
    (h : findCol norm k cols = some c) :
    ∃ pre post, cols = pre ++ c :: post ∧ c.bears norm k = true ∧ ∀ d ∈ pre, d.bears norm k = false := by
  induction cols with
  | nil => simp [findCol] at h
  | cons x xs ih =>
    by_cases hx : x.bears norm k = true
    · simp only [findCol, hx, if_true, Option.some.injEq] at h
      subst h
      exact ⟨[], xs, rfl, hx, by simp⟩
    · have hx' : x.bears norm k = false := by simpa using hx
      simp only [findCol, hx', Bool.false_eq_true, if_false] at h
      obtain ⟨pre, post, rfl, hb, hpre⟩ := ih h
      refine ⟨x :: pre, post, rfl, hb, ?_⟩
      intro d hd
      rcases List.mem_cons.mp hd with rfl | hd
      · exact hx'
      · exact hpre d hd

theorem findCol_of_split (norm : ν → ν) (k : ν) (pre post : List (Col ι ν)) (c : Col ι ν)
    (hc : c.bears norm k = true) (hpre : ∀ d ∈ pre, d.bears norm k = false) :
    findCol norm k (pre ++ c :: post) = some c := by
  rw [findCol_append, findCol_none_of_forall norm k pre hpre]
  simp [findCol, hc]

theorem allColumnNames_append (xs ys : List (Col ι ν)) :
    allColumnNames (xs ++ ys) = allColumnNames xs ++ allColumnNames ys := by
  induction xs with
  | nil => simp [allColumnNames]
  | cons c cs ih => simp [allColumnNames, ih, List.append_assoc]

theorem mem_allColumnNames (norm : ν → ν) (k : ν) (xs : List (Col ι ν)) :
    norm k ∈ (allColumnNames xs).map norm ↔ ∃ d ∈ xs, d.bears norm k = true := by
  induction xs with
  | nil => simp [allColumnNames]
  | cons c cs ih =>
    simp only [allColumnNames, List.map_append, List.mem_append, ih, List.mem_cons, exists_eq_or_imp,
      Col.bears, decide_eq_true_eq]

/-! ### Python list indexing -/

theorem pyIndex_nonneg {α : Type} (pre post : List α) (c : α) :
    pyIndex (pre ++ c :: post) (pre.length : Int) = some c := by
  simp [pyIndex]

theorem pyIndex_neg {α : Type} (pre post : List α) (c : α) :
    pyIndex (pre ++ c :: post) (-((post.length : Int) + 1)) = some c := by
  have h0 : ¬ (0 : Int) ≤ -((post.length : Int) + 1) := by omega
  have h1 : (-(-((post.length : Int) + 1))).toNat = post.length + 1 := by omega
  simp only [pyIndex, h0, if_false, h1, List.length_append, List.length_cons]
  have h2 : post.length + 1 ≤ pre.length + (post.length + 1) := by omega
  have h3 : pre.length + (post.length + 1) - (post.length + 1) = pre.length := by omega
  simp [h2, h3]

theorem pyIndex_mem {α : Type} (xs : List α) (i : Int) (c : α) (h : pyIndex xs i = some c) : c ∈ xs := by
  unfold pyIndex at h
  split at h
  · exact List.mem_of_getElem? h
  · split at h
    · exact List.mem_of_getElem? h
    · cases h

theorem pyIndex_none_iff {α : Type} (xs : List α) (i : Int) :
    pyIndex xs i = none ↔ (i ≥ xs.length ∨ i < -(xs.length : Int)) := by
  unfold pyIndex
  split
  · rw [List.getElem?_eq_none_iff]; omega
  · split
    · rw [List.getElem?_eq_none_iff]; omega
    · simp; omega

/-! ### removal -/

theorem popCol_some (k : ν) (cols : List (Col ι ν)) (c : Col ι ν) (h : (popCol k cols).1 = some c) :
    ∃ pre post, cols = pre ++ c :: post ∧ c.name = k ∧ (∀ d ∈ pre, d.name ≠ k) ∧
      (popCol k cols).2 = pre ++ post := by
  induction cols with
  | nil => simp [popCol] at h
  | cons x xs ih =>
    by_cases hx : x.name = k
    · simp only [popCol, hx, if_true, Option.some.injEq] at h
      subst h
      exact ⟨[], xs, rfl, hx, by simp, by simp [popCol, hx]⟩
    · simp only [popCol, hx, if_false] at h
      obtain ⟨pre, post, rfl, hn, hpre, h2⟩ := ih h
      refine ⟨x :: pre, post, rfl, hn, ?_, ?_⟩
      · intro d hd
        rcases List.mem_cons.mp hd with rfl | hd
        · exact hx
        · exact hpre d hd
      · simp [popCol, hx, h2]

theorem popCol_none (k : ν) (cols : List (Col ι ν)) :
    (popCol k cols).1 = none ↔ ∀ d ∈ cols, d.name ≠ k := by
  induction cols with
  | nil => simp [popCol]
  | cons x xs ih =>
    by_cases hx : x.name = k
    · simp [popCol, hx]
    · simp [popCol, hx, ih]

theorem popCol_none_unchanged (k : ν) (cols : List (Col ι ν)) (h : ∀ d ∈ cols, d.name ≠ k) :
    popCol k cols = (none, cols) := by
  induction cols with
  | nil => simp [popCol]
  | cons x xs ih =>
    have hx : x.name ≠ k := h x (List.mem_cons_self ..)
    have := ih (fun d hd => h d (List.mem_cons_of_mem _ hd))
    simp [popCol, hx, this]

theorem popCol_of_split (k : ν) (pre post : List (Col ι ν)) (c : Col ι ν)
    (hc : c.name = k) (hpre : ∀ d ∈ pre, d.name ≠ k) :
    popCol k (pre ++ c :: post) = (some c, pre ++ post) := by
  induction pre with
  | nil => simp [popCol, hc]
  | cons x xs ih =>
    have hx : x.name ≠ k := hpre x (List.mem_cons_self ..)
    have := ih (fun d hd => hpre d (List.mem_cons_of_mem _ hd))
    simp [popCol, hx, this]

theorem popCol_sublist (k : ν) (cols : List (Col ι ν)) : (popCol k cols).2.Sublist cols := by
  cases h : (popCol k cols).1 with
  | none =>
    rw [popCol_none_unchanged k cols ((popCol_none k cols).mp h)]
    exact List.Sublist.refl _
  | some c =>
    obtain ⟨pre, post, rfl, _, _, h2⟩ := popCol_some k cols c h
    rw [h2]
    exact List.Sublist.append (List.Sublist.refl _) (List.sublist_cons_self _ _)

theorem removed_column (cols : List (Col ι ν)) (key : Key ν) (os : List (Out ι ν)) :
    removed (column cols key :: os) = removed os := by
  cases key with
  | idx i => cases h : pyIndex cols i <;> simp [column, h, removed, Out.ofIndex]
  | flag b => cases h : pyIndex cols (boolIndex b) <;> simp [column, h, removed, Out.ofIndex]
  | name k => simp [column, removed]

theorem ofIndex_some (c : Col ι ν) : Out.ofIndex (some c) = .col (some c) := rfl

theorem ofIndex_none : (Out.ofIndex none : Out ι ν) = .indexError := rfl

theorem column_flag (cols : List (Col ι ν)) (b : Bool) :
    column cols (.flag b) = column cols (.idx (boolIndex b)) := rfl

end SchemaOps
