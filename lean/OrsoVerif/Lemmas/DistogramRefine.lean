import OrsoVerif.Lemmas.DistogramCacheOps
import OrsoVerif.Lemmas.Estimators
/-!
# Stage 2 of C13, part 3: the faithful machine against the reference, branch by branch

* `trim_refines`: with a coherent cache `_trim` merges exactly the pairs the reference merges
  (`h.diffs.index(h.min_diff)` is the first closest pair), for any number of turns — ties included.
* `inPlace_centre_eq`: the in-place shortcut stores the centroid the reference computes for the
  pair (new value, neighbour), on either side.
* `insertRef_eq`: the reference insertion, by position (`bisect`-style), is "add to an equal
  centre / insert before the first larger one / append".
-/
namespace Distogram
set_option linter.unusedSectionVars false
set_option linter.unusedVariables false

variable {K : Type} [Field K] [LinearOrder K] [IsStrictOrderedRing K]

theorem eqK_iff' (a b : K) : eqK a b = true ↔ a = b := by
  unfold eqK Gen.DistogramExpr.eqK
  simp only [Bool.and_eq_true, decide_eq_true_eq]
  exact ⟨fun h => le_antisymm h.1 h.2, fun h => by rw [h]; exact ⟨le_refl _, le_refl _⟩⟩

/-! ## the pair `_trim` picks -/

theorem indexOf_cons (m y : K) (ys : List K) :
    indexOf m (y :: ys) = if y = m then some 0 else (indexOf m ys).map (· + 1) := by
  simp only [indexOf]
  by_cases h : y = m
  · rw [if_pos h, if_pos]
    unfold eqK Gen.DistogramExpr.eqK
    simp [h]
  · rw [if_neg h, if_neg]
    unfold eqK Gen.DistogramExpr.eqK
    simp only [Bool.and_eq_true, decide_eq_true_eq, not_and]
    intro h1 h2; exact h (le_antisymm h1 h2)

/-- `list.index(m)` is the position `k` if `m` is there and nowhere before. -/
theorem indexOf_first (m : K) : ∀ (xs : List K) (k : Nat), xs[k]? = some m → (∀ j x, j < k → xs[j]? = some x → x ≠ m) →
    indexOf m xs = some k
  | [], k, h, _ => by simp at h
  | y :: ys, 0, h, _ => by
    simp only [List.getElem?_cons_zero, Option.some.injEq] at h
    rw [indexOf_cons, if_pos h]
  | y :: ys, k + 1, h, hb => by
    have hy : y ≠ m := hb 0 y (by omega) rfl
    rw [indexOf_cons, if_neg hy, indexOf_first m ys k (by simpa using h) (fun j x hj hx => hb (j + 1) x (by omega) (by simpa using hx))]
    rfl

/-- What `argminFrom` returns: either the incumbent (nothing strictly smaller follows) or the position of the
first strict improvement that nothing later beats. -/
theorem argminFrom_spec : ∀ (xs : List K) (i bi : Nat) (bv : K),
    (argminFrom i bi bv xs = bi ∧ ∀ x ∈ xs, bv ≤ x) ∨
    (∃ k m, argminFrom i bi bv xs = i + k ∧ xs[k]? = some m ∧ m < bv ∧ (∀ x ∈ xs, m ≤ x) ∧
      ∀ j x, j < k → xs[j]? = some x → m < x)
  | [], i, bi, bv => Or.inl ⟨rfl, by simp⟩
  | y :: ys, i, bi, bv => by
    unfold argminFrom
    by_cases hy : y < bv
    · rw [if_pos hy]
      rcases argminFrom_spec ys (i + 1) i y with ⟨e, hall⟩ | ⟨k, m, e, hk, hm, hall, hfirst⟩
      · refine Or.inr ⟨0, y, by rw [e]; rfl, rfl, hy, ?_, by intro j x hj; omega⟩
        intro x hx
        simp only [List.mem_cons] at hx
        rcases hx with rfl | hx
        · exact le_refl _
        · exact hall x hx
      · refine Or.inr ⟨k + 1, m, by rw [e]; omega, by simpa using hk, lt_trans hm hy, ?_, ?_⟩
        · intro x hx
          simp only [List.mem_cons] at hx
          rcases hx with rfl | hx
          · exact le_of_lt hm
          · exact hall x hx
        · intro j x hj hx
          cases j with
          | zero => simp only [List.getElem?_cons_zero, Option.some.injEq] at hx; rw [← hx]; exact hm
          | succ j => exact hfirst j x (by omega) (by simpa using hx)
    · rw [if_neg hy]
      rcases argminFrom_spec ys (i + 1) bi bv with ⟨e, hall⟩ | ⟨k, m, e, hk, hm, hall, hfirst⟩
      · refine Or.inl ⟨e, ?_⟩
        intro x hx
        simp only [List.mem_cons] at hx
        rcases hx with rfl | hx
        · exact not_lt.mp hy
        · exact hall x hx
      · refine Or.inr ⟨k + 1, m, by rw [e]; omega, by simpa using hk, hm, ?_, ?_⟩
        · intro x hx
          simp only [List.mem_cons] at hx
          rcases hx with rfl | hx
          · exact le_trans (le_of_lt hm) (not_lt.mp hy)
          · exact hall x hx
        · intro j x hj hx
          cases j with
          | zero =>
            simp only [List.getElem?_cons_zero, Option.some.injEq] at hx
            rw [← hx]; exact lt_of_lt_of_le hm (not_lt.mp hy)
          | succ j => exact hfirst j x (by omega) (by simpa using hx)

/-- `h.diffs.index(h.min_diff)` is the first closest pair — the reference's choice. -/
theorem indexOf_min_eq_argminFirst {d : List K} {m : K} (h : IsMinOpt (some m) d) :
    indexOf m d = some (argminFirst d) := by
  obtain ⟨hm, hall⟩ := h
  cases d with
  | nil => simp at hm
  | cons x xs =>
    simp only [argminFirst]
    rcases argminFrom_spec xs 1 0 x with ⟨e, hx⟩ | ⟨k, m', e, hk, hm', hall', hfirst⟩
    · rw [e]
      have : x = m := le_antisymm (by
        simp only [List.mem_cons] at hm
        rcases hm with rfl | hm
        · exact le_refl _
        · exact hx m hm) (hall x (by simp))
      rw [indexOf_cons, if_pos this]
    · rw [e]
      have hmm : m' = m := le_antisymm (by
        simp only [List.mem_cons] at hm
        rcases hm with rfl | hm
        · exact le_of_lt hm'
        · exact hall' m hm) (hall m' (List.mem_cons_of_mem _ (List.mem_of_getElem? hk)))
      subst hmm
      have hx : x ≠ m' := ne_of_gt hm'
      rw [indexOf_cons, if_neg hx, indexOf_first m' xs k hk (fun j y hj hy => ne_of_gt (hfirst j y hj hy))]
      simp; omega

/-! ## the merge `_trim` performs -/

theorem eraseSet_eq_mergeAt : ∀ (i : Nat) (bins : List (K × K)) (v1 f1 v2 f2 : K),
    bins[i]? = some (v1, f1) → bins[i + 1]? = some (v2, f2) →
    (bins.eraseIdx (i + 1)).set i (centroid v1 f1 v2 f2, Gen.DistogramExpr.trimCount v1 f1 v2 f2)
      = mergeAt i bins
  | 0, a :: b :: rest, v1, f1, v2, f2, h1, h2 => by
    simp only [List.getElem?_cons_zero, Option.some.injEq, List.getElem?_cons_succ] at h1 h2
    subst h1; subst h2
    simp [mergeAt]
  | 0, [], _, _, _, _, h1, _ => by simp at h1
  | 0, [a], _, _, _, _, _, h2 => by simp at h2
  | i + 1, [], _, _, _, _, h1, _ => by simp at h1
  | i + 1, a :: rest, v1, f1, v2, f2, h1, h2 => by
    have := eraseSet_eq_mergeAt i rest v1 f1 v2 f2 (by simpa using h1) (by simpa using h2)
    simp only [List.eraseIdx_cons_succ, List.set_cons_succ, mergeAt, this]

/-- With a coherent cache (or none) `_trim` picks the reference's pair. -/
theorem trimIndex_eq {h : Hist K} {i : Nat} (hc : Coherent h) (hok : trimIndex h = .ok i) :
    i = argminFirst (gaps h.bins) := by
  rw [trimIndex_def] at hok
  split at hok
  · rename_i d hd
    obtain ⟨_, hg, hm⟩ := hc d hd
    split at hok
    · rename_i md hmd
      rw [hmd] at hm
      rw [indexOf_min_eq_argminFirst hm] at hok
      simp only [Except.ok.injEq] at hok
      rw [← hok, hg]
    · simp at hok
  · split at hok
    · simp at hok
    · simp only [Except.ok.injEq] at hok
      exact hok.symm

theorem trimStep_refines {h h' : Hist K} (hc : Coherent h) (hok : trimStep h = .ok h') :
    h'.bins = mergeAt (argminFirst (gaps h.bins)) h.bins := by
  obtain ⟨_, _, _, _, _, i, v1, f1, v2, f2, hi, hb1, hb2, hb⟩ := coherent_trimStep hc hok
  rw [hb, eraseSet_eq_mergeAt i h.bins v1 f1 v2 f2 hb1 hb2, trimIndex_eq hc hi]

/-- **`_trim` refines the reference trim**: for any number of turns, with a coherent cache, the faithful
loop produces exactly `trimRef` of the bins — whichever pair is closest, ties included. -/
theorem trim_refines : ∀ (fuel : Nat) {h h' : Hist K}, Coherent h → trim fuel h = .ok h' →
    h'.bins = trimRef h.cap fuel h.bins
  | 0, h, h', _, hok => by
    simp only [trim, Except.ok.injEq] at hok
    subst hok; rfl
  | fuel + 1, h, h', hc, hok => by
    rw [trim_succ] at hok
    unfold trimRef
    split at hok
    · rename_i hlt
      obtain ⟨h1, hs, hok⟩ := bind_eq_ok hok
      obtain ⟨c1, _, _, p1, _, _⟩ := coherent_trimStep hc hs
      rw [if_pos hlt, trim_refines fuel c1 hok, p1, trimStep_refines hc hs]
    · rename_i hge
      simp only [Except.ok.injEq] at hok
      subst hok
      rw [if_neg hge]

/-! ## the in-place shortcut -/

/-- The centre computed by `_trim_in_place` is the one `_trim` computes for (neighbour, new value) — and for
(new value, neighbour): which side the neighbour is on does not matter. -/
theorem inPlace_centre_eq (cv cf v c : K) :
    Gen.DistogramExpr.inPlaceCentre cv cf v c = Gen.DistogramExpr.trimCentre cv cf v c ∧
    Gen.DistogramExpr.inPlaceCentre cv cf v c = Gen.DistogramExpr.trimCentre v c cv cf ∧
    Gen.DistogramExpr.inPlaceCount cv cf v c = Gen.DistogramExpr.trimCount cv cf v c ∧
    Gen.DistogramExpr.inPlaceCount cv cf v c = Gen.DistogramExpr.trimCount v c cv cf := by
  unfold Gen.DistogramExpr.inPlaceCentre Gen.DistogramExpr.inPlaceCount Gen.DistogramExpr.trimCentre
    Gen.DistogramExpr.trimCount
  refine ⟨rfl, ?_, rfl, ?_⟩
  · rw [add_comm (cv * cf), add_comm cf]
  · rw [add_comm]

/-- **The centre `_trim_in_place` stores lies between the bin and the new value, whatever was computed**
(`min(max(centre, low), high)` with `low, high = min/max(stored_value, new_value)`): no hypothesis on `c`. -/
theorem inPlaceStored_within (c sv nv : K) :
    min sv nv ≤ Gen.DistogramOps.inPlaceStored c sv nv ∧ Gen.DistogramOps.inPlaceStored c sv nv ≤ max sv nv := by
  unfold Gen.DistogramOps.inPlaceStored
  simp only [pyMin_eq, pyMax_eq]
  rcases lt_trichotomy sv nv with h | h | h
  · rw [min_eq_left (le_of_lt h), max_eq_right (le_of_lt h)]
    split_ifs <;> constructor <;> linarith
  · subst h
    rw [min_self, max_self]
    split_ifs <;> constructor <;> linarith
  · rw [min_eq_right (le_of_lt h), max_eq_left (le_of_lt h)]
    split_ifs <;> constructor <;> linarith

/-- a computed centre that is between the bin and the new value is stored as it is -/
theorem inPlaceStored_of_between {c sv nv : K} (h1 : min sv nv ≤ c) (h2 : c ≤ max sv nv) :
    Gen.DistogramOps.inPlaceStored c sv nv = c := by
  unfold Gen.DistogramOps.inPlaceStored
  simp only [pyMin_eq, pyMax_eq]
  rcases lt_trichotomy sv nv with h | h | h
  · rw [min_eq_left (le_of_lt h)] at h1; rw [max_eq_right (le_of_lt h)] at h2
    split_ifs <;> first | rfl | (apply le_antisymm <;> linarith) | (exfalso; linarith)
  · subst h
    rw [min_self] at h1; rw [max_self] at h2
    split_ifs <;> first | rfl | (apply le_antisymm <;> linarith) | (exfalso; linarith)
  · rw [min_eq_right (le_of_lt h)] at h1; rw [max_eq_left (le_of_lt h)] at h2
    split_ifs <;> first | rfl | (apply le_antisymm <;> linarith) | (exfalso; linarith)

/-- The centre stored by `_trim_in_place` is the reference centroid of (left neighbour, new value) … -/
theorem inPlace_stored_left {cv cf v c : K} (h : cv < v) (h1 : 0 < cf) (h2 : 0 < c) :
    Gen.DistogramOps.inPlaceStored (Gen.DistogramExpr.inPlaceCentre cv cf v c) cv v = centroid cv cf v c := by
  rw [centroid_eq h h1 h2, (inPlace_centre_eq cv cf v c).1]
  exact inPlaceStored_of_between (by rw [min_eq_left (le_of_lt h)]; exact le_of_lt (trimCentre_gt h h1 h2))
    (by rw [max_eq_right (le_of_lt h)]; exact le_of_lt (trimCentre_lt h h1 h2))

/-- … and of (new value, right neighbour). -/
theorem inPlace_stored_right {cv cf v c : K} (h : v < cv) (h1 : 0 < cf) (h2 : 0 < c) :
    Gen.DistogramOps.inPlaceStored (Gen.DistogramExpr.inPlaceCentre cv cf v c) cv v = centroid v c cv cf := by
  rw [centroid_eq h h2 h1, (inPlace_centre_eq cv cf v c).2.1]
  exact inPlaceStored_of_between (by rw [min_eq_right (le_of_lt h)]; exact le_of_lt (trimCentre_gt h h2 h1))
    (by rw [max_eq_left (le_of_lt h)]; exact le_of_lt (trimCentre_lt h h2 h1))

/-! ## insertion by position -/

/-- Number of leading bins strictly below `v` — where the reference inserts. -/
def insPos (v : K) (bins : List (K × K)) : Nat := (bins.takeWhile (fun b => decide (b.1 < v))).length

theorem insPos_cons (v : K) (b : K × K) (rest : List (K × K)) :
    insPos v (b :: rest) = if b.1 < v then insPos v rest + 1 else 0 := by
  unfold insPos
  rw [List.takeWhile_cons]
  by_cases h : b.1 < v <;> simp [h]

/-- The reference insertion, by position: add to an equal centre, insert before the first larger one, or append. -/
theorem insertRef_eq (v c : K) : ∀ (bins : List (K × K)), insertRef v c bins =
    match bins[insPos v bins]? with
    | some (w, f) => if v < w then bins.insertIdx (insPos v bins) (v, c) else bins.set (insPos v bins) (w, f + c)
    | none => bins ++ [(v, c)]
  | [] => by simp [insertRef, insPos]
  | (w, f) :: rest => by
    rw [insPos_cons]
    by_cases hwv : w < v
    · have hvw : ¬ v < w := not_lt.mpr (le_of_lt hwv)
      simp only [hwv, if_true, List.getElem?_cons_succ]
      unfold insertRef
      rw [if_neg hvw, if_pos hwv, insertRef_eq v c rest]
      cases h : rest[insPos v rest]? with
      | none => simp
      | some p =>
        obtain ⟨w', f'⟩ := p
        simp only
        split <;> simp
    · simp only [hwv, if_false, List.getElem?_cons_zero]
      unfold insertRef
      by_cases hvw : v < w
      · rw [if_pos hvw, if_pos hvw]; simp
      · rw [if_neg hvw, if_neg hwv, if_neg hvw]; simp

theorem trimRef_noop (cap : Nat) : ∀ (fuel : Nat) (l : List (K × K)), l.length ≤ cap → trimRef cap fuel l = l
  | 0, _, _ => rfl
  | fuel + 1, l, h => by unfold trimRef; rw [if_neg (by omega)]

/-- Counts of at least one (Python: integer counts ≥ 1), so that `bisect_left` on `(value, 1)` compares centres only. -/
def One1 (l : List (K × K)) : Prop := ∀ b ∈ l, 1 ≤ b.2

theorem bisectLeft_eq_insPos (v : K) : ∀ (bins : List (K × K)), One1 bins → bisectLeft v bins = insPos v bins
  | [], _ => rfl
  | b :: rest, h1 => by
    have hb : ¬ b.2 < 1 := not_lt.mpr (h1 b (by simp))
    have ih := bisectLeft_eq_insPos v rest (fun x hx => h1 x (by simp [hx]))
    rw [bisectLeft_def] at ih ⊢
    unfold insPos at ih ⊢
    rw [List.takeWhile_cons, List.takeWhile_cons]
    by_cases hlt : b.1 < v
    · simp only [hlt, decide_true, Bool.true_or, if_true, List.length_cons, ih]
    · simp [hlt, hb]

/-- All bins before the last are strictly below it. -/
theorem insPos_of_last_le : ∀ (bins : List (K × K)) (bl : K × K) (v : K), Inc bins → bins.getLast? = some bl → bl.1 ≤ v →
    insPos v bins = if bl.1 < v then bins.length else bins.length - 1
  | [], _, _, _, h, _ => by simp at h
  | [a], bl, v, _, h, hle => by
    simp only [List.getLast?_singleton, Option.some.injEq] at h
    subst h
    rw [insPos_cons]
    by_cases hlt : a.1 < v <;> simp [hlt, insPos]
  | a :: b :: rest, bl, v, hi, h, hle => by
    have h' : (b :: rest).getLast? = some bl := by simpa [List.getLast?_cons_cons] using h
    have ih := insPos_of_last_le (b :: rest) bl v (List.pairwise_cons.mp hi).2 h' hle
    have hlast := inc_le_last (b :: rest) bl (List.pairwise_cons.mp hi).2 h' b (by simp)
    have ha : a.1 < v := lt_of_lt_of_le ((List.pairwise_cons.mp hi).1 b (by simp)) (le_trans hlast hle)
    rw [insPos_cons, if_pos ha, ih]
    by_cases hlt : bl.1 < v <;> simp [hlt]

/-- What `update` computes as `index`, against the reference position. -/
theorem locate_spec {bins : List (K × K)} {v : K} (hne : bins ≠ []) (hi : Inc bins) (h1 : One1 bins) :
    ((locate bins v).1 = false → (locate bins v).2 = insPos v bins) ∧
    ((locate bins v).1 = true → (locate bins v).2 = bins.length - 1 ∧
      ∃ bl, bins.getLast? = some bl ∧ bl.1 ≤ v ∧ insPos v bins = if bl.1 < v then bins.length else bins.length - 1) := by
  rw [locate_def]
  cases hh : bins.head? with
  | none => simp at hh; exact absurd hh hne
  | some b0 =>
    cases hl : bins.getLast? with
    | none => simp at hl; exact absurd hl hne
    | some bl =>
      simp only
      by_cases c1 : v ≤ b0.1
      · rw [if_pos c1]
        refine ⟨fun _ => ?_, ?_⟩
        case refine_2 => intro h; simp at h
        simp only
        cases bins with
        | nil => exact absurd rfl hne
        | cons b rest =>
          simp only [List.head?_cons, Option.some.injEq] at hh
          subst hh
          rw [insPos_cons, if_neg (not_lt.mpr c1)]
      · rw [if_neg c1]
        by_cases c2 : bl.1 ≤ v
        · rw [if_pos c2]
          refine ⟨?_, ?_⟩
          · intro h; simp at h
          · intro _; exact ⟨rfl, bl, rfl, c2, insPos_of_last_le bins bl v hi hl c2⟩
        · rw [if_neg c2]
          refine ⟨fun _ => bisectLeft_eq_insPos v bins h1, ?_⟩
          intro h; simp at h

/-- **Exact hit refines the reference insertion.** -/
theorem exactHit_refines {bins : List (K × K)} {v c vi fi : K} (hne : bins ≠ []) (hi : Inc bins) (h1 : One1 bins)
    (hb : bins[(locate bins v).2]? = some (vi, fi)) (he : vi = v) :
    bins.set (locate bins v).2 (vi, fi + c) = insertRef v c bins := by
  obtain ⟨s1, s2⟩ := locate_spec (v := v) hne hi h1
  have hpos : (locate bins v).2 = insPos v bins := by
    cases hn : (locate bins v).1 with
    | false => exact s1 hn
    | true =>
      obtain ⟨e, bl, hl, hle, hp⟩ := s2 hn
      rw [e] at hb ⊢
      have hbl : bins[bins.length - 1]? = some bl := by rw [← List.getLast?_eq_getElem?]; exact hl
      rw [hbl] at hb
      simp only [Option.some.injEq] at hb
      rw [hp, if_neg]
      rw [hb, he]; exact lt_irrefl _
  rw [hpos] at hb ⊢
  rw [insertRef_eq, hb]
  simp only
  rw [if_neg (by rw [he]; exact lt_irrefl _)]

theorem insPos_stop (v : K) : ∀ (bins : List (K × K)) (b : K × K), bins[insPos v bins]? = some b → ¬ b.1 < v
  | [], _, h => by simp at h
  | a :: rest, b, h => by
    rw [insPos_cons] at h
    by_cases ha : a.1 < v
    · rw [if_pos ha] at h
      exact insPos_stop v rest b (by simpa using h)
    · rw [if_neg ha] at h
      simp only [List.getElem?_cons_zero, Option.some.injEq] at h
      rw [← h]; exact ha

/-- **Insert + `_trim` refines the reference update** (no tie hypothesis needed: both merge the first closest pair). -/
theorem insertTrim_refines {h h' : Hist K} {v c : K} (hc : Coherent h) (hi : Inc h.bins) (h1 : One1 h.bins)
    (hnohit : ∀ vi fi, h.bins[(locate h.bins v).2]? = some (vi, fi) → vi ≠ v)
    (hok : insertTrim h (locate h.bins v).1 (locate h.bins v).2 v c = .ok h') :
    h'.bins = (updateRef h.toR v c).bins := by
  unfold insertTrim at hok
  obtain ⟨h2, hib, hok⟩ := bind_eq_ok hok
  obtain ⟨c2, _, _, p2, _, b2⟩ := coherent_insertBin hc (fun hn hne => locate_idx_lt hne hn) hib
  have hins : h2.bins = insertRef v c h.bins := by
    rw [b2]
    by_cases hne : h.bins = []
    · rw [hne]; simp [locate, insertRef]
    · obtain ⟨s1, s2⟩ := locate_spec (v := v) hne hi h1
      cases hn : (locate h.bins v).1 with
      | false =>
        simp only [Bool.false_eq_true, if_false]
        have hp := s1 hn
        have hlt := locate_idx_lt hne hn
        rw [hp] at hlt hnohit ⊢
        rw [insertRef_eq]
        obtain ⟨b, hb⟩ : ∃ b, h.bins[insPos v h.bins]? = some b := ⟨_, List.getElem?_eq_getElem hlt⟩
        obtain ⟨w, f⟩ := b
        rw [hb]
        simp only
        have hs := insPos_stop v h.bins (w, f) hb
        have hw : w ≠ v := hnohit w f hb
        have : v < w := lt_of_le_of_ne (not_lt.mp hs) (Ne.symm hw)
        rw [if_pos this]
      | true =>
        simp only [if_true]
        obtain ⟨e, bl, hl, hle, hp⟩ := s2 hn
        have hbl : h.bins[h.bins.length - 1]? = some bl := by rw [← List.getLast?_eq_getElem?]; exact hl
        have hw : bl.1 ≠ v := by
          obtain ⟨w, f⟩ := bl
          exact hnohit w f (by rw [e]; exact hbl)
        have hlt : bl.1 < v := lt_of_le_of_ne hle hw
        rw [if_pos hlt] at hp
        rw [insertRef_eq, hp, List.getElem?_eq_none (le_refl _)]
  have := trim_refines _ (coherent_bumpBounds v c2) hok
  rw [trimTurns_eq] at this
  rw [this]
  simp only [bumpBounds, updateRef, Hist.toR]
  rw [p2, hins]

/-! ## histories of the faithful machine -/

/-- States the faithful machine reaches: any tree of successful `update`, `merge`, `+`, bulk load and
dump/load (of a non-empty histogram — `dump()` raises on an empty one). -/
inductive FBuilt : Hist K → Prop
  | init (cap : Nat) : FBuilt (Hist.init cap)
  | update {h h' : Hist K} (v c : K) : FBuilt h → update h v c = .ok h' → FBuilt h'
  | merge {h t h' : Hist K} : FBuilt h → FBuilt t → merge h t.bins = .ok h' → FBuilt h'
  | add {h t h' : Hist K} : FBuilt h → FBuilt t → add h t = .ok h' → FBuilt h'
  | bulk {h h' : Hist K} (pairs : List (K × K)) (lo hi : K) : FBuilt h → bulk h pairs lo hi = .ok h' → FBuilt h'
  | load {h : Hist K} : FBuilt h → h.bins ≠ [] → FBuilt (load h.bins h.min h.max)

theorem fbuilt_coherent {h : Hist K} (hb : FBuilt h) : Coherent h := by
  induction hb with
  | init cap => exact coherent_init cap
  | update v c _ hok ih => exact (coherent_update ih hok).1
  | merge _ _ hok ih _ =>
    rw [merge_def] at hok
    exact (coherent_foldUpdate _ ih hok).1
  | add _ _ hok ih _ =>
    rw [add_def] at hok; rw [merge_def] at hok
    obtain ⟨m, hm, hok⟩ := bind_eq_ok hok
    have cm := (coherent_foldUpdate _ ih hm).1
    split at hok
    · simp only [Except.ok.injEq] at hok; subst hok; exact fun d hd => cm d hd
    · simp only [Except.ok.injEq] at hok; subst hok; exact cm
    · simp at hok
  | bulk pairs lo hi _ hok ih =>
    rw [bulk_def] at hok
    obtain ⟨m, hm, hok⟩ := bind_eq_ok hok
    have cm := (coherent_foldUpdate _ ih hm).1
    split at hok
    · simp only [Except.ok.injEq] at hok; subst hok; exact fun d hd => cm d hd
    · simp only [Except.ok.injEq] at hok; subst hok; exact fun d hd => cm d hd
    · simp at hok
  | load _ hne _ => exact coherent_load _ _ _ hne

end Distogram
