import OrsoVerif.Model.Encodings
/-! Lemmas about the dtype `numpy.array(list)` infers (`arrayDType`): it holds every element of the list. -/
namespace Enc

/-- The property's element kinds: what `scalarDType` knows. -/
def Scalar (x : PyVal) : Prop := (scalarDType x).isSome = true

theorem scalarDType_holds (y : PyVal) (u : DType) (h : scalarDType y = some u) : holds u y = true := by
  cases y <;> simp [scalarDType] at h
  · subst h; rfl
  · subst h; rfl
  · obtain ⟨_, rfl⟩ := h; rfl
  · subst h; rfl
  · obtain ⟨_, rfl⟩ := h; simp [holds]; omega

/-- One step of the inference: the new dtype holds the new element and everything the old one held. -/
theorem arrayStep_holds (acc : DType) (y : PyVal) (t : DType) (h : arrayStep acc y = some t) :
    holds t y = true ∧ ∀ x, Scalar x → holds acc x = true → holds t x = true := by
  unfold arrayStep at h
  cases hy : scalarDType y with
  | none => simp [hy] at h
  | some u =>
    have hu := scalarDType_holds y u hy
    have hys : Scalar y := by simp [Scalar, hy]
    simp only [hy, Option.bind_eq_bind, Option.bind_some] at h
    have obj : ∀ x, Scalar x → holds .object x = true := by
      intro x hx; cases x <;> simp [Scalar, scalarDType] at hx <;> rfl
    cases acc <;> cases u <;> simp at h <;> subst h <;>
      first
        | exact ⟨hu, fun _ _ hx => hx⟩
        | exact ⟨obj y hys, fun x hx _ => obj x hx⟩
        | (refine ⟨?_, fun x _ hx => ?_⟩
           · cases y <;> simp [holds] at hu ⊢ <;> omega
           · cases x <;> simp [holds] at hx ⊢ <;> omega)

theorem foldlM_arrayStep_holds (ys : List PyVal) (acc t : DType) (h : ys.foldlM arrayStep acc = some t) :
    (∀ y ∈ ys, holds t y = true) ∧ ∀ x, Scalar x → holds acc x = true → holds t x = true := by
  induction ys generalizing acc with
  | nil => simp [List.foldlM] at h; subst h; exact ⟨by simp, fun _ _ hx => hx⟩
  | cons y ys ih =>
    simp only [List.foldlM_cons, Option.bind_eq_bind] at h
    cases hs : arrayStep acc y with
    | none => simp [hs] at h
    | some a =>
      simp only [hs, Option.bind_some] at h
      obtain ⟨h1, h2⟩ := arrayStep_holds acc y a hs
      obtain ⟨i1, i2⟩ := ih a h
      have hys : Scalar y := by
        unfold arrayStep at hs
        cases hy : scalarDType y with
        | none => simp [hy] at hs
        | some u => simp [Scalar, hy]
      refine ⟨?_, fun x hx hax => i2 x hx (h2 x hx hax)⟩
      intro z hz
      rcases List.mem_cons.mp hz with rfl | hz
      · exact i2 z hys h1
      · exact i1 z hz

/-- Storing a value into an array of a dtype that holds it natively returns the value itself. -/
theorem castInto_of_holds (i2f : Int → UInt64) (t : DType) (x : PyVal) (h : holds t x = true) :
    castInto i2f t x = some x := by
  cases t <;> cases x <;> simp [holds] at h <;> simp [castInto, h]

end Enc
