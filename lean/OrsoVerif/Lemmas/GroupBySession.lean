import OrsoVerif.Model.GroupByCode
/-! Sessions in which the caller edits the key-column list it handed to `group_by`: when `__init__`
stored a new object, the edits are invisible — the session is the sequence of its calls. -/
namespace GroupByCode
open GroupBy GroupByIR

/-- With a copy stored at creation, a session is `runCallsC` over its calls, whatever the caller does
to its own lists in between and whatever the state of the frame and the objects. -/
theorem runSessionC_copied (P : Program) (fr : Frame) (objs : List (List String)) (idxs : List (List Nat))
    (evs : List Ev)
    (hidx : ∀ c ∈ callsOf evs, (objs.getD c.1 []).mapM (fun n => index n fr.columns) = some (idxs.getD c.1 []))
    (src : Source (List PyVal)) (sts : Nat → ObjState (List PyVal) (List PyVal)) (cur : Nat → List String) :
    runSessionC P true fr objs src sts cur evs =
      ((callsOf evs).zip (runCallsC P (identOf pyHashKey P.key) (fun g => keyAt (idxs.getD g []))
          (cellOfC P.value P.colIndex fr.columns) src sts (callsOf evs))).map fun co =>
        render P (objs.getD co.1.1 []) co.1.2 co.2 := by
  induction evs generalizing src sts cur with
  | nil => rfl
  | cons ev rest ih =>
    cases ev with
    | edit g ks =>
      simp only [runSessionC, callsOf]
      exact ih hidx _ _ _
    | call g op =>
      have hrest : ∀ c ∈ callsOf rest, (objs.getD c.1 []).mapM (fun n => index n fr.columns) = some (idxs.getD c.1 []) :=
        fun c hc => hidx c (by simp [callsOf, hc])
      have hg := hidx (g, op) (by simp [callsOf])
      simp only at hg
      simp only [runSessionC, callsOf, keyColsAt, if_true, hg, runCallsC, List.zip_cons_cons, List.map_cons]
      rw [ih hrest]

/-- The session on a frame, with a copy stored at creation, is `runCallsF` over its calls. -/
theorem runSessionF_copied (P : Program) (fr : Frame) (lazy : Bool) (objs : List (List String))
    (idxs : List (List Nat)) (evs : List Ev)
    (hidx : ∀ c ∈ callsOf evs, (objs.getD c.1 []).mapM (fun n => index n fr.columns) = some (idxs.getD c.1 [])) :
    runSessionF P true fr lazy objs evs = runCallsF P fr lazy objs idxs (callsOf evs) := by
  unfold runSessionF runCallsF
  exact runSessionC_copied P fr objs idxs evs hidx _ _ _

end GroupByCode
