import OrsoVerif.Model.Cast
import OrsoVerif.Lemmas.IsoText
/-! Helper lemmas for C07. -/
namespace Cast

@[simp] theorem bind_ok {ε α β : Type} (a : α) (f : α → Except ε β) : (Except.ok a : Except ε α).bind f = f a := rfl
@[simp] theorem bind_error {ε α β : Type} (e : ε) (f : α → Except ε β) :
    (Except.error e : Except ε α).bind f = .error e := rfl

instance instDecEqExcept {ε α : Type} [DecidableEq ε] [DecidableEq α] : DecidableEq (Except ε α) := fun a b =>
  match a, b with
  | .ok x, .ok y => if h : x = y then isTrue (by rw [h]) else isFalse (by intro h'; cases h'; exact h rfl)
  | .error x, .error y => if h : x = y then isTrue (by rw [h]) else isFalse (by intro h'; cases h'; exact h rfl)
  | .ok _, .error _ => isFalse (by intro h; cases h)
  | .error _, .ok _ => isFalse (by intro h; cases h)

theorem toDigits_isDigit (n : Nat) : ∀ c ∈ Nat.toDigits 10 n, c.isDigit = true :=
  fun _ hc => Nat.isDigit_of_mem_toDigits (by decide) (by decide) hc

/-- `int(str(n)) = n`. -/
theorem pyInt_renderInt (n : Int) (h : (Nat.toDigits 10 n.natAbs).length ≤ Iso.maxStrDigits) :
    Iso.pyInt (renderInt n) = .ok n := by
  have hd := toDigits_isDigit n.natAbs
  have hne : Nat.toDigits 10 n.natAbs ≠ [] := Nat.toDigits_ne_nil
  unfold renderInt renderNat
  split
  · rename_i hneg
    have hws : ∀ c ∈ '-' :: Nat.toDigits 10 n.natAbs, Iso.isWs c = false := by
      intro c hc
      rcases List.mem_cons.mp hc with rfl | hc
      · decide
      · exact Iso.isWs_of_isDigit (hd c hc)
    unfold Iso.pyInt
    rw [Iso.strip_of_no_ws _ hws]
    simp only [if_true, Iso.pyNat_digits _ hne hd h, Nat.ofDigitChars_ten_toDigits, Iso.bind_ok]
    congr 1
    omega
  · rename_i hpos
    rw [Iso.pyInt_digits _ hne hd h, Nat.ofDigitChars_ten_toDigits]
    congr 1
    omega

theorem pyPrefix_prefix {α : Type} (xs : List α) (stop : Int) : pyPrefix xs stop <+: xs := by
  unfold pyPrefix
  split <;> exact List.take_prefix _ _

theorem limitWith_prefix {α : Type} (test : Int → Bool) (stop : Int → Int) (n : Option Nat) (xs : List α) :
    limitWith test stop n xs <+: xs := by
  unfold limitWith
  split
  · exact List.prefix_refl _
  · split
    · exact pyPrefix_prefix _ _
    · exact List.prefix_refl _

/-- What the prefix theorems need from the generated `if <test>:` and `[:<stop>]`. -/
structure LimitFacts (test : Int → Bool) (stop : Int → Int) : Prop where
  zero : test 0 = false
  pos : ∀ k : Nat, test ((k + 1 : Nat) : Int) = true ∧ stop ((k + 1 : Nat) : Int) = ((k + 1 : Nat) : Int)

theorem limitWith_longest {α : Type} {test : Int → Bool} {stop : Int → Int} (L : LimitFacts test stop)
    (n : Option Nat) (xs : List α) :
    (match n with
     | none => limitWith test stop n xs = xs
     | some 0 => limitWith test stop n xs = xs
     | some (k + 1) => (limitWith test stop n xs).length ≤ k + 1 ∧
        ∀ q, q <+: xs → q.length ≤ k + 1 → q <+: limitWith test stop n xs) := by
  match n with
  | none => rfl
  | some 0 =>
    show (if test ((0 : Nat) : Int) = true then _ else xs) = xs
    have : test ((0 : Nat) : Int) = false := L.zero
    rw [this]; rfl
  | some (k + 1) =>
    obtain ⟨h1, h2⟩ := L.pos k
    have e : limitWith test stop (some (k + 1)) xs = xs.take (k + 1) := by
      simp only [limitWith, h1, if_true, h2, pyPrefix]
      rw [if_pos (by omega)]
      congr 1
    simp only [e, List.length_take]
    refine ⟨Nat.min_le_left _ _, ?_⟩
    intro q hq hl
    rw [List.prefix_take_iff]
    exact ⟨hq, hl⟩

/-- What the property needs from the early `return None` of `OrsoTypes.parse` (test extracted from
the source): it is taken for `None`, and for nothing else (whatever the value's truthiness). -/
structure NullFacts : Prop where
  onNone : Gen.Cast.nullGuard True True
  onlyNone : ∀ falsy : Prop, ¬ Gen.Cast.nullGuard False falsy

theorem parseVia_none (N : NullFacts) (run : Val → Except Exc Val) : parseVia run none = .ok none := by
  simp only [parseVia, N.onNone, if_true]

theorem parseVia_some (N : NullFacts) (run : Val → Except Exc Val) (v : Val) :
    parseVia run (some v) = (run v).bind fun r => .ok (some r) := by
  simp only [parseVia, N.onlyNone, if_false]

theorem parseArray_spec (N : NullFacts) (fot : List Char → Option UInt64) (t : Ty) :
    ∀ (xs rs : List (Option Val)), parseArray fot (some t) xs = .ok rs →
      rs.length = xs.length ∧
      ∀ i (h : i < xs.length) (h' : i < rs.length), parse fot t xs[i] = .ok rs[i] ∧ (xs[i] = none → rs[i] = none)
  | [], rs, h => by
    simp only [parseArray] at h; cases h
    exact ⟨rfl, fun i hi => absurd hi (Nat.not_lt_zero _)⟩
  | x :: xs, rs, h => by
    simp only [parseArray] at h
    cases hx : parse fot t x with
    | error e => rw [hx] at h; simp at h
    | ok r =>
      rw [hx] at h; simp only [bind_ok] at h
      cases hr : parseArray fot (some t) xs with
      | error e => rw [hr] at h; simp at h
      | ok rs' =>
        rw [hr] at h; simp only [bind_ok] at h
        cases h
        obtain ⟨hl, hi⟩ := parseArray_spec N fot t xs rs' hr
        refine ⟨by simp [hl], ?_⟩
        intro i h1 h2
        cases i with
        | zero =>
          simp only [List.getElem_cons_zero]
          refine ⟨hx, ?_⟩
          intro hn; subst hn; rw [parse, parseVia_none N] at hx; cases hx; rfl
        | succ j =>
          simp only [List.getElem_cons_succ]
          exact hi j (by simpa using h1) (by simpa using h2)

theorem parseArray_raises (fot : List Char → Option UInt64) (t : Ty) :
    ∀ (xs : List (Option Val)), (∃ x ∈ xs, ∃ e, parse fot t x = .error e) →
      ∃ e, parseArray fot (some t) xs = .error e
  | [], h => by obtain ⟨x, hx, _⟩ := h; cases hx
  | x :: xs, h => by
    simp only [parseArray]
    cases hx : parse fot t x with
    | error e => exact ⟨e, rfl⟩
    | ok r =>
      simp only [bind_ok]
      obtain ⟨y, hy, e, he⟩ := h
      rcases List.mem_cons.mp hy with rfl | hy
      · rw [hx] at he; cases he
      · obtain ⟨e', he'⟩ := parseArray_raises fot t xs ⟨y, hy, e, he⟩
        exact ⟨e', by rw [he']; rfl⟩

/-! ### result classes -/

theorem parseBoolean_cls (v r : Val) (h : parseBoolean v = .ok r) : r.cls = Ty.cls .boolean := by
  cases v <;> simp only [parseBoolean] at h <;> cases h <;> rfl

theorem parseInteger_cls (v r : Val) (h : parseInteger v = .ok r) : r.cls = Ty.cls .integer := by
  have key : ∀ x : Except Exc Int, (x.bind fun n => Except.ok (Val.int n)) = .ok r → r.cls = Ty.cls .integer := by
    intro x hx
    cases x with
    | error e => simp at hx
    | ok n => simp only [bind_ok] at hx; cases hx; rfl
  cases v <;> simp only [parseInteger] at h
  case bool b => cases h; rfl
  case int n => cases h; rfl
  case float b => exact key _ h
  case str s => exact key _ h
  case bytes b =>
    split at h
    · exact key _ h
    · cases h
  all_goals cases h

theorem parseDouble_cls (fot : List Char → Option UInt64) (v r : Val) (h : parseDouble fot v = .ok r) :
    r.cls = Ty.cls .double := by
  cases v <;> simp only [parseDouble] at h
  case bool b => cases h; rfl
  case int n => split at h <;> cases h; rfl
  case float b => cases h; rfl
  case str s => split at h <;> cases h; rfl
  case bytes b =>
    split at h
    · split at h <;> cases h; rfl
    · cases h
  all_goals cases h

theorem parseVarchar_cls (n : Option Nat) (v r : Val) (h : parseVarchar n v = .ok r) :
    r.cls = Ty.cls (.varchar n) := by
  unfold parseVarchar at h
  split at h
  · split at h <;> cases h; rfl
  · split at h <;> cases h; rfl

theorem parseBlob_cls (n : Option Nat) (v r : Val) (h : parseBlob n v = .ok r) :
    r.cls = Ty.cls (.blob n) := by
  unfold parseBlob at h
  split at h
  · cases h; rfl
  · split at h <;> cases h; rfl

theorem parseTemporal_cls (k : Iso.CastKind) (v r : Val) (h : parseTemporal k v = .ok r)
    (hk : k ≠ .time) :
    r.cls = Ty.cls (match k with | .date => .date | _ => .timestamp) := by
  unfold parseTemporal at h
  cases k with
  | time => exact absurd rfl hk
  | date =>
    unfold Iso.cast at h
    cases hp : Iso.parseIso (isoInput v) <;> rw [hp] at h <;> simp at h
    subst h; rfl
  | timestamp =>
    unfold Iso.cast at h
    cases hp : Iso.parseIso (isoInput v) <;> rw [hp] at h <;> simp at h
    subst h; rfl

theorem factory_cls (p s : Nat) (x : Sum (List Char) Dec) (r : Val) (h : factory p s x = .ok r) :
    r.cls = "decimal.Decimal" := by
  unfold factory at h
  split at h
  · cases h
  · dsimp only at h
    split at h
    · cases h
    · split at h <;> cases h <;> rfl

theorem parseDecimal_cls (p s : Option Nat) (v r : Val) (h : parseDecimal p s v = .ok r) :
    r.cls = Ty.cls (.decimal p s) := by
  have e : Ty.cls (.decimal p s) = "decimal.Decimal" := by
    show (Gen.Cast.pythonClass.lookup "DECIMAL").getD "?" = "decimal.Decimal"
    decide
  rw [e]
  unfold parseDecimal at h
  dsimp only at h
  split at h
  · exact factory_cls _ _ _ _ h
  · exact factory_cls _ _ _ _ h
  · exact factory_cls _ _ _ _ h
  · split at h
    · exact factory_cls _ _ _ _ h
    · cases h
  · exact factory_cls _ _ _ _ h
  · cases h

end Cast

namespace Cast

/-- What the decimal theorems need from the generated factory expressions (`Gen.Cast`). -/
structure FactoryFacts : Prop where
  prec : ∀ p : Nat, Gen.Cast.contextPrec p = p
  scale : ∀ s : Nat, s ≤ 28 → Gen.Cast.quantExp (Gen.Cast.quantScale s) = -(s : Int)
  rounding : Gen.Cast.rounding = "ROUND_HALF_EVEN"
  pad : ∀ s : Nat, 0 ≤ Gen.Cast.padCount s ∧ Gen.Cast.padCount s ≤ s
  /-- every call builds its own context: the precision one cast rounds with is never written by another cast
  (which is what makes the model's `factory` a function of its arguments alone) -/
  privateContext : Gen.Cast.contextScope = "call"
  /-- the factory reads nothing of the interpreter's ambient state — not the calling thread's decimal context (its precision,
  rounding mode, exponent range, traps), no locale, environment or `sys` setting: everything it rounds or quantises with is
  the private context above and `self.scale` / `self.precision` (which is what lets the model's `factory` take no context argument) -/
  ambientFree : Gen.Cast.factoryAmbient = []

theorem roundTo_id (p : Nat) (neg : Bool) (c : Nat) (e : Int) (h : numDigits c ≤ p) :
    roundTo p (.fin neg c e) = .fin neg c e := by
  simp [roundTo, h]

theorem quantize_up (p : Nat) (q : Nat) (neg : Bool) (c : Nat) (e : Int) (he : -(q : Int) ≤ e)
    (hd : numDigits (c * 10 ^ (e + q).toNat) ≤ p) :
    quantize p (-(q : Int)) (.fin neg c e) = some (.fin neg (c * 10 ^ (e + q).toNat) (-(q : Int))) := by
  have e1 : (e - -(q : Int)).toNat = (e + q).toNat := by congr 1; omega
  have e2 : rescale c e (-(q : Int)) = c * 10 ^ (e + q).toNat := by
    simp only [rescale, ge_iff_le, he, if_true, e1]
  simp only [quantize, e2]
  rw [if_neg (by omega)]

/-- The factory on an already-created decimal that fits. -/
theorem factory_fits (F : FactoryFacts) (p s : Nat) (neg : Bool) (c : Nat) (e : Int) (hp : 1 ≤ p)
    (hs : s ≤ 28) (he : -(s : Int) ≤ e) (hc : numDigits c ≤ p)
    (hd : numDigits (c * 10 ^ (e + s).toNat) ≤ p) :
    factory p s (.inr (.fin neg c e)) = .ok (.dec (.fin neg (c * 10 ^ (e + s).toNat) (-(s : Int)))) := by
  unfold factory
  rw [F.prec p, if_neg (by omega)]
  simp only [created, Int.toNat_natCast, roundTo_id p neg c e hc, F.scale s hs, quantize_up p s neg c e he hd]

/-- The same with the scale capped as the source caps it (`hcap`, proved in Props from the generated
expressions): any declared scale, the result is quantised to `min s 28` places. -/
theorem factory_fits_cap (F : FactoryFacts)
    (hcap : ∀ s : Nat, Gen.Cast.quantExp (Gen.Cast.quantScale s) = -((min s 28 : Nat) : Int))
    (p s : Nat) (neg : Bool) (c : Nat) (e : Int) (hp : 1 ≤ p)
    (he : -((min s 28 : Nat) : Int) ≤ e) (hc : numDigits c ≤ p)
    (hd : numDigits (c * 10 ^ (e + (min s 28 : Nat)).toNat) ≤ p) :
    factory p s (.inr (.fin neg c e))
      = .ok (.dec (.fin neg (c * 10 ^ (e + (min s 28 : Nat)).toNat) (-((min s 28 : Nat) : Int)))) := by
  unfold factory
  rw [F.prec p, if_neg (by omega)]
  simp only [created, Int.toNat_natCast, roundTo_id p neg c e hc, hcap s,
    quantize_up p (min s 28) neg c e he hd]

theorem factory_text (F : FactoryFacts) (p s : Nat) (t : List Char)
    (hnd : (!t.isEmpty && allDigits t) = false) (d : Dec)
    (ht : decOfText (stripD t) = some d) (hp : 1 ≤ p) :
    factory p s (.inl t) = factory p s (.inr d) := by
  unfold factory
  rw [F.prec p, if_neg (by omega), if_neg (by omega)]
  simp only [created, padText, hnd, Bool.false_eq_true, if_false, ht, Option.map_some]

/-! ### ASCII text as bytes -/

/-- The bytes that spell an ASCII text. -/
def asciiBytes (s : List Char) : List UInt8 := s.map fun c => UInt8.ofNat c.toNat

theorem asciiBytes_all (s : List Char) (h : ∀ c ∈ s, c.toNat < 128) :
    (asciiBytes s).all (· < 128) = true := by
  simp only [asciiBytes, List.all_map, List.all_eq_true, Function.comp]
  intro c hc
  have := h c hc
  simp only [decide_eq_true_eq, UInt8.lt_iff_toNat_lt, UInt8.toNat_ofNat']
  have e : (128 : UInt8).toNat = 128 := rfl
  omega

theorem asciiChars_asciiBytes (s : List Char) (h : ∀ c ∈ s, c.toNat < 128) :
    asciiChars (asciiBytes s) = s := by
  simp only [asciiChars, asciiBytes, List.map_map]
  conv => rhs; rw [← List.map_id s]
  apply List.map_congr_left
  intro c hc
  have := h c hc
  simp only [Function.comp, id, UInt8.toNat_ofNat']
  have e : c.toNat % 2 ^ 8 = c.toNat := Nat.mod_eq_of_lt (by omega)
  rw [e]
  exact Char.ofNat_toNat c

theorem isDigit_ascii (c : Char) (h : c.isDigit = true) : c.toNat < 128 := by
  simp only [Char.isDigit, Bool.and_eq_true, decide_eq_true_eq] at h
  have h2 := h.2
  rw [UInt32.le_iff_toNat_le] at h2
  have e : ('9' : Char).val.toNat = 57 := by decide
  have e2 : c.toNat = c.val.toNat := rfl
  omega

theorem renderInt_ascii (n : Int) : ∀ c ∈ renderInt n, c.toNat < 128 := by
  intro c hc
  unfold renderInt renderNat at hc
  split at hc
  · rcases List.mem_cons.mp hc with rfl | hc
    · decide
    · exact isDigit_ascii c (toDigits_isDigit _ c hc)
  · exact isDigit_ascii c (toDigits_isDigit _ c hc)

/-! ### arrays of already-typed values, element classes -/

theorem parseArray_identity (fot : List Char → Option UInt64) (t : Ty) :
    ∀ (xs : List (Option Val)), (∀ x ∈ xs, parse fot t x = .ok x) → parseArray fot (some t) xs = .ok xs
  | [], _ => rfl
  | x :: xs, h => by
    simp only [parseArray, h x (List.mem_cons_self ..), bind_ok,
      parseArray_identity fot t xs (fun y hy => h y (List.mem_cons_of_mem _ hy))]

end Cast
