import OrsoVerif.Lemmas.IsoDigits
/-! Helper lemmas for C08: civil-from-days inverts days-from-civil. -/
namespace Iso

theorem year_arith (p doy N r n400 n100 r1 n4 r2 n1 r3 : Nat)
    (hd : doy < 365 + (if ((p+1) % 4 = 0 ∧ ((p+1) % 100 ≠ 0 ∨ (p+1) % 400 = 0)) then 1 else 0))
    (eN : N = 365 * p + p / 4 - p / 100 + p / 400 + doy)
    (er : r = N % 146097) (e400 : n400 = N / 146097) (e100 : n100 = r / 36524) (er1 : r1 = r % 36524)
    (e4 : n4 = r1 / 1461) (er2 : r2 = r1 % 1461) (e1 : n1 = r2 / 365) (er3 : r3 = r2 % 365) :
    if n1 = 4 ∨ n100 = 4 then (400 * n400 + 100 * n100 + 4 * n4 + n1 = p + 1 ∧ doy = 365)
    else (400 * n400 + 100 * n100 + 4 * n4 + n1 = p ∧ r3 = doy) := by
  obtain ⟨a, b, c, t, hp, hb, hc, ht⟩ :
      ∃ a b c t, p = 400 * a + 100 * b + 4 * c + t ∧ b < 4 ∧ c < 25 ∧ t < 4 :=
    ⟨p / 400, p % 400 / 100, p % 100 / 4, p % 4, by omega, by omega, by omega, by omega⟩
  have hN : N = 146097 * a + 36524 * b + 1461 * c + 365 * t + doy := by omega
  have hdoy : doy ≤ 364 ∨ (doy = 365 ∧ t = 3 ∧ (c ≠ 24 ∨ b = 3)) := by
    split at hd <;> omega
  clear hd eN
  have h1 : n400 = a ∧ r = 36524 * b + 1461 * c + 365 * t + doy := by omega
  clear er e400 hN
  by_cases hlast : (b = 3 ∧ c = 24 ∧ t = 3 ∧ doy = 365)
  · have h2 : n100 = 4 := by omega
    have h3 : r1 = 0 := by omega
    have h4 : n4 = 0 ∧ n1 = 0 := by omega
    rw [if_pos (Or.inr h2)]
    omega
  · have h2 : n100 = b ∧ r1 = 1461 * c + 365 * t + doy := by omega
    have h3 : n4 = c ∧ r2 = 365 * t + doy := by omega
    by_cases hl4 : (t = 3 ∧ doy = 365)
    · have h4 : n1 = 4 := by omega
      rw [if_pos (Or.inl h4)]
      omega
    · have h4 : n1 = t ∧ r3 = doy := by omega
      rw [if_neg (by omega)]
      omega

set_option maxRecDepth 100000 in
theorem monthDay_inv : ∀ leap : Bool, ∀ m, m < 13 → ∀ d, d < 32 → (1 ≤ m ∧ 1 ≤ d ∧ d ≤ daysInMonthL leap m) →
    monthDay leap (daysBeforeMonthL leap m + d - 1) = (m, d)
      ∧ daysBeforeMonthL leap m + d ≤ 365 + (if leap = true then 1 else 0) := by decide

theorem isLeap_iff (y : Nat) : isLeap y = true ↔ (y % 4 = 0 ∧ (y % 100 ≠ 0 ∨ y % 400 = 0)) := by
  simp [isLeap]

theorem yearDoy_inv (y doy : Nat) (hy : 1 ≤ y) (hd : doy < 365 + (if isLeap y = true then 1 else 0)) :
    yearDoy (((daysBeforeYear y + doy + 1 : Nat) : Int)) = ((y : Int), doy) := by
  obtain ⟨p, rfl⟩ : ∃ p, y = p + 1 := ⟨y - 1, by omega⟩
  have hd' : doy < 365 + (if ((p+1) % 4 = 0 ∧ ((p+1) % 100 ≠ 0 ∨ (p+1) % 400 = 0)) then 1 else 0) := by
    by_cases hl : isLeap (p + 1) = true
    · rw [if_pos hl] at hd; rw [if_pos ((isLeap_iff _).mp hl)]; exact hd
    · rw [if_neg hl] at hd; rw [if_neg (fun h => hl ((isLeap_iff _).mpr h))]; exact hd
  generalize hN : daysBeforeYear (p + 1) + doy = N
  have eN : N = 365 * p + p / 4 - p / 100 + p / 400 + doy := by
    rw [← hN]; simp [daysBeforeYear]
  have key := year_arith p doy N (N % 146097) (N / 146097) (N % 146097 / 36524) (N % 146097 % 36524)
    (N % 146097 % 36524 / 1461) (N % 146097 % 36524 % 1461) (N % 146097 % 36524 % 1461 / 365)
    (N % 146097 % 36524 % 1461 % 365) hd' eN rfl rfl rfl rfl rfl rfl rfl rfl
  unfold yearDoy
  have e1 : (((N + 1 : Nat) : Int) - 1) = (N : Int) := by omega
  have e2 : ((N : Int) / 146097) = ((N / 146097 : Nat) : Int) := by omega
  have e3 : ((N : Int) % 146097).toNat = N % 146097 := by omega
  simp only [e1, e2, e3]
  split at key
  · rename_i hc
    rw [if_pos hc]
    obtain ⟨k1, k2⟩ := key
    rw [k2]
    congr 1
    omega
  · rename_i hc
    rw [if_neg hc]
    obtain ⟨k1, k2⟩ := key
    rw [k2]
    congr 1
    omega

/-- `fromtimestamp` inverts `toEpoch` on every valid date-time. -/
theorem fromTimestamp_toEpoch (dt : DateTime) (h : validDateTime dt = true) :
    fromTimestamp (toEpoch dt) = .ok (truncSeconds dt) := by
  obtain ⟨h1, h2, h3, h4, h5, h6, h7, h8, h9, _⟩ := valid_bounds h
  have h6' := daysInMonth_le dt.year dt.month
  obtain ⟨md, hdoy⟩ := monthDay_inv (isLeap dt.year) dt.month (by omega) dt.day (by omega)
    ⟨h3, h5, h6⟩
  generalize hdbm : daysBeforeMonthL (isLeap dt.year) dt.month = dbm at md hdoy
  have hyd := yearDoy_inv dt.year (dbm + dt.day - 1) h1 (by omega)
  have hdby : daysBeforeYear dt.year ≤ 365 * 9999 + 9999 := by
    simp only [daysBeforeYear]; omega
  generalize hdbyv : daysBeforeYear dt.year = dby at hyd hdby
  have hE : toEpoch dt = ((dby + (dbm + dt.day - 1) + 1 : Nat) : Int) * 86400 - 719163 * 86400
      + (dt.hour * 3600 + dt.minute * 60 + dt.second : Nat) := by
    simp only [toEpoch, toOrdinal, epochOrdinal, hdbm, hdbyv]
    omega
  generalize hord : dby + (dbm + dt.day - 1) + 1 = ord at hE hyd
  generalize hsec : dt.hour * 3600 + dt.minute * 60 + dt.second = secs at hE
  have hs : secs < 86400 := by omega
  have hi : (if isLeap dt.year = true then 1 else 0) ≤ 1 := by split <;> omega
  have ho : ord ≤ 365 * 9999 + 9999 + 400 := by omega
  unfold fromTimestamp
  rw [if_neg (by omega)]
  have d1 : toEpoch dt / 86400 + (epochOrdinal : Int) = (ord : Int) := by
    simp only [epochOrdinal]; omega
  have d2 : (toEpoch dt % 86400).toNat = secs := by omega
  simp only [d1, d2, hyd]
  rw [if_neg (by omega), if_neg (by omega)]
  simp only [Int.toNat_natCast, md, truncSeconds]
  congr 2 <;> omega

end Iso
