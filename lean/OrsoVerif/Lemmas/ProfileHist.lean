import OrsoVerif.Model.Profile
import OrsoVerif.Lemmas.ProfileEst
import OrsoVerif.Lemmas.HistObj
/-!
# Lemmas for C14: the histogram of a freshly built (one-batch) numeric profile

`NumericProfiler` keeps `[(left_edge, count) for count, left_edge in zip(hist_counts, bin_edges[:-1]) if count > 0]`
(`Profile.histogramOf`, with the slice, the filter and the kept pair regenerated from the source) of
`numpy.histogram(column_data, bins=DISTOGRAM_BIN_COUNT)`.  numpy itself is a parameter with the contract `NumpyHist`:
one more edge than counts, edges strictly increasing from the data minimum to the data maximum, counts adding up to the
number of values, the first bin not empty (the minimum falls into it).  Under that contract the base case of
`Reach … ProfOK` is a theorem, and the first bin sits **at the minimum**: a one-batch profile has no left tail.
-/
namespace Distogram
set_option linter.unusedSectionVars false
set_option linter.unusedSimpArgs false

variable {K : Type} [Field K] [LinearOrder K] [IsStrictOrderedRing K]

/-- The contract of `numpy.histogram(values, bins=k)` on a non-empty batch of numbers (a parameter of the check). -/
structure NumpyHist (counts : List Nat) (edges : List K) (lo hi : K) (n : Nat) : Prop where
  len : edges.length = counts.length + 1
  inc : edges.Pairwise (· < ·)
  first : edges.head? = some lo
  last : edges.getLast? = some hi
  total : counts.sum = n
  firstBin : ∃ c rest, counts = c :: rest ∧ 0 < c
  asked : counts.length ≤ Gen.Profile.binCount

/-- The profile's `histogram` over the field of the estimator theorems. -/
def profileHist (counts : List Nat) (edges : List K) : List (K × K) :=
  (Profile.histogramOf counts edges).map (fun p => (p.1, (p.2 : K)))

/-- Kept bins of `counts` zipped with `es`. -/
def keptBins (counts : List Nat) (es : List K) : List (K × K) :=
  ((counts.zip es).filter (fun p => decide (0 < p.1))).map (fun p => (p.2, (p.1 : K)))

/-- What the base-case theorems need of the comprehension in the source: every count is paired with the **left** edge of its
bin (`bin_edges[:-1]`), the pair is `(edge, count)`, and exactly the empty bins are dropped (`count > 0`).
`C14.comprehension_keeps_left_edges` (Props/C14.lean) establishes it from the generated `Gen.ProfileExpr.hist*`. -/
def LeftEdgesKept (K : Type) [Field K] : Prop :=
  ∀ (counts : List Nat) (edges : List K), profileHist counts edges = keptBins counts (edges.take (edges.length - 1))

theorem keptBins_nil_left (es : List K) : keptBins [] es = [] := by simp [keptBins]
theorem keptBins_nil_right (cs : List Nat) : keptBins cs ([] : List K) = [] := by simp [keptBins]

theorem keptBins_cons (c : Nat) (cs : List Nat) (e : K) (es : List K) :
    keptBins (c :: cs) (e :: es) = if 0 < c then (e, (c : K)) :: keptBins cs es else keptBins cs es := by
  unfold keptBins
  by_cases h : 0 < c
  · simp [List.zip_cons_cons, List.filter_cons, h]
  · simp [List.zip_cons_cons, List.filter_cons, h]

theorem keptBins_mem : ∀ (cs : List Nat) (es : List K) (b : K × K), b ∈ keptBins cs es → b.1 ∈ es ∧ 0 < b.2
  | [], es, b, h => by rw [keptBins_nil_left] at h; simp at h
  | _ :: _, [], b, h => by rw [keptBins_nil_right] at h; simp at h
  | c :: cs, e :: es, b, h => by
    rw [keptBins_cons] at h
    by_cases hc : 0 < c
    · rw [if_pos hc] at h
      rcases List.mem_cons.mp h with rfl | h
      · exact ⟨by simp, by simpa using hc⟩
      · obtain ⟨h1, h2⟩ := keptBins_mem cs es b h
        exact ⟨by simp [h1], h2⟩
    · rw [if_neg hc] at h
      obtain ⟨h1, h2⟩ := keptBins_mem cs es b h
      exact ⟨by simp [h1], h2⟩

theorem keptBins_inc : ∀ (cs : List Nat) (es : List K), es.Pairwise (· < ·) → Inc (keptBins cs es)
  | [], es, _ => by rw [keptBins_nil_left]; exact List.Pairwise.nil
  | _ :: _, [], _ => by rw [keptBins_nil_right]; exact List.Pairwise.nil
  | c :: cs, e :: es, h => by
    rw [keptBins_cons]
    have ht := (List.pairwise_cons.mp h).2
    have hh := (List.pairwise_cons.mp h).1
    by_cases hc : 0 < c
    · rw [if_pos hc]
      refine List.pairwise_cons.mpr ⟨?_, keptBins_inc cs es ht⟩
      intro b hb
      exact hh _ (keptBins_mem cs es b hb).1
    · rw [if_neg hc]; exact keptBins_inc cs es ht

theorem keptBins_length : ∀ (cs : List Nat) (es : List K), (keptBins cs es).length ≤ cs.length
  | [], es => by rw [keptBins_nil_left]; simp
  | _ :: _, [] => by rw [keptBins_nil_right]; simp
  | c :: cs, e :: es => by
    rw [keptBins_cons]
    have := keptBins_length cs es
    by_cases hc : 0 < c
    · rw [if_pos hc]; simp; omega
    · rw [if_neg hc]; simp; omega

theorem keptBins_mass : ∀ (cs : List Nat) (es : List K), cs.length ≤ es.length → mass (keptBins cs es) = (cs.sum : K)
  | [], es, _ => by rw [keptBins_nil_left]; simp [mass]
  | c :: cs, [], h => by simp at h
  | c :: cs, e :: es, h => by
    rw [keptBins_cons]
    have ih := keptBins_mass cs es (by simpa using h)
    by_cases hc : 0 < c
    · rw [if_pos hc]
      simp only [mass, List.map_cons, List.sum_cons, Nat.cast_add] at ih ⊢
      rw [ih]
    · rw [if_neg hc]
      have : c = 0 := by omega
      subst this
      simp only [List.sum_cons, Nat.cast_add, Nat.cast_zero, zero_add]
      exact ih

theorem pairwise_head_le : ∀ (l : List K) (lo : K), l.Pairwise (· < ·) → l.head? = some lo → ∀ x ∈ l, lo ≤ x
  | [], _, _, h, _, _ => by simp at h
  | a :: t, lo, hp, h, x, hx => by
    simp only [List.head?_cons, Option.some.injEq] at h
    subst h
    rcases List.mem_cons.mp hx with rfl | hx
    · exact le_refl _
    · exact le_of_lt ((List.pairwise_cons.mp hp).1 x hx)

theorem pairwise_le_last : ∀ (l : List K) (hi : K), l.Pairwise (· < ·) → l.getLast? = some hi → ∀ x ∈ l, x ≤ hi
  | [], _, _, h, _, _ => by simp at h
  | [a], hi, _, h, x, hx => by
    simp only [List.getLast?_singleton, Option.some.injEq] at h
    subst h
    simp only [List.mem_singleton] at hx
    rw [hx]
  | a :: b :: t, hi, hp, h, x, hx => by
    have hl : (b :: t).getLast? = some hi := by
      rw [List.getLast?_cons_cons] at h; exact h
    have hpt := (List.pairwise_cons.mp hp).2
    have ih := pairwise_le_last (b :: t) hi hpt hl
    rcases List.mem_cons.mp hx with rfl | hx
    · exact le_trans (le_of_lt ((List.pairwise_cons.mp hp).1 b (by simp))) (ih b (by simp))
    · exact ih x hx

/-- **The histogram of a freshly built numeric profile** (numpy's contract the only hypothesis): C13's invariants, at most
`binCount` bins, counts adding up to the number of values, every centre within `[minimum, maximum]` — and the first bin is
the one **at the minimum**. -/
theorem profileHist_facts (hk : LeftEdgesKept K) {counts : List Nat} {edges : List K} {lo hi : K} {n : Nat}
    (h : NumpyHist counts edges lo hi n) (hcap : Gen.Profile.binCount ≤ Gen.Distogram.binCount) :
    Inc (profileHist counts edges) ∧ Pos (profileHist counts edges) ∧
    (profileHist counts edges).length ≤ Gen.Distogram.binCount ∧
    mass (profileHist counts edges) = (n : K) ∧ Within lo hi (profileHist counts edges) ∧
    ∃ f0 rest, profileHist counts edges = (lo, f0) :: rest := by
  have he : profileHist counts edges = keptBins counts (edges.take (edges.length - 1)) := hk counts edges
  have hsub : (edges.take (edges.length - 1)).Sublist edges := List.take_sublist _ _
  have hinc' : (edges.take (edges.length - 1)).Pairwise (· < ·) := h.inc.sublist hsub
  have hlen' : counts.length ≤ (edges.take (edges.length - 1)).length := by
    rw [List.length_take, h.len]; simp
  rw [he]
  refine ⟨keptBins_inc _ _ hinc', fun b hb => (keptBins_mem _ _ b hb).2, ?_, ?_, ?_, ?_⟩
  · exact le_trans (keptBins_length _ _) (le_trans h.asked hcap)
  · rw [keptBins_mass _ _ hlen', h.total]
  · intro b hb
    have hm : b.1 ∈ edges := hsub.subset (keptBins_mem _ _ b hb).1
    exact ⟨pairwise_head_le edges lo h.inc h.first _ hm, pairwise_le_last edges hi h.inc h.last _ hm⟩
  · obtain ⟨c, rest, hc, hpos⟩ := h.firstBin
    cases hed : edges with
    | nil => have := h.len; rw [hed] at this; simp at this
    | cons e0 et =>
      have hf := h.first
      rw [hed] at hf
      simp only [List.head?_cons, Option.some.injEq] at hf
      have hl := h.len
      rw [hed, hc] at hl
      simp only [List.length_cons] at hl
      cases het : et with
      | nil => rw [het] at hl; simp at hl
      | cons e1 et' =>
        subst hf
        rw [hc]
        have : (e0 :: e1 :: et').take ((e0 :: e1 :: et').length - 1) = e0 :: (e1 :: et').take ((e1 :: et').length - 1) := by
          simp [List.take_succ_cons]
        rw [this, keptBins_cons, if_pos hpos]
        exact ⟨_, _, rfl⟩

/-! ## sums that never trim keep their first bin at the minimum -/

/-- The first bin of the profile's histogram is at its `minimum`; a profile without a histogram reports no minimum
(an all-null batch, the placeholder of a table sum). -/
def PHeadMin (p : EProf K) : Prop :=
  match p.hist.head? with
  | none => p.minimum = none
  | some b => p.minimum = some b.1

/-- Updates that stay at or above the reported minimum do not move it. -/
theorem mergeRef_min_of_le : ∀ (bs : List (K × K)) (s : RState K) (y : K), s.min = some y → (∀ b ∈ bs, y ≤ b.1) →
    (mergeRef s bs).min = some y
  | [], s, y, h, _ => by simpa [mergeRef] using h
  | b :: bs, s, y, h, hb => by
    rw [mergeRef_cons]
    refine mergeRef_min_of_le bs _ y ?_ (fun x hx => hb x (by simp [hx]))
    rw [updateRef_min, h]
    have : ¬ b.1 < y := not_lt.mpr (hb b (by simp))
    simp [minO, this]

/-- Merging an increasing list of bins into a state: the reported minimum becomes the smaller of the old one and the first
new centre. -/
theorem mergeRef_min_inc (s : RState K) (x : K) (hs : s.min = some x) (v0 f0 : K) (rest : List (K × K))
    (hinc : Inc ((v0, f0) :: rest)) :
    (mergeRef s ((v0, f0) :: rest)).min = some (if v0 < x then v0 else x) := by
  rw [mergeRef_cons]
  have h1 : (updateRef s v0 f0).min = some (if v0 < x then v0 else x) := by
    rw [updateRef_min, hs]; rfl
  refine mergeRef_min_of_le rest _ _ h1 ?_
  intro b hb
  have hlt : v0 < b.1 := (List.pairwise_cons.mp hinc).1 b hb
  by_cases c : v0 < x
  · rw [if_pos c]; exact le_of_lt hlt
  · rw [if_neg c]; exact le_trans (not_lt.mp c) (le_of_lt hlt)

theorem refMerge_headMin {sb ob : List (K × K)} {sl sh : K} {v0 f0 : K} {rest : List (K × K)}
    (hs : sb.head?.map (·.1) = some sl) (_hne : sb ≠ []) (hob : ob = (v0, f0) :: rest) (hinc : Inc ob)
    (hfit : sb.length + ob.length ≤ Gen.Distogram.binCount) :
    let m := mergeRef ⟨sb, some sl, some sh, Gen.Distogram.binCount⟩ ob
    m.bins.head?.map (·.1) = some (if v0 < sl then v0 else sl) := by
  intro m
  let s : RState K := ⟨sb, some sl, some sh, Gen.Distogram.binCount⟩
  have hm0 : HeadMin s := by
    unfold HeadMin
    show (match sb.head? with | none => (some sl : Option K) = none | some b' => some sl = some b'.1)
    cases hb : sb.head? with
    | none => rw [hb] at hs; simp at hs
    | some b =>
      rw [hb] at hs
      simp only [Option.map_some, Option.some.injEq] at hs
      simp [hs]
  have hf : fitsFrom s ob := fitsFrom_of_length ob s hfit
  have hm : HeadMin m := mergeRef_headMin ob s hm0 hf
  have hmin : m.min = some (if v0 < sl then v0 else sl) := by
    show (mergeRef s ob).min = _
    rw [hob]; rw [hob] at hinc
    exact mergeRef_min_inc s sl rfl v0 f0 rest hinc
  unfold HeadMin at hm
  cases hh : m.bins.head? with
  | none => rw [hh] at hm; rw [hmin] at hm; simp at hm
  | some b =>
    rw [hh] at hm
    simp only at hm
    rw [hmin] at hm
    simp only [Option.map_some, Option.some.injEq]
    exact (Option.some.inj hm).symm

/-- **A sum whose histograms fit together keeps its first bin at the minimum**: two well-formed profiles whose first bins
are at their minima and whose histograms have at most `binCount` bins between them — nothing is trimmed — add up to a profile
whose first bin is at its minimum. -/
theorem addRef_headMin (hl : LoadGiven) {drop : Bool} {a b c : EProf K} (ha : ProfOK a) (hb : ProfOK b)
    (pa : PHeadMin a) (pb : PHeadMin b) (hfit : a.hist.length + b.hist.length ≤ Gen.Distogram.binCount)
    (h : EProf.addWith drop refMerge a b = .ok c) : PHeadMin c := by
  obtain ⟨hh, hm, rfl⟩ := addWith_ok h
  unfold PHeadMin at pa pb ⊢
  simp only
  unfold mergedHist at hm
  cases hah : a.hist with
  | nil =>
    rw [hah] at pa; simp only [List.head?_nil] at pa
    cases hbh : b.hist with
    | nil =>
      rw [hbh] at pb; simp only [List.head?_nil] at pb
      rw [hah, hbh] at hm
      simp only [Except.ok.injEq] at hm
      subst hm
      simp [pa, pb, optMin]
    | cons b0 bt =>
      rw [hbh] at pb; simp only [List.head?_cons] at pb
      rw [hah, hbh] at hm
      simp only [Except.ok.injEq] at hm
      subst hm
      simp [pa, pb, optMin]
  | cons a0 at' =>
    rw [hah] at pa; simp only [List.head?_cons] at pa
    cases hbh : b.hist with
    | nil =>
      rw [hbh] at pb; simp only [List.head?_nil] at pb
      rw [hah, hbh] at hm
      simp only [Except.ok.injEq] at hm
      subst hm
      simp [pa, pb, optMin]
    | cons b0 bt =>
      rw [hbh] at pb; simp only [List.head?_cons] at pb
      obtain ⟨alo, ahi, halo, hahi, _⟩ := ha.bounds (by rw [hah]; simp)
      obtain ⟨blo, bhi, hblo, hbhi, _⟩ := hb.bounds (by rw [hbh]; simp)
      have ea : alo = a0.1 := by rw [halo] at pa; exact Option.some.inj pa
      have eb : blo = b0.1 := by rw [hblo] at pb; exact Option.some.inj pb
      rw [hah, hbh] at hm
      simp only at hm
      rw [← hah, ← hbh] at hm
      rw [halo, hblo]
      by_cases sw : Gen.ProfileEst.addSwapTest a.hist.length b.hist.length = true
      · rw [if_pos sw] at hm
        simp only [refMerge, fresh_eq hl, Except.ok.injEq, hblo, hbhi] at hm
        subst hm
        have := refMerge_headMin (sb := b.hist) (ob := a.hist) (sl := blo) (sh := bhi) (v0 := a0.1) (f0 := a0.2) (rest := at')
          (by rw [hbh, eb]; rfl) (by rw [hbh]; simp) (by rw [hah]) ha.inc (by omega)
        simp only at this
        cases hh : (mergeRef ⟨b.hist, some blo, some bhi, Gen.Distogram.binCount⟩ a.hist).bins.head? with
        | none => rw [hh] at this; simp at this
        | some x =>
          rw [hh] at this
          simp only [Option.map_some, Option.some.injEq] at this
          simp only [optMin]
          rw [this, ← ea]
          by_cases c1 : alo < blo
          · have : ¬ blo < alo := not_lt.mpr (le_of_lt c1)
            simp [c1, this]
          · by_cases c2 : blo < alo
            · simp [c1, c2]
            · have : alo = blo := le_antisymm (not_lt.mp c2) (not_lt.mp c1)
              simp [this]
      · rw [if_neg sw] at hm
        simp only [refMerge, fresh_eq hl, Except.ok.injEq, halo, hahi] at hm
        subst hm
        have := refMerge_headMin (sb := a.hist) (ob := b.hist) (sl := alo) (sh := ahi) (v0 := b0.1) (f0 := b0.2) (rest := bt)
          (by rw [hah, ea]; rfl) (by rw [hah]; simp) (by rw [hbh]) hb.inc hfit
        simp only at this
        cases hh : (mergeRef ⟨a.hist, some alo, some ahi, Gen.Distogram.binCount⟩ b.hist).bins.head? with
        | none => rw [hh] at this; simp at this
        | some x =>
          rw [hh] at this
          simp only [Option.map_some, Option.some.injEq] at this
          simp only [optMin]
          rw [this, ← eb]

end Distogram
