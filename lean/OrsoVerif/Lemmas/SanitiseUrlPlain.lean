import OrsoVerif.Model.Sanitise
import OrsoVerif.Lemmas.Sanitise
import OrsoVerif.Lemmas.SanitiseBarrier
/-!
Helper lemmas for C20: the plain-text branch of `sanitize_record` rewrites the text around a
`://user-info@` (more generally around a barrier) without looking at it.
-/
namespace Sanitise


/-! ## the quote-pair colouring of the plain-text branch -/

theorem findClose_length (q : Char) (line : Bool) (r inner rest : Str)
    (h : findClose q line r = some (inner, rest)) : rest.length < r.length := by
  have := findClose_spec q line r inner rest h
  subst this; simp; omega

theorem findClose_notin (q : Char) : ∀ x : Str, q ∉ x → findClose q false x = none := by
  intro x
  induction x with
  | nil => intro _; rfl
  | cons c r ih =>
    intro h
    have hc : c ≠ q := fun e => h (by simp [e])
    have hr : q ∉ r := fun hm => h (List.mem_cons_of_mem _ hm)
    simp [findClose, hc, ih hr]

theorem findClose_append (q : Char) (y : Str) : ∀ x : Str,
    findClose q false (x ++ y) =
      match findClose q false x with
      | some (i, r) => some (i, r ++ y)
      | none => (findClose q false y).map fun p => (x ++ p.1, p.2) := by
  intro x
  induction x with
  | nil =>
    simp only [List.nil_append, findClose]
    cases findClose q false y with
    | none => rfl
    | some p => rfl
  | cons c r ih =>
    simp only [List.cons_append, findClose]
    by_cases hc : c = q
    · simp [hc]
    · simp only [hc, if_false, Bool.false_and, Bool.false_eq_true, ih]
      cases h1 : findClose q false r with
      | some p => rfl
      | none =>
        simp only
        cases findClose q false y with
        | none => rfl
        | some p => rfl

theorem pairColourF_cons (q q' : Char) (n : Nat) (c : Char) (r : Str) :
    pairColourF q q' (n + 1) (c :: r) =
      if c = q then
        match findClose q false r with
        | some (inner, rest) =>
          q' :: (Gen.Sanitise.codeYellow ++ inner ++ Gen.Sanitise.codeOff ++ q' :: pairColourF q q' n rest)
        | none => c :: pairColourF q q' n r
      else c :: pairColourF q q' n r := rfl

theorem pairColourF_fuel (q q' : Char) : ∀ (n m : Nat) (s : Str), s.length ≤ n → s.length ≤ m →
    pairColourF q q' n s = pairColourF q q' m s := by
  intro n
  induction n with
  | zero =>
    intro m s hn _
    have : s = [] := List.length_eq_zero_iff.mp (by omega)
    subst this
    cases m <;> simp [pairColourF]
  | succ n ih =>
    intro m s hn hm
    cases s with
    | nil => cases m <;> simp [pairColourF]
    | cons c r =>
      cases m with
      | zero => simp at hm
      | succ m =>
        simp only [pairColourF_cons]
        simp only [List.length_cons] at hn hm
        by_cases hc : c = q
        · simp only [hc, if_true]
          cases hf : findClose q false r with
          | none => simp only; rw [ih m r (by omega) (by omega)]
          | some p =>
            obtain ⟨inner, rest⟩ := p
            have := findClose_length q false r inner rest hf
            simp only; rw [ih m rest (by omega) (by omega)]
        · simp only [hc, if_false]; rw [ih m r (by omega) (by omega)]

theorem pairColour_nil (q q' : Char) : pairColour q q' [] = [] := rfl

theorem pairColour_cons (q q' : Char) (c : Char) (r : Str) :
    pairColour q q' (c :: r) =
      if c = q then
        match findClose q false r with
        | some (inner, rest) =>
          q' :: (Gen.Sanitise.codeYellow ++ inner ++ Gen.Sanitise.codeOff ++ q' :: pairColour q q' rest)
        | none => c :: pairColour q q' r
      else c :: pairColour q q' r := by
  simp only [pairColour, List.length_cons, pairColourF_cons]
  by_cases hc : c = q
  · simp only [hc, if_true]
    cases hf : findClose q false r with
    | none => simp only
    | some p =>
      obtain ⟨inner, rest⟩ := p
      have := findClose_length q false r inner rest hf
      simp only
      rw [pairColourF_fuel q q' (r.length + 1) (rest.length + 1) rest (by omega) (by omega)]
  · simp only [hc, if_false]

theorem pairColour_through (q q' : Char) : ∀ (B b : Str), q ∉ B →
    pairColour q q' (B ++ b) = B ++ pairColour q q' b := by
  intro B
  induction B with
  | nil => intro b _; rfl
  | cons x B ih =>
    intro b hB
    have hx : x ≠ q := fun e => hB (by simp [e])
    rw [List.cons_append, pairColour_cons, if_neg hx, ih b (fun hm => hB (List.mem_cons_of_mem _ hm))]
    rfl

/-- **Barrier lemma for the quote-pair colouring**: the text before and after a quote-free run is
rewritten independently of that run. -/
theorem pairColour_barrier (q q' : Char) (b : Str) : ∀ (k : Nat) (a : Str), a.length ≤ k →
    ∃ a' b', ∀ B : Str, q ∉ B → pairColour q q' (a ++ B ++ b) = a' ++ B ++ b' := by
  intro k
  induction k with
  | zero =>
    intro a ha
    have : a = [] := List.length_eq_zero_iff.mp (by omega)
    subst this
    exact ⟨[], pairColour q q' b, fun B hB => by simp [pairColour_through q q' B b hB]⟩
  | succ k ih =>
    intro a ha
    cases a with
    | nil => exact ⟨[], pairColour q q' b, fun B hB => by simp [pairColour_through q q' B b hB]⟩
    | cons c r =>
      simp only [List.length_cons] at ha
      by_cases hc : c = q
      · -- an opening quote in the text before the barrier
        cases hf : findClose q false r with
        | some p =>
          -- it closes before the barrier
          obtain ⟨inner, rest⟩ := p
          have hl := findClose_length q false r inner rest hf
          obtain ⟨a', b', hab⟩ := ih rest (by omega)
          refine ⟨q' :: (Gen.Sanitise.codeYellow ++ inner ++ Gen.Sanitise.codeOff ++ q' :: a'), b', fun B hB => ?_⟩
          have e : c :: r ++ B ++ b = c :: (r ++ (B ++ b)) := by simp
          rw [e, pairColour_cons, if_pos hc, findClose_append, hf]
          simp only
          have := hab B hB
          simp only [List.append_assoc] at this
          rw [this]
          simp [List.append_assoc]
        | none =>
          cases hfb : findClose q false b with
          | some p =>
            -- it closes after the barrier: the barrier is inside the coloured run
            obtain ⟨ib, rb⟩ := p
            refine ⟨q' :: (Gen.Sanitise.codeYellow ++ r),
              ib ++ Gen.Sanitise.codeOff ++ q' :: pairColour q q' rb, fun B hB => ?_⟩
            have e : c :: r ++ B ++ b = c :: (r ++ (B ++ b)) := by simp
            rw [e, pairColour_cons, if_pos hc, findClose_append, hf]
            simp only
            rw [findClose_append, findClose_notin q B hB]
            simp only [hfb, Option.map_some]
            simp [List.append_assoc]
          | none =>
            -- it never closes
            obtain ⟨a', b', hab⟩ := ih r (by omega)
            refine ⟨c :: a', b', fun B hB => ?_⟩
            have e : c :: r ++ B ++ b = c :: (r ++ (B ++ b)) := by simp
            rw [e, pairColour_cons, if_pos hc, findClose_append, hf]
            simp only
            rw [findClose_append, findClose_notin q B hB]
            simp only [hfb, Option.map_none]
            have := hab B hB
            simp only [List.append_assoc] at this
            rw [this]
            simp
      · obtain ⟨a', b', hab⟩ := ih r (by omega)
        refine ⟨c :: a', b', fun B hB => ?_⟩
        have e : c :: r ++ B ++ b = c :: (r ++ (B ++ b)) := by simp
        rw [e, pairColour_cons, if_neg hc]
        have := hab B hB
        simp only [List.append_assoc] at this
        rw [this]
        simp



/-! ## `str.strip` -/

theorem dropWhile_append_head (p : Char → Bool) (x : Char) (t : Str) (hx : p x = false) :
    ∀ a : Str, (a ++ x :: t).dropWhile p = a.dropWhile p ++ x :: t := by
  intro a
  induction a with
  | nil => simp [hx]
  | cons c r ih =>
    by_cases hc : p c = true
    · simp [hc, ih]
    · simp [hc]

/-- A run that starts and ends with a non-blank character survives `strip` together with
everything around it except the outer white space. -/
theorem strip_barrier (a b : Str) : ∃ a' b', ∀ (x y : Char) (m : Str), isSpace x = false → isSpace y = false →
    (strip (a ++ (x :: m ++ [y]) ++ b) = a' ++ (x :: m ++ [y]) ++ b') ∧
    (strip (a ++ [x] ++ b) = a' ++ [x] ++ b') := by
  refine ⟨a.dropWhile isSpace, (b.reverse.dropWhile isSpace).reverse, fun x y m hx hy => ⟨?_, ?_⟩⟩
  · have h1 : (a ++ (x :: m ++ [y]) ++ b).dropWhile isSpace = a.dropWhile isSpace ++ x :: (m ++ [y] ++ b) := by
      have := dropWhile_append_head isSpace x (m ++ [y] ++ b) hx a
      simpa [List.append_assoc] using this
    have h2 : (a.dropWhile isSpace ++ x :: (m ++ [y] ++ b)).reverse =
        b.reverse ++ y :: (m.reverse ++ x :: (a.dropWhile isSpace).reverse) := by
      simp [List.reverse_append, List.append_assoc]
    simp only [strip, h1, h2, dropWhile_append_head isSpace y _ hy]
    simp [List.reverse_append, List.append_assoc]
  · have h1 : (a ++ [x] ++ b).dropWhile isSpace = a.dropWhile isSpace ++ x :: b := by
      have := dropWhile_append_head isSpace x b hx a
      simpa [List.append_assoc] using this
    have h2 : (a.dropWhile isSpace ++ x :: b).reverse = b.reverse ++ x :: (a.dropWhile isSpace).reverse := by
      simp [List.reverse_append, List.append_assoc]
    simp only [strip, h1, h2, dropWhile_append_head isSpace x _ hx]
    simp [List.reverse_append, List.append_assoc]

/-! ## the last field -/

theorem last_sep (sep : Char) : ∀ s : Str, sep ∉ s ∨ ∃ p t, s = p ++ sep :: t ∧ sep ∉ t := by
  intro s
  induction s with
  | nil => left; simp
  | cons c r ih =>
    rcases ih with h | ⟨p, t, hs, ht⟩
    · by_cases hc : c = sep
      · right; exact ⟨[], r, by simp [hc], h⟩
      · left; intro hm
        rcases List.mem_cons.mp hm with e | e
        · exact hc e.symm
        · exact h e
    · right; exact ⟨c :: p, t, by simp [hs], ht⟩

theorem splitOn_notin (sep : Char) : ∀ t : Str, sep ∉ t → splitOn sep t = [t] := by
  intro t
  induction t with
  | nil => intro _; rfl
  | cons c r ih =>
    intro h
    have hc : c ≠ sep := fun e => h (by simp [e])
    have hr : sep ∉ r := fun hm => h (List.mem_cons_of_mem _ hm)
    simp [splitOn, hc, ih hr]

/-- What `sanitize_record`'s plain branch does with the fields: all but the last are kept, the last
is rewritten by `f`. -/
def mapLast (f : Str → Str) (s : Str) : Str :=
  let parts := splitOn '|' s
  joinWith '|' (parts.dropLast ++ [f (parts.getLast?.getD [])])

theorem mapLast_nosep (f : Str → Str) (s : Str) (h : '|' ∉ s) : mapLast f s = f s := by
  simp [mapLast, splitOn_notin '|' s h, joinWith]

theorem mapLast_sep (f : Str → Str) (p t : Str) (h : '|' ∉ t) : mapLast f (p ++ '|' :: t) = p ++ '|' :: f t := by
  simp only [mapLast, splitOn_append, splitOn_notin '|' t h]
  have hne := splitOn_ne_nil '|' p
  have h1 : (splitOn '|' p ++ [t]).dropLast = splitOn '|' p := by simp
  have h2 : (splitOn '|' p ++ [t]).getLast?.getD [] = t := by simp
  rw [h1, h2, joinWith_append '|' _ _ hne (by simp), join_splitOn]
  rfl


/-! ## two texts that differ only in a barrier -/

/-- `s₁` and `s₂` are the same text around the runs `B₁` resp. `B₂`. -/
def Sim (B₁ B₂ s₁ s₂ : Str) : Prop := ∃ a b, s₁ = a ++ B₁ ++ b ∧ s₂ = a ++ B₂ ++ b

theorem Sim.wrap {B₁ B₂ s₁ s₂ : Str} (x y : Str) (h : Sim B₁ B₂ s₁ s₂) : Sim B₁ B₂ (x ++ s₁ ++ y) (x ++ s₂ ++ y) := by
  obtain ⟨a, b, h1, h2⟩ := h
  exact ⟨x ++ a, b ++ y, by simp [h1, List.append_assoc], by simp [h2, List.append_assoc]⟩

theorem replaceAll_sim (pat rep : Str) {B₁ B₂ s₁ s₂ : Str} (h₁ : Barrier pat B₁) (h₂ : Barrier pat B₂)
    (n₁ : B₁ ≠ []) (n₂ : B₂ ≠ []) (h : Sim B₁ B₂ s₁ s₂) :
    Sim B₁ B₂ (replaceAll pat rep s₁) (replaceAll pat rep s₂) := by
  obtain ⟨a, b, e1, e2⟩ := h
  exact ⟨replaceAll pat rep a, replaceAll pat rep b,
    by rw [e1, replaceAll_barrier pat rep a B₁ b h₁ n₁], by rw [e2, replaceAll_barrier pat rep a B₂ b h₂ n₂]⟩

theorem colorCodeWith_sim {B₁ B₂ : Str} (n₁ : B₁ ≠ []) (n₂ : B₂ ≠ []) :
    ∀ (table : List (Str × Str)), (∀ kv ∈ table, Barrier kv.1 B₁ ∧ Barrier kv.1 B₂) →
    ∀ s₁ s₂, Sim B₁ B₂ s₁ s₂ → Sim B₁ B₂ (colorCodeWith table s₁) (colorCodeWith table s₂) := by
  intro table
  induction table with
  | nil => intro _ s₁ s₂ h; exact h
  | cons kv rest ih =>
    intro ht s₁ s₂ h
    obtain ⟨k, v⟩ := kv
    have hk := ht (k, v) (by simp)
    have hrest := fun kv hm => ht kv (List.mem_cons_of_mem _ hm)
    obtain ⟨a, b, e1, e2⟩ := h
    cases k with
    | nil =>
      -- the empty pattern is "in" every text; `replaceAll` leaves the text alone
      have t1 : isInfix [] s₁ = true := by cases s₁ <;> simp [isInfix, stripPrefix]
      have t2 : isInfix [] s₂ = true := by cases s₂ <;> simp [isInfix, stripPrefix]
      simp only [colorCodeWith, t1, t2, if_true]
      exact replaceAll_sim [] v hk.1 hk.2 n₁ n₂ ⟨a, b, e1, e2⟩
    | cons p ps =>
      have i1 := isInfix_barrier p ps B₁ b hk.1 n₁ a
      have i2 := isInfix_barrier p ps B₂ b hk.2 n₂ a
      simp only [colorCodeWith]
      rw [e1, e2, i1, i2]
      by_cases hc : (isInfix (p :: ps) a || isInfix (p :: ps) b) = true
      · simp only [hc, if_true]
        exact replaceAll_sim (p :: ps) v hk.1 hk.2 n₁ n₂ ⟨a, b, rfl, rfl⟩
      · simp only [hc]
        exact ih hrest _ _ ⟨a, b, rfl, rfl⟩

theorem foldl_replaceAll_sim {B₁ B₂ : Str} (n₁ : B₁ ≠ []) (n₂ : B₂ ≠ []) (can : Bool) :
    ∀ (table : List (Str × Str)), (∀ kv ∈ table, Barrier kv.1 B₁ ∧ Barrier kv.1 B₂) →
    ∀ s₁ s₂, Sim B₁ B₂ s₁ s₂ →
      Sim B₁ B₂ (table.foldl (fun acc (kv : Str × Str) => replaceAll kv.1 (if can then kv.2 else []) acc) s₁)
        (table.foldl (fun acc (kv : Str × Str) => replaceAll kv.1 (if can then kv.2 else []) acc) s₂) := by
  intro table
  induction table with
  | nil => intro _ s₁ s₂ h; exact h
  | cons kv rest ih =>
    intro ht s₁ s₂ h
    have hk := ht kv (by simp)
    simp only [List.foldl_cons]
    exact ih (fun kv hm => ht kv (List.mem_cons_of_mem _ hm)) _ _ (replaceAll_sim kv.1 _ hk.1 hk.2 n₁ n₂ h)

theorem colorizer_eq (can : Bool) (s : Str) :
    colorizer can s = Gen.Sanitise.displayColors.foldl
      (fun acc (kv : Str × Str) => replaceAll kv.1 (if can then kv.2 else []) acc)
      (replaceAll ['\\', 'u', '0', '0', '0', '1'] [Char.ofNat 1] s) := rfl

theorem colorizer_sim {B₁ B₂ : Str} (n₁ : B₁ ≠ []) (n₂ : B₂ ≠ []) (can : Bool)
    (hu : Barrier ['\\', 'u', '0', '0', '0', '1'] B₁ ∧ Barrier ['\\', 'u', '0', '0', '0', '1'] B₂)
    (ht : ∀ kv ∈ Gen.Sanitise.displayColors, Barrier kv.1 B₁ ∧ Barrier kv.1 B₂)
    {s₁ s₂ : Str} (h : Sim B₁ B₂ s₁ s₂) : Sim B₁ B₂ (colorizer can s₁) (colorizer can s₂) := by
  rw [colorizer_eq, colorizer_eq]
  exact foldl_replaceAll_sim n₁ n₂ can _ ht _ _ (replaceAll_sim _ _ hu.1 hu.2 n₁ n₂ h)

theorem pairColour_sim (q q' : Char) {B₁ B₂ s₁ s₂ : Str} (h₁ : q ∉ B₁) (h₂ : q ∉ B₂) (h : Sim B₁ B₂ s₁ s₂) :
    Sim B₁ B₂ (pairColour q q' s₁) (pairColour q q' s₂) := by
  obtain ⟨a, b, e1, e2⟩ := h
  obtain ⟨a', b', hab⟩ := pairColour_barrier q q' b a.length a (Nat.le_refl _)
  exact ⟨a', b', by rw [e1, hab B₁ h₁], by rw [e2, hab B₂ h₂]⟩


open Gen.Sanitise

/-! ## the `://user-info@` of a URL is a barrier for every stage of the plain-text branch -/

/-- The characters a URL core is made of. -/
def coreCharB (x : Char) : Bool := x == ':' || x == '/' || x == '@' || urlSafeChar x

theorem urlCore_shape (u : Str) : urlCore u = ':' :: (('/' :: '/' :: u) ++ ['@']) := by
  simp [urlCore, urlOpen, urlClose]

theorem urlCore_chars (u : Str) (hu : UrlSafe u) : ∀ x ∈ urlCore u, coreCharB x = true := by
  intro x hx
  rw [urlCore_shape] at hx
  simp only [List.mem_cons, List.mem_append, List.not_mem_nil, or_false] at hx
  rcases hx with e | (e | e | e) | e
  · subst e; decide
  · subst e; decide
  · subst e; decide
  · simp [coreCharB, hu x e]
  · subst e; decide

theorem urlCore_ne_nil (u : Str) : urlCore u ≠ [] := by rw [urlCore_shape]; simp

theorem notin_urlCore (u : Str) (hu : UrlSafe u) (q : Char) (hq : coreCharB q = false) : q ∉ urlCore u := by
  intro hm
  have := urlCore_chars u hu q hm
  rw [hq] at this; cases this

/-- A pattern whose first character cannot occur in a URL core and which contains no `:`. -/
def patOK (k : Str) : Bool :=
  match k with
  | [] => true
  | p :: _ => !coreCharB p && !k.contains ':'

theorem barrier_of_patOK (k u : Str) (hk : patOK k = true) (hu : UrlSafe u) : Barrier k (urlCore u) := by
  constructor
  · intro p ps hp x hx
    subst hp
    simp only [patOK, Bool.and_eq_true, Bool.not_eq_true'] at hk
    intro e
    have := urlCore_chars u hu x hx
    rw [e, hk.1] at this; cases this
  · intro b bs hb
    rw [urlCore_shape] at hb
    simp only [List.cons.injEq] at hb
    rw [← hb.1]
    cases k with
    | nil => simp
    | cons p ps =>
      simp only [patOK, Bool.and_eq_true, Bool.not_eq_true'] at hk
      intro hm
      have : (p :: ps).contains ':' = true := by simpa using hm
      rw [this] at hk; cases hk.2

theorem exchanges_ok : colorExchanges.all (fun kv => patOK kv.1) = true := by decide
theorem colors_ok : displayColors.all (fun kv => patOK kv.1) = true := by decide
theorem uliteral_ok : patOK ['\\', 'u', '0', '0', '0', '1'] = true := by decide

theorem table_barriers (table : List (Str × Str)) (ht : table.all (fun kv => patOK kv.1) = true)
    (u₁ u₂ : Str) (h₁ : UrlSafe u₁) (h₂ : UrlSafe u₂) :
    ∀ kv ∈ table, Barrier kv.1 (urlCore u₁) ∧ Barrier kv.1 (urlCore u₂) := by
  intro kv hm
  have := List.all_eq_true.mp ht kv hm
  exact ⟨barrier_of_patOK _ _ this h₁, barrier_of_patOK _ _ this h₂⟩

theorem strip_sim (u₁ u₂ : Str) {s₁ s₂ : Str} (h : Sim (urlCore u₁) (urlCore u₂) s₁ s₂) :
    Sim (urlCore u₁) (urlCore u₂) (strip s₁) (strip s₂) := by
  obtain ⟨a, b, e1, e2⟩ := h
  obtain ⟨a', b', hab⟩ := strip_barrier a b
  refine ⟨a', b', ?_, ?_⟩
  · rw [e1, urlCore_shape]; exact (hab ':' '@' _ (by decide) (by decide)).1
  · rw [e2, urlCore_shape]; exact (hab ':' '@' _ (by decide) (by decide)).1

/-- The rewriting of the last field in the plain-text branch (l.160-163). -/
def plainLast (last : Str) : Str :=
  ' ' :: (strip (pairColour '"' '\'' (pairColour '\'' '\'' (pairColour '`' '`' last))) ++ [' ', '*'])

theorem renderPlain_eq (can : Bool) (record : Str) :
    renderPlain can record = colorizer can (mapLast plainLast (colorCode can record)) := rfl

theorem plainLast_sim (u₁ u₂ : Str) (h₁ : UrlSafe u₁) (h₂ : UrlSafe u₂) {s₁ s₂ : Str}
    (h : Sim (urlCore u₁) (urlCore u₂) s₁ s₂) :
    Sim (urlCore u₁) (urlCore u₂) (plainLast s₁) (plainLast s₂) := by
  have q1 := pairColour_sim '`' '`' (notin_urlCore u₁ h₁ '`' (by decide)) (notin_urlCore u₂ h₂ '`' (by decide)) h
  have q2 := pairColour_sim '\'' '\'' (notin_urlCore u₁ h₁ '\'' (by decide)) (notin_urlCore u₂ h₂ '\'' (by decide)) q1
  have q3 := pairColour_sim '"' '\'' (notin_urlCore u₁ h₁ '"' (by decide)) (notin_urlCore u₂ h₂ '"' (by decide)) q2
  have q4 := strip_sim u₁ u₂ q3
  have := Sim.wrap [' '] [' ', '*'] q4
  simpa [plainLast] using this

theorem mapLast_sim (f : Str → Str) {B₁ B₂ : Str} (n₁ : '|' ∉ B₁) (n₂ : '|' ∉ B₂)
    (hf : ∀ s₁ s₂, Sim B₁ B₂ s₁ s₂ → Sim B₁ B₂ (f s₁) (f s₂)) {s₁ s₂ : Str} (h : Sim B₁ B₂ s₁ s₂) :
    Sim B₁ B₂ (mapLast f s₁) (mapLast f s₂) := by
  obtain ⟨a, b, e1, e2⟩ := h
  have notin3 : ∀ (x B y : Str), '|' ∉ x → '|' ∉ B → '|' ∉ y → '|' ∉ x ++ B ++ y := by
    intro x B y hx hB hy hm
    simp only [List.mem_append] at hm
    rcases hm with (hm | hm) | hm
    · exact hx hm
    · exact hB hm
    · exact hy hm
  rcases last_sep '|' b with hb | ⟨p, t, hb, ht⟩
  · rcases last_sep '|' a with ha | ⟨p, t, ha, ht⟩
    · rw [e1, e2, mapLast_nosep f _ (notin3 a B₁ b ha n₁ hb), mapLast_nosep f _ (notin3 a B₂ b ha n₂ hb)]
      exact hf _ _ ⟨a, b, rfl, rfl⟩
    · have x1 : s₁ = p ++ '|' :: (t ++ B₁ ++ b) := by rw [e1, ha]; simp [List.append_assoc]
      have x2 : s₂ = p ++ '|' :: (t ++ B₂ ++ b) := by rw [e2, ha]; simp [List.append_assoc]
      rw [x1, x2, mapLast_sep f p _ (notin3 t B₁ b ht n₁ hb), mapLast_sep f p _ (notin3 t B₂ b ht n₂ hb)]
      have := Sim.wrap (p ++ ['|']) [] (hf _ _ ⟨t, b, rfl, rfl⟩)
      simpa [List.append_assoc] using this
  · have x1 : s₁ = (a ++ B₁ ++ p) ++ '|' :: t := by rw [e1, hb]; simp [List.append_assoc]
    have x2 : s₂ = (a ++ B₂ ++ p) ++ '|' :: t := by rw [e2, hb]; simp [List.append_assoc]
    rw [x1, x2, mapLast_sep f _ t ht, mapLast_sep f _ t ht]
    exact ⟨a, p ++ '|' :: f t, by simp [List.append_assoc], by simp [List.append_assoc]⟩

/-- The whole plain-text branch rewrites the record around a URL core without looking at it. -/
theorem renderPlain_sim (can : Bool) (u₁ u₂ : Str) (h₁ : UrlSafe u₁) (h₂ : UrlSafe u₂) {r₁ r₂ : Str}
    (h : Sim (urlCore u₁) (urlCore u₂) r₁ r₂) :
    Sim (urlCore u₁) (urlCore u₂) (renderPlain can r₁) (renderPlain can r₂) := by
  have n₁ := urlCore_ne_nil u₁
  have n₂ := urlCore_ne_nil u₂
  rw [renderPlain_eq, renderPlain_eq]
  have s1 : Sim (urlCore u₁) (urlCore u₂) (colorCode can r₁) (colorCode can r₂) := by
    cases can with
    | false => exact h
    | true => exact colorCodeWith_sim n₁ n₂ _ (table_barriers _ exchanges_ok u₁ u₂ h₁ h₂) _ _ h
  have s2 := mapLast_sim plainLast (notin_urlCore u₁ h₁ '|' (by decide)) (notin_urlCore u₂ h₂ '|' (by decide))
    (fun _ _ hs => plainLast_sim u₁ u₂ h₁ h₂ hs) s1
  exact colorizer_sim n₁ n₂ can
    ⟨barrier_of_patOK _ _ uliteral_ok h₁, barrier_of_patOK _ _ uliteral_ok h₂⟩
    (table_barriers _ colors_ok u₁ u₂ h₁ h₂) s2

theorem cleanRun_of_urlSafe (u : Str) (hu : UrlSafe u) : cleanRun urlClose u = true := by
  simp only [cleanRun, List.all_eq_true, Bool.and_eq_true, bne_iff_ne, ne_eq]
  intro x hx
  have hs := hu x hx
  constructor
  · intro e; rw [e] at hs; revert hs; decide
  · intro e; rw [e] at hs; revert hs; decide


/-! ## the JSON branch: what `sanitize` computes, and tokens through the colouriser -/

/-- `sanitize` written out for a loop that starts at the first field. -/
theorem sanitize_from_first (h0 : Gen.Sanitise.isolateStart = 0) (h : Json → Str) (can : Bool)
    (parse : Str → Option (List (Str × Json))) (record : Str) :
    sanitize h can parse record =
      match isolate parse [] (splitOn '|' record) with
      | some (head, d) => renderJson h can head d
      | none => renderPlain can record := by
  simp only [sanitize, h0, List.take_zero, List.drop_zero]
  rfl

theorem sanitize_json (hg : GuardOK) (h0 : Gen.Sanitise.isolateStart = 0) (h : Json → Str) (can : Bool)
    (parse : Str → Option (List (Str × Json)))
    (header j : Str) (d : List (Str × Json)) (hj : parse j = some d) (ho : firstNonSpace j = some '{')
    (hno : ∀ fs, fs ≠ [] → fs <:+ splitOn '|' header → parse (joinWith '|' (fs ++ splitOn '|' j)) = none) :
    sanitize h can parse (header ++ '|' :: j) = renderJson h can (splitOn '|' header) d := by
  simp only [sanitize_from_first h0, splitOn_append, isolate_message hg parse _ j d hj ho hno]

theorem joinWith_infix (sep : Char) : ∀ (xs : List Str) (x : Str), x ∈ xs → x <:+: joinWith sep xs := by
  intro xs
  induction xs with
  | nil => intro x h; cases h
  | cons y ys ih =>
    intro x h
    cases ys with
    | nil =>
      simp only [List.mem_singleton] at h
      subst h; exact List.infix_refl _
    | cons z zs =>
      simp only [joinWith]
      rcases List.mem_cons.mp h with e | h'
      · subst e; exact (List.prefix_append _ _).isInfix
      · exact List.infix_append_of_infix_right (List.infix_cons_iff.mpr (Or.inr (ih x h')))

theorem color_heads_not_plain :
    displayColors.all (fun kv => match kv.1 with | [] => true | p :: _ => !plainChar p) = true := by decide

/-- A token of letters and digits whose first character occurs in no colour pattern is a barrier
for every pattern of the colouriser. -/
theorem token_barriers (c0 : Char) (t' : Str) (hp : ∀ a ∈ c0 :: t', plainChar a = true) (hh : tokenHeadOK c0 = true) :
    Barrier ['\\', 'u', '0', '0', '0', '1'] (c0 :: t') ∧
    ∀ kv ∈ displayColors, Barrier kv.1 (c0 :: t') := by
  simp only [tokenHeadOK, Bool.and_eq_true, Bool.not_eq_true'] at hh
  constructor
  · constructor
    · intro p ps hk x hx e
      simp only [List.cons.injEq] at hk
      have := hp x hx
      rw [e, ← hk.1] at this; revert this; decide
    · intro b bs hb
      simp only [List.cons.injEq] at hb
      rw [← hb.1]
      intro hm
      have : ['\\', 'u', '0', '0', '0', '1'].contains c0 = true := by simpa using hm
      rw [this] at hh; cases hh.1
  · intro kv hm
    constructor
    · intro p ps hk x hx e
      have := List.all_eq_true.mp color_heads_not_plain kv hm
      rw [hk] at this
      simp only [Bool.not_eq_true'] at this
      have hx' := hp x hx
      rw [e, this] at hx'; cases hx'
    · intro b bs hb
      simp only [List.cons.injEq] at hb
      rw [← hb.1]
      intro hm'
      have := List.all_eq_true.mp hh.2 kv hm
      simp only [Bool.not_eq_true'] at this
      have h2 : kv.1.contains c0 = true := by simpa using hm'
      rw [h2] at this; cases this

theorem colorizer_token (can : Bool) (c0 : Char) (t' s : Str) (hp : ∀ a ∈ c0 :: t', plainChar a = true)
    (hh : tokenHeadOK c0 = true) (h : c0 :: t' <:+: s) : c0 :: t' <:+: colorizer can s := by
  obtain ⟨a, b, e⟩ := h
  have hb := token_barriers c0 t' hp hh
  have : Sim (c0 :: t') (c0 :: t') s s := ⟨a, b, e.symm, e.symm⟩
  obtain ⟨a', b', e1, _⟩ := colorizer_sim (by simp) (by simp) can ⟨hb.1, hb.1⟩ (fun kv hm => ⟨hb.2 kv hm, hb.2 kv hm⟩) this
  exact ⟨a', b', e1.symm⟩

/-! ## `template % args` (round 4) -/

/-- an ordinary character of the template is copied -/
theorem pctFormat_cons_ne (c : Char) (r : Str) (as : List Str) (hc : c ≠ '%') :
    pctFormat (c :: r) as = (pctFormat r as).map (c :: ·) := by
  rw [pctFormat.eq_def]; simp [hc]

/-- `%s` consumes one argument -/
theorem pctFormat_s (r : Str) (a : Str) (as : List Str) :
    pctFormat ('%' :: 's' :: r) (a :: as) = (pctFormat r as).map (a ++ ·) := by
  rw [pctFormat.eq_def]; simp

/-- a template without `%` and no arguments is returned as it is -/
theorem pctFormat_plain (t : Str) (ht : '%' ∉ t) : pctFormat t [] = some t := by
  induction t with
  | nil => rw [pctFormat.eq_def]; simp
  | cons c t ih =>
    have hc : c ≠ '%' := fun e => ht (by simp [e])
    have ht' : '%' ∉ t := fun m => ht (List.mem_cons_of_mem _ m)
    rw [pctFormat_cons_ne c t [] hc, ih ht']; rfl

end Sanitise
