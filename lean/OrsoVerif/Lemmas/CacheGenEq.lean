import OrsoVerif.Lemmas.CacheGen
/-! The generated wrappers are the hand-written statement-level machines (lawful equality), and
several wrappers with their own cache cells do not interfere. -/
set_option linter.unusedSectionVars false
set_option linter.unusedSimpArgs false
set_option linter.unusedVariables false
namespace Cache
open Gen.CacheFns

section Eq0
variable {α β : Type} [DecidableEq α] [DecidableEq β]

/-- the single entry as the four slots of the generated wrapper -/
def encS : Option (SEntry (α × β)) → Option α × Option β × Option Nat × Int
  | none => (none, none, none, 0)
  | some e => (some e.key.1, some e.key.2, some e.res, e.time)

theorem some_beq_some_decide {γ : Type} [DecidableEq γ] (x y : γ) : (some x == some y) = decide (x = y) := by
  by_cases h : x = y <;> simp [h]

theorem single_wrapper_eq_singleCall (cost : α × β → Int) (valid : Option Int) (s : SState (α × β)) (a : α) (b : β) :
    single_wrapper cost valid a b (encS s.entry) { now := s.now, log := s.log } =
      (some (singleCall valid cost s (a, b)).2.ret, encS (singleCall valid cost s (a, b)).1.entry,
        { now := (singleCall valid cost s (a, b)).1.now, log := (singleCall valid cost s (a, b)).1.log }) := by
  cases he : s.entry with
  | none =>
    have hx : ((none : Option α) == some a) = false := rfl
    have hy : ((none : Option β) == some b) = false := rfl
    unfold single_wrapper
    simp only [encS, FnWorld.time, FnWorld.call]
    rcases Bool.eq_false_or_eq_true (leInf (s.now - 0) valid) with ht | ht <;>
      decide_tests hx hy ht <;> simp [singleCall, he, singleMiss, encS]
  | some e =>
    obtain ⟨⟨ka, kb⟩, res, tm⟩ := e
    unfold single_wrapper
    simp only [encS, FnWorld.time, FnWorld.call]
    have hx := some_beq_some_decide ka a
    have hy := some_beq_some_decide kb b
    have ht := leInf_eq_fresh valid s.now tm
    by_cases h1 : ka = a <;> by_cases h2 : kb = b <;>
    rcases Bool.eq_false_or_eq_true (fresh valid s.now tm) with h3 | h3 <;>
      simp only [h1, h2, h3, decide_true, decide_false] at hx hy ht <;>
      decide_tests hx hy ht <;> simp [singleCall, he, h1, h2, h3, singleMiss, encS]

variable [Hashable α] [Hashable β]

theorem keyMatch_eq (k1 k2 : α × β) : PyOD.keyMatch k1 k2 = decide (k1 = k2) := by
  by_cases h : k1 = k2
  · subst h; simp [PyOD.keyMatch]
  · simp [PyOD.keyMatch, h]

/-- the list of entries as the OrderedDict of the generated wrapper -/
def encL (c : List (LEntry (α × β))) : PyOD (α × β) (Int × Nat) := c.map (fun e => (e.key, (e.time, e.res)))

theorem encL_delKey (c : List (LEntry (α × β))) (k : α × β) : PyOD.delitem (encL c) k = encL (delKey c k) := by
  simp only [PyOD.delitem, encL, delKey, List.filter_map]
  congr 1
  apply List.filter_congr
  intro e _
  simp [keyMatch_eq]

theorem encL_foldl (ks : List (α × β)) : ∀ c : List (LEntry (α × β)),
    ks.foldl (fun c k => PyOD.delitem c k) (encL c) = encL (ks.foldl delKey c) := by
  induction ks with
  | nil => intro c; rfl
  | cons k ks ih => intro c; simp only [List.foldl_cons, encL_delKey, ih]

theorem encL_expired (valid : Option Int) (now : Int) (c : List (LEntry (α × β))) :
    gExpired valid now (encL c) = expiredKeys valid now c := by
  simp only [gExpired, encL, expiredKeys, List.filter_map, List.map_map]
  congr 1
  apply List.filter_congr
  intro e _
  simp [gtInf_eq_not_fresh]

theorem encL_find (c : List (LEntry (α × β))) (k : α × β) :
    (encL c).find? (fun e => PyOD.keyMatch e.1 k) = (c.find? (fun e => decide (e.key = k))).map (fun e => (e.key, (e.time, e.res))) := by
  have : (fun e : (α × β) × Int × Nat => PyOD.keyMatch e.1 k) = (fun e => decide (e.1 = k)) := by
    funext e; exact keyMatch_eq _ _
  rw [this, encL, List.find?_map]
  rfl

omit [DecidableEq α] [DecidableEq β] in
theorem contains_eq_find [BEq α] [BEq β] (c : PyOD (α × β) (Int × Nat)) (k : α × β) :
    PyOD.contains c k = (c.find? (fun e => PyOD.keyMatch e.1 k)).isSome := by
  induction c with
  | nil => rfl
  | cons x xs ih =>
    simp only [PyOD.contains, List.any_cons, List.find?_cons] at ih ⊢
    cases h : PyOD.keyMatch x.1 k <;> simp [ih]

theorem lru_wrapper_eq_lruCall (cost : α × β → Int) (maxSize : Nat) (valid : Option Int) (s : LState (α × β)) (a : α) (b : β) :
    lru_wrapper cost maxSize valid a b (encL s.cache) { now := s.now, log := s.log } =
      (some (lruCall maxSize valid cost s (a, b)).2.ret, encL (lruCall maxSize valid cost s (a, b)).1.cache,
        { now := (lruCall maxSize valid cost s (a, b)).1.now, log := (lruCall maxSize valid cost s (a, b)).1.log }) := by
  unfold lru_wrapper lruCall
  simp only [FnWorld.time, FnWorld.call, gExpired_eq, encL_expired, encL_foldl]
  have hsw : (expiredKeys valid s.now s.cache).foldl delKey s.cache = sweep valid s.now s.cache := rfl
  rw [hsw]
  generalize sweep valid s.now s.cache = c1
  have hcont : PyOD.contains (encL c1) (a, b) = (c1.find? (fun e => decide (e.key = (a, b)))).isSome := by
    rw [contains_eq_find, encL_find, Option.isSome_map]
  cases hf : c1.find? (fun e => decide (e.key = (a, b))) with
  | some e =>
    have hk : e.key = (a, b) := by simpa using List.find?_some hf
    have hfe := encL_find c1 (a, b)
    rw [hf] at hfe
    have hc : PyOD.contains (encL c1) (a, b) = true := by rw [hcont, hf]; rfl
    simp only [hc, Bool.not_true, Bool.false_eq_true, ↓reduceIte, PyOD.move_to_end, hfe, Option.map_some, PyOD.getitem, List.find?_append,
      find?_filter_not (fun e => PyOD.keyMatch e.1 (a, b)) (encL c1)]
    simp only [List.find?, keyMatch_eq, hk, decide_true, Option.none_or, Option.map_some]
    have := encL_delKey c1 (a, b)
    simp only [PyOD.delitem] at this
    simp only [keyMatch_eq] at this ⊢
    rw [this]
    simp [encL, hk]
  | none =>
    have hc : PyOD.contains (encL c1) (a, b) = false := by rw [hcont, hf]; rfl
    simp only [hc, Bool.not_false, Bool.false_eq_true, ↓reduceIte, PyOD.setitem]
    have hlen : PyOD.len (encL c1 ++ [((a, b), s.now, s.log.length)]) = (c1 ++ [({ key := (a, b), time := s.now, res := s.log.length } : LEntry (α × β))]).length := by
      simp [PyOD.len, encL]
    rw [hlen]
    by_cases hgt : (c1 ++ [({ key := (a, b), time := s.now, res := s.log.length } : LEntry (α × β))]).length > maxSize
    · simp only [hgt, ↓reduceIte, PyOD.popitem, Bool.false_eq_true]
      simp [encL, List.map_tail]
    · simp only [hgt, ↓reduceIte]
      simp [encL]

end Eq0

section Eq
variable {α β : Type} [DecidableEq α] [DecidableEq β] [Hashable α] [Hashable β]

/-- an event of the hand-written machines as an event of the generated wrappers -/
def gev {κ : Type} (e : Ev κ) : GEv κ := { key := e.key, now := e.now, ret := some e.ret }

omit [Hashable α] [Hashable β] in
theorem singleCall_ev (cost : α × β → Int) (valid : Option Int) (s : SState (α × β)) (k : α × β) :
    (singleCall valid cost s k).2.key = k ∧ (singleCall valid cost s k).2.now = s.now := by
  unfold singleCall singleMiss
  cases s.entry with
  | none => exact ⟨rfl, rfl⟩
  | some e => by_cases h : e.key = k ∧ fresh valid s.now e.time = true <;> simp [h]

theorem lruCall_ev (cost : α × β → Int) (maxSize : Nat) (valid : Option Int) (s : LState (α × β)) (k : α × β) :
    (lruCall maxSize valid cost s k).2.key = k ∧ (lruCall maxSize valid cost s k).2.now = s.now := by
  unfold lruCall
  simp only
  cases (sweep valid s.now s.cache).find? (fun e => decide (e.key = k)) <;> exact ⟨rfl, rfl⟩

omit [Hashable α] [Hashable β] in
theorem gSingleRun_eq (cost : α × β → Int) (valid : Option Int) (ops : List (Op (α × β))) : ∀ s : SState (α × β),
    gSingleRun cost valid (encS s.entry) { now := s.now, log := s.log } ops =
      ((encS (singleRun valid cost s ops).1.entry, { now := (singleRun valid cost s ops).1.now, log := (singleRun valid cost s ops).1.log }),
        (singleRun valid cost s ops).2.map gev) := by
  induction ops with
  | nil => intro s; rfl
  | cons op ops ih =>
    intro s
    cases op with
    | advance d => simp only [gSingleRun, singleRun]; exact ih { s with now := s.now + d }
    | call k =>
      obtain ⟨a, b⟩ := k
      simp only [gSingleRun, singleRun, single_wrapper_eq_singleCall, ih, List.map_cons]
      have := singleCall_ev cost valid s (a, b)
      simp only [gev, this.1, this.2]

theorem gLruRun_eq (cost : α × β → Int) (maxSize : Nat) (valid : Option Int) (ops : List (Op (α × β))) : ∀ s : LState (α × β),
    gLruRun cost maxSize valid (encL s.cache) { now := s.now, log := s.log } ops =
      ((encL (lruRun maxSize valid cost s ops).1.cache, { now := (lruRun maxSize valid cost s ops).1.now, log := (lruRun maxSize valid cost s ops).1.log }),
        (lruRun maxSize valid cost s ops).2.map gev) := by
  induction ops with
  | nil => intro s; rfl
  | cons op ops ih =>
    intro s
    cases op with
    | advance d => simp only [gLruRun, lruRun]; exact ih { s with now := s.now + d }
    | call k =>
      obtain ⟨a, b⟩ := k
      simp only [gLruRun, lruRun, lru_wrapper_eq_lruCall, ih, List.map_cons]
      have := lruCall_ev cost maxSize valid s (a, b)
      simp only [gev, this.1, this.2]

end Eq

/-! ## several wrappers -/

section Multi
variable {K : Type} [DecidableEq K] {σ : Type}

theorem upd_same {τ : Type} (f : Nat → τ) (i : Nat) (v : τ) : upd f i v i = v := by simp [upd]
theorem upd_other {τ : Type} (f : Nat → τ) (i j : Nat) (v : τ) (h : j ≠ i) : upd f i v j = f j := by simp [upd, h]

/-- With one cell per wrapper, wrapper `j` sees exactly what it would see alone: its events in a run on several
wrappers are the events of the machine run alone on `j`'s own calls (other wrappers' calls are clock advances), and
cell `j` / log `j` end as they end alone. -/
theorem multiRun_independent (M : Mach σ K) (j : Nat) (ops : List (AOp K)) : ∀ s : MState σ K,
    ((multiRun M false s ops).2.filter (fun p => p.1 = j)).map (·.2) =
      (machRun M (s.cells j) s.now (s.logs j) (projOps M false j s ops)).2 ∧
    ((multiRun M false s ops).1.cells j, (multiRun M false s ops).1.logs j) =
      ((machRun M (s.cells j) s.now (s.logs j) (projOps M false j s ops)).1.1,
       (machRun M (s.cells j) s.now (s.logs j) (projOps M false j s ops)).1.2.2) := by
  induction ops with
  | nil => intro s; simp [multiRun, projOps, machRun]
  | cons op ops ih =>
    intro s
    cases op with
    | advance d =>
      simp only [multiRun, projOps, machRun]
      exact ih { s with now := s.now + d }
    | call j' k =>
      simp only [multiRun, projOps, cellOf, Bool.false_eq_true, ↓reduceIte]
      by_cases hj : j' = j
      · subst hj
        simp only [↓reduceIte, machRun, List.filter_cons, decide_true, List.map_cons]
        have := ih { cells := upd s.cells j' (M.call (s.cells j') s.now (s.logs j') k).1.1,
                     now := (M.call (s.cells j') s.now (s.logs j') k).1.2.1,
                     logs := upd s.logs j' (M.call (s.cells j') s.now (s.logs j') k).1.2.2 }
        simp only [upd_same] at this
        exact ⟨by rw [this.1], this.2⟩
      · have hne : j ≠ j' := fun h => hj h.symm
        simp only [hj, ↓reduceIte, machRun, List.filter_cons, decide_false, Bool.false_eq_true]
        have := ih { cells := upd s.cells j' (M.call (s.cells j') s.now (s.logs j') k).1.1,
                     now := (M.call (s.cells j') s.now (s.logs j') k).1.2.1,
                     logs := upd s.logs j' (M.call (s.cells j') s.now (s.logs j') k).1.2.2 }
        simp only [upd_other _ _ _ _ hne] at this
        have hnow : s.now + ((M.call (s.cells j') s.now (s.logs j') k).1.2.1 - s.now) = (M.call (s.cells j') s.now (s.logs j') k).1.2.1 := by omega
        rw [hnow]
        exact this

theorem machRun_lru (maxSize : Nat) (valid : Option Int) (cost : K → Int) (ops : List (Op K)) : ∀ s : LState K,
    machRun (lruMach maxSize valid cost) s.cache s.now s.log ops =
      (((lruRun maxSize valid cost s ops).1.cache, (lruRun maxSize valid cost s ops).1.now, (lruRun maxSize valid cost s ops).1.log),
        (lruRun maxSize valid cost s ops).2) := by
  induction ops with
  | nil => intro s; rfl
  | cons op ops ih =>
    intro s
    obtain ⟨c, now, log⟩ := s
    cases op with
    | advance d => simp only [machRun, lruRun]; exact ih { cache := c, now := now + d, log := log }
    | call k =>
      simp only [machRun, lruRun]
      have := ih (lruCall maxSize valid cost { cache := c, now := now, log := log } k).1
      simp only [lruMach] at this ⊢
      rw [this]

theorem machRun_single (valid : Option Int) (cost : K → Int) (ops : List (Op K)) : ∀ s : SState K,
    machRun (singleMach valid cost) s.entry s.now s.log ops =
      (((singleRun valid cost s ops).1.entry, (singleRun valid cost s ops).1.now, (singleRun valid cost s ops).1.log),
        (singleRun valid cost s ops).2) := by
  induction ops with
  | nil => intro s; rfl
  | cons op ops ih =>
    intro s
    obtain ⟨c, now, log⟩ := s
    cases op with
    | advance d => simp only [machRun, singleRun]; exact ih { entry := c, now := now + d, log := log }
    | call k =>
      simp only [machRun, singleRun]
      have := ih (singleCall valid cost { entry := c, now := now, log := log } k).1
      simp only [singleMach] at this ⊢
      rw [this]

end Multi
end Cache
