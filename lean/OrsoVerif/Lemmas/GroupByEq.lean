import OrsoVerif.Model.GroupByEq
import OrsoVerif.Lemmas.GroupBy
/-! Helper lemmas for C12: dictionaries looked up by an equivalence, Python's `==` on key values. -/
namespace GroupBy

section By
variable {ρ κ κ' : Type} [DecidableEq κ'] {eqv : κ → κ → Bool} {canon : κ → κ'}

omit [DecidableEq κ'] in
theorem Kernel.refl (h : Kernel eqv canon) (a : κ) : eqv a a = true := (h a a).mpr rfl

omit [DecidableEq κ'] in
theorem memBy_iff (h : Kernel eqv canon) (seen : List κ) (x : κ) :
    memBy eqv seen x = true ↔ canon x ∈ seen.map canon := by
  unfold memBy
  rw [List.any_eq_true, List.mem_map]
  constructor
  · rintro ⟨y, hy, he⟩
    exact ⟨y, hy, (h y x).mp he⟩
  · rintro ⟨y, hy, he⟩
    exact ⟨y, hy, (h y x).mpr he⟩

theorem insBy_map (h : Kernel eqv canon) (seen : List κ) (x : κ) :
    (insBy eqv seen x).map canon = ins (seen.map canon) (canon x) := by
  unfold insBy ins
  by_cases hm : memBy eqv seen x = true
  · rw [if_pos hm, if_pos ((memBy_iff h seen x).mp hm)]
  · rw [if_neg hm, if_neg (fun hc => hm ((memBy_iff h seen x).mpr hc))]
    simp

theorem foldl_insBy_map (h : Kernel eqv canon) (xs seen : List κ) :
    (xs.foldl (insBy eqv) seen).map canon = (xs.map canon).foldl ins (seen.map canon) := by
  induction xs generalizing seen with
  | nil => rfl
  | cons x xs ih =>
    simp only [List.foldl_cons, List.map_cons]
    rw [ih, insBy_map h]

/-- The stored keys of a dict looked up by `eqv`, seen through `canon`, are the distinct canonical keys
in order of first occurrence. -/
theorem firstSeenBy_map (h : Kernel eqv canon) (xs : List κ) :
    (firstSeenBy eqv xs).map canon = firstSeen (xs.map canon) := by
  rw [firstSeen_eq]
  exact foldl_insBy_map h xs []

theorem collectedBy_eq (h : Kernel eqv canon) {ν : Type} (s : List (κ × String × Option ν)) (g : κ)
    (c : String) :
    collectedBy eqv s g c = collected (s.map fun t => (canon t.1, t.2)) (canon g) c := by
  unfold collectedBy collected
  induction s with
  | nil => rfl
  | cons t s ih =>
    simp only [List.filterMap_cons, List.map_cons]
    rw [ih]
    by_cases hk : eqv t.1 g = true
    · have := (h _ _).mp hk
      simp [hk, this]
    · have : ¬ canon t.1 = canon g := fun hc => hk ((h _ _).mpr hc)
      simp [hk, this]

omit [DecidableEq κ'] in
theorem emit_map_canon {ν : Type} (canon : κ → κ') (keyOf : ρ → κ) (cell : ρ → String → Option ν)
    (cols : List String) (rows : List ρ) :
    (emit keyOf cell cols rows).map (fun t => (canon t.1, t.2)) =
      emit (fun r => canon (keyOf r)) cell cols rows := by
  unfold emit
  simp [List.map_flatMap, List.map_map, Function.comp_def]

/-- **Simulation.**  The pass with dictionaries looked up by `eqv`, seen through `canon`, is the pass of
`Model/GroupBy.lean` over the canonical keys. -/
theorem aggregateBy_map_canon (h : Kernel eqv canon) (keyOf : ρ → κ) (cell : ρ → String → Option Int)
    (rows : List ρ) (reqs : List Req) :
    (aggregateBy eqv keyOf cell rows reqs).map (fun ka => (canon ka.1, ka.2)) =
      aggregate (fun r => canon (keyOf r)) cell rows reqs := by
  unfold aggregateBy aggregate
  simp only [List.map_map]
  rw [← emit_map_canon canon keyOf cell, List.map_map]
  have hk : ((fun t : κ' × String × Option Int => t.1) ∘ fun t : κ × String × Option Int => (canon t.1, t.2))
      = canon ∘ fun t : κ × String × Option Int => t.1 := rfl
  have e2 : ∀ E : List (κ × String × Option Int),
      List.map (canon ∘ fun t : κ × String × Option Int => t.1) E = (E.map (·.1)).map canon :=
    fun E => by rw [List.map_map]
  rw [hk, e2, ← firstSeenBy_map h, List.map_map]
  apply List.map_congr_left
  intro g _
  simp only [Function.comp]
  congr 1
  apply List.map_congr_left
  intro q _
  rw [collectedBy_eq h]

theorem insBy_insBy_same (hr : ∀ a, eqv a a = true) (seen : List κ) (x : κ) :
    insBy eqv (insBy eqv seen x) x = insBy eqv seen x := by
  unfold insBy
  by_cases hm : memBy eqv seen x = true
  · simp [hm]
  · have : memBy eqv (seen ++ [x]) x = true := by simp [memBy, hr]
    simp [hm, this]

theorem foldl_insBy_const (hr : ∀ a, eqv a a = true) {β : Type} (cs : List β) (hcs : cs ≠ []) (x : κ)
    (acc : List κ) : (cs.map fun _ => x).foldl (insBy eqv) acc = insBy eqv acc x := by
  induction cs generalizing acc with
  | nil => exact absurd rfl hcs
  | cons c cs ih =>
    cases cs with
    | nil => simp
    | cons c' cs' =>
      have := ih (by simp) (insBy eqv acc x)
      simp only [List.map_cons, List.foldl_cons] at this ⊢
      rw [this, insBy_insBy_same hr]

/-- The groups registered by the pass are those of the key column itself. -/
theorem firstSeenBy_emit_keys (hr : ∀ a, eqv a a = true) {ν : Type} (keyOf : ρ → κ)
    (cell : ρ → String → Option ν) {cols : List String} (hcols : cols ≠ []) (rows : List ρ) :
    firstSeenBy eqv ((emit keyOf cell cols rows).map (·.1)) = firstSeenBy eqv (rows.map keyOf) := by
  unfold firstSeenBy
  generalize ([] : List κ) = acc
  induction rows generalizing acc with
  | nil => simp [emit]
  | cons r rs ih =>
    rw [emit_cons, List.map_append, List.foldl_append, List.map_cons, List.foldl_cons, ← ih]
    congr 1
    rw [List.map_map]
    exact foldl_insBy_const hr cols hcols (keyOf r) acc

omit [DecidableEq κ'] in
/-- Every stored key is the first of its class: nothing before it is equivalent to it. -/
theorem foldl_insBy_first (h : Kernel eqv canon) (xs seen : List κ) (k : κ)
    (hk : k ∈ xs.foldl (insBy eqv) seen) :
    k ∈ seen ∨ ∃ pre suf, xs = pre ++ k :: suf ∧ (∀ y ∈ seen, canon y ≠ canon k)
      ∧ ∀ y ∈ pre, canon y ≠ canon k := by
  induction xs generalizing seen with
  | nil => exact Or.inl hk
  | cons x xs ih =>
    rw [List.foldl_cons] at hk
    have hsub : ∀ y ∈ seen, y ∈ insBy eqv seen x := by
      intro y hy
      unfold insBy
      split
      · exact hy
      · exact List.mem_append_left _ hy
    rcases ih (insBy eqv seen x) hk with hin | ⟨pre, suf, hxs, hseen, hpre⟩
    · by_cases hm : memBy eqv seen x = true
      · left
        simpa [insBy, hm] using hin
      · simp only [insBy, hm, Bool.false_eq_true, ↓reduceIte, List.mem_append, List.mem_singleton] at hin
        rcases hin with hin | rfl
        · exact Or.inl hin
        · right
          refine ⟨[], xs, rfl, ?_, by simp⟩
          intro y hy hc
          exact hm ((memBy_iff h seen k).mpr (List.mem_map.mpr ⟨y, hy, hc⟩))
    · right
      refine ⟨x :: pre, suf, by rw [hxs]; rfl, fun y hy => hseen y (hsub y hy), ?_⟩
      intro y hy
      rcases List.mem_cons.mp hy with rfl | hy
      · by_cases hm : memBy eqv seen y = true
        · obtain ⟨z, hz, hzc⟩ := List.mem_map.mp ((memBy_iff h seen y).mp hm)
          rw [← hzc]
          exact hseen z (hsub z hz)
        · apply hseen
          simp [insBy, hm]
      · exact hpre y hy

end By

/-! ### Python's `==` on numbers: the normal form keeps the value -/

theorem stripTwos_value (fuel : Nat) (m e : Int) (he : 0 ≤ e) :
    0 ≤ (stripTwos fuel m e).2 ∧ (stripTwos fuel m e).1 * 2 ^ (stripTwos fuel m e).2.toNat = m * 2 ^ e.toNat := by
  induction fuel generalizing m e with
  | zero => exact ⟨he, rfl⟩
  | succ n ih =>
    unfold stripTwos
    split
    · rename_i hc
      obtain ⟨h1, h2⟩ := ih (m / 2) (e + 1) (by omega)
      refine ⟨h1, ?_⟩
      rw [h2]
      have hm : m = m / 2 * 2 := by omega
      have ht : (e + 1).toNat = e.toNat + 1 := by omega
      rw [ht, Int.pow_succ]
      conv => rhs; rw [hm]
      rw [Int.mul_assoc, Int.mul_comm 2]
    · exact ⟨he, rfl⟩

/-- The normal form of an integer determines it. -/
theorem dyadic_int_inj {i j : Int} (h : dyadic i 0 = dyadic j 0) : i = j := by
  unfold dyadic at h
  have hi := (stripTwos_value i.natAbs i 0 (by omega)).2
  have hj := (stripTwos_value j.natAbs j 0 (by omega)).2
  simp only [Int.toNat_zero, Int.pow_zero, Int.mul_one] at hi hj
  by_cases hi0 : i = 0 <;> by_cases hj0 : j = 0
  · rw [hi0, hj0]
  · simp only [hi0, hj0, ↓reduceIte, CKey.num.injEq] at h
    rw [← h.1] at hj
    omega
  · simp only [hi0, hj0, ↓reduceIte, CKey.num.injEq] at h
    rw [h.1] at hi
    omega
  · simp only [hi0, hj0, ↓reduceIte, CKey.num.injEq] at h
    rw [← hi, ← hj, h.1, h.2]

theorem dyadic_is_num (m e : Int) : ∃ a b, dyadic m e = .num a b := by
  unfold dyadic
  split
  · exact ⟨0, 0, rfl⟩
  · exact ⟨_, _, rfl⟩

theorem floatKey_cases (bits : UInt64) :
    (∃ a b, floatKey bits = .num a b) ∨ (∃ n, floatKey bits = .inf n) ∨ floatKey bits = .other (.float bits) := by
  unfold floatKey
  simp only
  split
  · split
    · exact Or.inr (Or.inl ⟨_, rfl⟩)
    · exact Or.inr (Or.inr rfl)
  · exact Or.inl (dyadic_is_num _ _)

theorem canonVal_int_ne_str (i : Int) (s : String) : canonVal (.int i) ≠ .str s := by
  obtain ⟨a, b, h⟩ := dyadic_is_num i 0
  simp [canonVal, h]

theorem canonVal_int_ne_none (i : Int) : canonVal (.int i) ≠ .none := by
  obtain ⟨a, b, h⟩ := dyadic_is_num i 0
  simp [canonVal, h]

theorem canonVal_float_ne_str (f : UInt64) (s : String) : canonVal (.float f) ≠ .str s := by
  rcases floatKey_cases f with ⟨a, b, h⟩ | ⟨n, h⟩ | h <;> simp [canonVal, h]

theorem canonVal_float_ne_none (f : UInt64) : canonVal (.float f) ≠ .none := by
  rcases floatKey_cases f with ⟨a, b, h⟩ | ⟨n, h⟩ | h <;> simp [canonVal, h]

end GroupBy
