import OrsoVerif.Model.GroupBy
/-! Helper lemmas for C12 (no Mathlib needed). -/
namespace GroupBy

/-! ### `firstSeen`: insertion order of a dict used as a set -/
section FirstSeen
variable {α : Type} [DecidableEq α]

/-- one step of `firstSeen` -/
def ins (seen : List α) (x : α) : List α := if x ∈ seen then seen else seen ++ [x]

theorem firstSeen_eq (xs : List α) : firstSeen xs = xs.foldl ins [] := rfl

theorem mem_ins {seen : List α} {x a : α} : a ∈ ins seen x ↔ a ∈ seen ∨ a = x := by
  unfold ins
  split
  · constructor
    · exact Or.inl
    · rintro (h | rfl)
      · exact h
      · assumption
  · simp

theorem nodup_ins {seen : List α} {x : α} (h : seen.Nodup) : (ins seen x).Nodup := by
  unfold ins
  split
  · exact h
  · rename_i hx
    rw [List.nodup_append]
    refine ⟨h, by simp, ?_⟩
    intro a ha b hb
    simp at hb
    subst hb
    intro hab
    subst hab
    exact hx ha

theorem ins_ins_same (seen : List α) (x : α) : ins (ins seen x) x = ins seen x := by
  have : x ∈ ins seen x := mem_ins.mpr (Or.inr rfl)
  show (if x ∈ ins seen x then ins seen x else ins seen x ++ [x]) = ins seen x
  rw [if_pos this]

theorem mem_foldl_ins {xs acc : List α} {a : α} : a ∈ xs.foldl ins acc ↔ a ∈ acc ∨ a ∈ xs := by
  induction xs generalizing acc with
  | nil => simp
  | cons x xs ih =>
    simp only [List.foldl_cons, ih, mem_ins, List.mem_cons]
    constructor
    · rintro ((h | h) | h)
      · exact Or.inl h
      · exact Or.inr (Or.inl h)
      · exact Or.inr (Or.inr h)
    · rintro (h | h | h)
      · exact Or.inl (Or.inl h)
      · exact Or.inl (Or.inr h)
      · exact Or.inr h

theorem nodup_foldl_ins {xs acc : List α} (h : acc.Nodup) : (xs.foldl ins acc).Nodup := by
  induction xs generalizing acc with
  | nil => simpa
  | cons x xs ih => exact ih (nodup_ins h)

theorem mem_firstSeen {xs : List α} {a : α} : a ∈ firstSeen xs ↔ a ∈ xs := by
  rw [firstSeen_eq, mem_foldl_ins]; simp

theorem nodup_firstSeen (xs : List α) : (firstSeen xs).Nodup := by
  rw [firstSeen_eq]; exact nodup_foldl_ins List.nodup_nil

theorem firstSeen_ne_nil {xs : List α} (h : xs ≠ []) : firstSeen xs ≠ [] := by
  cases xs with
  | nil => exact absurd rfl h
  | cons x xs =>
    intro hn
    have : x ∈ firstSeen (x :: xs) := mem_firstSeen.mpr (by simp)
    rw [hn] at this
    simp at this

theorem firstSeen_perm {xs ys : List α} (h : xs.Perm ys) : (firstSeen xs).Perm (firstSeen ys) := by
  rw [List.perm_ext_iff_of_nodup (nodup_firstSeen xs) (nodup_firstSeen ys)]
  intro a
  rw [mem_firstSeen, mem_firstSeen]
  exact h.mem_iff

/-- Seeing the same thing several times in a row is seeing it once. -/
theorem foldl_ins_const {β : Type} (cs : List β) (hcs : cs ≠ []) (x : α) (acc : List α) :
    (cs.map fun _ => x).foldl ins acc = ins acc x := by
  induction cs generalizing acc with
  | nil => exact absurd rfl hcs
  | cons c cs ih =>
    cases cs with
    | nil => simp
    | cons c' cs' =>
      have := ih (by simp) (ins acc x)
      simp only [List.map_cons, List.foldl_cons] at this ⊢
      rw [this, ins_ins_same]

theorem register_eq (seen xs : List α) : register seen xs = xs.foldl ins seen := rfl

theorem register_nil (xs : List α) : register [] xs = firstSeen xs := rfl

/-- Registering keys that are all registered already changes nothing. -/
theorem foldl_ins_of_mem {xs acc : List α} (h : ∀ x ∈ xs, x ∈ acc) : xs.foldl ins acc = acc := by
  induction xs with
  | nil => rfl
  | cons x xs ih =>
    have hx : x ∈ acc := h x (by simp)
    have : ins acc x = acc := by unfold ins; rw [if_pos hx]
    rw [List.foldl_cons, this]
    exact ih (fun y hy => h y (List.mem_cons_of_mem _ hy))

theorem register_firstSeen (xs : List α) : register (firstSeen xs) xs = firstSeen xs := by
  rw [register_eq]
  exact foldl_ins_of_mem (fun x hx => mem_firstSeen.mpr hx)

end FirstSeen

/-! ### numeric folds -/

theorem foldl_add_eq (vs : List Int) (a : Int) : vs.foldl (· + ·) a = a + vs.sum := by
  induction vs generalizing a with
  | nil => simp
  | cons v vs ih => simp only [List.foldl_cons, List.sum_cons, ih]; omega

theorem total_eq_sum (vs : List Int) : total vs = vs.sum := by
  unfold total; rw [foldl_add_eq]; omega

theorem foldl_min_spec (vs : List Int) (v : Int) :
    vs.foldl min v ∈ v :: vs ∧ ∀ x ∈ v :: vs, vs.foldl min v ≤ x := by
  induction vs generalizing v with
  | nil => simp
  | cons w vs ih =>
    obtain ⟨hm, hl⟩ := ih (min v w)
    simp only [List.foldl_cons]
    constructor
    · rcases List.mem_cons.mp hm with h | h
      · rw [h]
        by_cases hvw : v ≤ w
        · rw [Int.min_eq_left hvw]; simp
        · rw [Int.min_eq_right (by omega)]; simp
      · exact List.mem_cons_of_mem _ (List.mem_cons_of_mem _ h)
    · intro x hx
      have h0 := hl (min v w) (by simp)
      rcases List.mem_cons.mp hx with rfl | hx
      · exact Int.le_trans h0 (Int.min_le_left _ _)
      · rcases List.mem_cons.mp hx with rfl | hx
        · exact Int.le_trans h0 (Int.min_le_right _ _)
        · exact hl x (List.mem_cons_of_mem _ hx)

theorem foldl_max_spec (vs : List Int) (v : Int) :
    vs.foldl max v ∈ v :: vs ∧ ∀ x ∈ v :: vs, x ≤ vs.foldl max v := by
  induction vs generalizing v with
  | nil => simp
  | cons w vs ih =>
    obtain ⟨hm, hl⟩ := ih (max v w)
    simp only [List.foldl_cons]
    constructor
    · rcases List.mem_cons.mp hm with h | h
      · rw [h]
        by_cases hvw : v ≤ w
        · rw [Int.max_eq_right hvw]; simp
        · rw [Int.max_eq_left (by omega)]; simp
      · exact List.mem_cons_of_mem _ (List.mem_cons_of_mem _ h)
    · intro x hx
      have h0 := hl (max v w) (by simp)
      rcases List.mem_cons.mp hx with rfl | hx
      · exact Int.le_trans (Int.le_max_left _ _) h0
      · rcases List.mem_cons.mp hx with rfl | hx
        · exact Int.le_trans (Int.le_max_right _ _) h0
        · exact hl x (List.mem_cons_of_mem _ hx)

theorem least_eq_some_iff {vs : List Int} {m : Int} :
    least vs = some m ↔ m ∈ vs ∧ ∀ x ∈ vs, m ≤ x := by
  cases vs with
  | nil => simp [least]
  | cons v vs =>
    have ⟨hm, hl⟩ := foldl_min_spec vs v
    simp only [least, Option.some.injEq]
    constructor
    · rintro rfl; exact ⟨hm, hl⟩
    · rintro ⟨hm', hl'⟩
      exact Int.le_antisymm (hl m hm') (hl' _ hm)

theorem greatest_eq_some_iff {vs : List Int} {m : Int} :
    greatest vs = some m ↔ m ∈ vs ∧ ∀ x ∈ vs, x ≤ m := by
  cases vs with
  | nil => simp [greatest]
  | cons v vs =>
    have ⟨hm, hl⟩ := foldl_max_spec vs v
    simp only [greatest, Option.some.injEq]
    constructor
    · rintro rfl; exact ⟨hm, hl⟩
    · rintro ⟨hm', hl'⟩
      exact Int.le_antisymm (hl' _ hm) (hl m hm')

theorem least_eq_none_iff {vs : List Int} : least vs = none ↔ vs = [] := by
  cases vs <;> simp [least]

theorem greatest_eq_none_iff {vs : List Int} : greatest vs = none ↔ vs = [] := by
  cases vs <;> simp [greatest]

theorem least_perm {vs ws : List Int} (h : vs.Perm ws) : least vs = least ws := by
  cases hv : least vs with
  | none =>
    rw [least_eq_none_iff] at hv
    subst hv
    rw [List.nil_perm] at h
    subst h
    rfl
  | some m =>
    rw [least_eq_some_iff] at hv
    symm
    rw [least_eq_some_iff]
    exact ⟨h.mem_iff.mp hv.1, fun x hx => hv.2 x (h.mem_iff.mpr hx)⟩

theorem greatest_perm {vs ws : List Int} (h : vs.Perm ws) : greatest vs = greatest ws := by
  cases hv : greatest vs with
  | none =>
    rw [greatest_eq_none_iff] at hv
    subst hv
    rw [List.nil_perm] at h
    subst h
    rfl
  | some m =>
    rw [greatest_eq_some_iff] at hv
    symm
    rw [greatest_eq_some_iff]
    exact ⟨h.mem_iff.mp hv.1, fun x hx => hv.2 x (h.mem_iff.mpr hx)⟩

theorem total_perm {vs ws : List Int} (h : vs.Perm ws) : total vs = total ws := by
  unfold total
  apply h.foldl_eq'
  intro x _ y _ z
  omega

theorem fold_sum_eq (vs : List Int) : fold .sum vs = if vs = [] then .null else .int vs.sum := by
  cases vs with
  | nil => rfl
  | cons v vs => simp [fold, total_eq_sum]

theorem fold_avg_eq (vs : List Int) :
    fold .avg vs = if vs = [] then .null else .ratio vs.sum vs.length := by
  cases vs with
  | nil => rfl
  | cons v vs => simp [fold, total_eq_sum]

theorem fold_perm (f : Func) {vs ws : List Int} (h : vs.Perm ws) : fold f vs = fold f ws := by
  have hnil : vs = [] ↔ ws = [] := by
    constructor
    · rintro rfl; exact List.nil_perm.mp h
    · rintro rfl; exact List.perm_nil.mp h
  cases f with
  | count => simp [fold, h.length_eq]
  | min => simp [fold, least_perm h]
  | max => simp [fold, greatest_perm h]
  | sum =>
    rw [fold_sum_eq, fold_sum_eq, ← total_eq_sum, ← total_eq_sum, total_perm h]
    simp [hnil]
  | avg =>
    rw [fold_avg_eq, fold_avg_eq, ← total_eq_sum, ← total_eq_sum, total_perm h, h.length_eq]
    simp [hnil]

/-! ### the single pass equals partition-and-fold -/
section Core
variable {ρ κ : Type} [DecidableEq κ]

omit [DecidableEq κ] in
theorem emit_cons {ν : Type} (keyOf : ρ → κ) (cell : ρ → String → Option ν) (cols : List String) (r : ρ)
    (rs : List ρ) :
    emit keyOf cell cols (r :: rs) =
      (cols.map fun c => (keyOf r, c, cell r c)) ++ emit keyOf cell cols rs := by
  simp [emit]

theorem collected_append {ν : Type} (s t : List (κ × String × Option ν)) (g : κ) (c : String) :
    collected (s ++ t) g c = collected s g c ++ collected t g c := by
  simp [collected]

/-- The triples of one row contribute the row's value of `c` once — provided `c` is collected once. -/
theorem collected_row {ν : Type} (keyOf : ρ → κ) (cell : ρ → String → Option ν) {cols : List String}
    (hnd : cols.Nodup) (r : ρ) (g : κ) (c : String) :
    collected (cols.map fun c' => (keyOf r, c', cell r c')) g c =
      if keyOf r = g ∧ c ∈ cols then (cell r c).toList else [] := by
  induction cols with
  | nil => simp [collected]
  | cons c' cs ih =>
    have hnd' := List.nodup_cons.mp hnd
    have ih' := ih hnd'.2
    unfold collected at ih' ⊢
    rw [List.map_cons, List.filterMap_cons]
    by_cases hk : keyOf r = g
    · by_cases hc : c' = c
      · subst hc
        have hnot : ¬ (keyOf r = g ∧ c' ∈ cs) := fun h => hnd'.1 h.2
        rw [ih', if_neg hnot]
        simp only [hk, true_and, if_true, List.mem_cons, true_or]
        cases cell r c' <;> simp
      · have : ¬ (keyOf r = g ∧ c' = c) := fun h => hc h.2
        simp only [this, if_false]
        rw [ih']
        have hmem : c ∈ c' :: cs ↔ c ∈ cs := by
          simp only [List.mem_cons]
          constructor
          · rintro (h | h)
            · exact absurd h.symm hc
            · exact h
          · exact Or.inr
        simp only [hmem]
    · have : ¬ (keyOf r = g ∧ c' = c) := fun h => hk h.1
      simp only [this, if_false]
      rw [ih']
      simp [hk]

theorem members_cons (keyOf : ρ → κ) (r : ρ) (rs : List ρ) (k : κ) :
    members keyOf (r :: rs) k = if keyOf r = k then r :: members keyOf rs k else members keyOf rs k := by
  unfold members
  rw [List.filter_cons]
  by_cases h : keyOf r = k <;> simp [h]

theorem nonNull_cons {ν : Type} (cell : ρ → String → Option ν) (r : ρ) (rs : List ρ) (c : String) :
    nonNull cell (r :: rs) c = (cell r c).toList ++ nonNull cell rs c := by
  unfold nonNull
  rw [List.filterMap_cons]
  cases cell r c <;> simp

/-- `column_value_map[g][c]` holds exactly the non-null values of column `c` over the rows of
key `g`, in frame order — when every column is collected once. -/
theorem collected_emit {ν : Type} (keyOf : ρ → κ) (cell : ρ → String → Option ν) {cols : List String}
    (hnd : cols.Nodup) (rows : List ρ) (g : κ) (c : String) :
    collected (emit keyOf cell cols rows) g c =
      if c ∈ cols then nonNull cell (members keyOf rows g) c else [] := by
  induction rows with
  | nil => simp [emit, collected, members, nonNull]
  | cons r rs ih =>
    rw [emit_cons, collected_append, ih, collected_row keyOf cell hnd, members_cons]
    by_cases hc : c ∈ cols
    · by_cases hk : keyOf r = g
      · simp [hc, hk, nonNull_cons]
      · simp [hc, hk]
    · simp [hc]

/-- The groups registered by the single pass are the distinct keys in first-occurrence order. -/
theorem firstSeen_emit_keys {ν : Type} (keyOf : ρ → κ) (cell : ρ → String → Option ν) {cols : List String}
    (hcols : cols ≠ []) (rows : List ρ) :
    firstSeen ((emit keyOf cell cols rows).map (·.1)) = groupKeys keyOf rows := by
  unfold groupKeys
  rw [firstSeen_eq, firstSeen_eq]
  generalize ([] : List κ) = acc
  induction rows generalizing acc with
  | nil => simp [emit]
  | cons r rs ih =>
    rw [emit_cons, List.map_append, List.foldl_append, List.map_cons, List.foldl_cons, ← ih]
    congr 1
    rw [List.map_map]
    exact foldl_ins_const cols hcols (keyOf r) acc

theorem mem_groupKeys {keyOf : ρ → κ} {rows : List ρ} {k : κ} :
    k ∈ groupKeys keyOf rows ↔ ∃ r ∈ rows, keyOf r = k := by
  unfold groupKeys
  rw [mem_firstSeen, List.mem_map]

theorem sum_map_add {α : Type} (ks : List α) (f g : α → Nat) :
    (ks.map fun k => f k + g k).sum = (ks.map f).sum + (ks.map g).sum := by
  induction ks with
  | nil => simp
  | cons k ks ih => simp only [List.map_cons, List.sum_cons, ih]; omega

theorem sum_map_zero {α : Type} (ks : List α) : (ks.map fun _ => 0).sum = 0 := by
  induction ks with
  | nil => rfl
  | cons k ks ih => simp only [List.map_cons, List.sum_cons, ih]

theorem sum_indicator {ks : List κ} (hnd : ks.Nodup) (a : κ) :
    (ks.map fun k => if a = k then 1 else 0).sum = if a ∈ ks then 1 else 0 := by
  induction ks with
  | nil => simp
  | cons k ks ih =>
    have h := List.nodup_cons.mp hnd
    simp only [List.map_cons, List.sum_cons, ih h.2, List.mem_cons]
    by_cases hak : a = k
    · subst hak
      simp [h.1]
    · simp [hak]

/-- Group sizes add up to the number of rows, for any duplicate-free list of keys covering the rows. -/
theorem sum_members_length (keyOf : ρ → κ) {ks : List κ} (hnd : ks.Nodup) (rows : List ρ)
    (hcov : ∀ r ∈ rows, keyOf r ∈ ks) :
    (ks.map fun k => (members keyOf rows k).length).sum = rows.length := by
  induction rows with
  | nil => simp only [members, List.filter_nil, List.length_nil]; exact sum_map_zero ks
  | cons r rs ih =>
    have ih' := ih (fun r' hr' => hcov r' (List.mem_cons_of_mem _ hr'))
    have hr := hcov r (by simp)
    have : (fun k => (members keyOf (r :: rs) k).length) =
        fun k => (if keyOf r = k then 1 else 0) + (members keyOf rs k).length := by
      funext k
      rw [members_cons]
      by_cases h : keyOf r = k <;> simp [h]; omega
    rw [this, sum_map_add, ih', sum_indicator hnd, if_pos hr, List.length_cons]
    omega

theorem members_members (keyOf : ρ → κ) (rows : List ρ) (k : κ) :
    members keyOf (members keyOf rows k) k = members keyOf rows k := by
  unfold members
  rw [List.filter_filter]
  simp

theorem lookup_map_self {β : Type} (ks : List κ) (f : κ → β) {k : κ} (hk : k ∈ ks) :
    (ks.map fun k => (k, f k)).lookup k = some (f k) := by
  induction ks with
  | nil => simp at hk
  | cons k' ks ih =>
    simp only [List.map_cons, List.lookup_cons]
    by_cases h : k = k'
    · subst h; simp
    · have : (k == k') = false := by simp [h]
      rw [this]
      exact ih (by simpa [h] using hk)

/-- One call leaves `_group_keys` equal to the distinct keys of the frame and returns what it would
return on a fresh object — whether the object is fresh or has been used on this frame before. -/
theorem stepS_state (keyOf : ρ → κ) (cell : ρ → String → Option Int) (rows : List ρ) (st : List κ)
    (hst : st = [] ∨ st = groupKeys keyOf rows) (op : Op) :
    (stepS keyOf cell rows st op).1 = groupKeys keyOf rows
    ∧ (stepS keyOf cell rows st op).2 = (stepS keyOf cell rows [] op).2 := by
  have hstar : firstSeen ((emit keyOf (fun _ _ => some (0 : Int)) ["*"] rows).map (·.1)) = groupKeys keyOf rows :=
    firstSeen_emit_keys keyOf _ (by simp) rows
  have hreg1 : register (groupKeys keyOf rows) (rows.map keyOf) = groupKeys keyOf rows :=
    register_firstSeen _
  have hreg2 : register (groupKeys keyOf rows) ((emit keyOf (fun _ _ => some (0 : Int)) ["*"] rows).map (·.1))
      = groupKeys keyOf rows := by
    rw [register_eq]
    apply foldl_ins_of_mem
    intro x hx
    rw [← hstar]
    exact mem_firstSeen.mpr hx
  cases op with
  | aggregate reqs =>
    rcases hst with rfl | rfl
    · exact ⟨rfl, rfl⟩
    · exact ⟨hreg1, rfl⟩
  | groups =>
    rcases hst with rfl | rfl
    · exact ⟨hstar, rfl⟩
    · refine ⟨hreg2, ?_⟩
      show Out.keys _ = Out.keys _
      rw [hreg2]
      exact congrArg Out.keys hstar.symm

/-- Registering the keys of a longer frame on top of the keys of a prefix of it gives the distinct
keys of the longer frame, in order of first occurrence. -/
theorem register_firstSeen_append {α : Type} [DecidableEq α] (xs ys : List α) :
    register (firstSeen xs) (xs ++ ys) = firstSeen (xs ++ ys) := by
  have h := register_firstSeen xs
  rw [register_eq] at h
  rw [register_eq, List.foldl_append, h, firstSeen_eq, firstSeen_eq, List.foldl_append]

omit [DecidableEq κ] in
theorem emit_single_keys {ν : Type} (keyOf : ρ → κ) (cell : ρ → String → Option ν) (c : String) (rows : List ρ) :
    (emit keyOf cell [c] rows).map (·.1) = rows.map keyOf := by
  induction rows with
  | nil => rfl
  | cons r rs ih => rw [emit_cons, List.map_append, ih]; rfl

/-- `stepS_state` for an object that was last used when the frame was shorter: `_group_keys` holds the
distinct keys of a prefix of the rows. -/
theorem stepS_state_prefix (keyOf : ρ → κ) (cell : ρ → String → Option Int) (pre suf : List ρ) (op : Op) :
    (stepS keyOf cell (pre ++ suf) (groupKeys keyOf pre) op).1 = groupKeys keyOf (pre ++ suf)
    ∧ (stepS keyOf cell (pre ++ suf) (groupKeys keyOf pre) op).2 = (stepS keyOf cell (pre ++ suf) [] op).2 := by
  have hreg : register (groupKeys keyOf pre) ((pre ++ suf).map keyOf) = groupKeys keyOf (pre ++ suf) := by
    unfold groupKeys
    rw [List.map_append, register_firstSeen_append, ← List.map_append]
  cases op with
  | aggregate reqs => exact ⟨hreg, rfl⟩
  | groups =>
    have h1 : (stepS keyOf cell (pre ++ suf) (groupKeys keyOf pre) .groups).1 = groupKeys keyOf (pre ++ suf) := by
      show register _ _ = _
      rw [emit_single_keys, hreg]
    refine ⟨h1, ?_⟩
    show Out.keys (register _ _) = Out.keys (register _ _)
    rw [emit_single_keys, hreg, register_nil]
    rfl

/-- Calls on one object whose frame grows by `append` in between: every call returns what it returns
alone on a fresh object of the frame as it is then. -/
theorem runSA_eq_aloneA (keyOf : ρ → κ) (cell : ρ → String → Option Int) (ops : List (OpA ρ)) :
    ∀ (pre suf : List ρ),
      runSA keyOf cell (pre ++ suf) (groupKeys keyOf pre) ops = aloneA keyOf cell (pre ++ suf) ops := by
  induction ops with
  | nil => intro pre suf; rfl
  | cons o ops ih =>
    intro pre suf
    cases o with
    | append r =>
      simp only [runSA, aloneA]
      rw [List.append_assoc]
      exact ih pre (suf ++ [r])
    | call op =>
      obtain ⟨h1, h2⟩ := stepS_state_prefix keyOf cell pre suf op
      simp only [runSA, aloneA]
      rw [h1, h2]
      congr 1
      have := ih (pre ++ suf) []
      simpa using this

end Core

theorem mapM_length {α β : Type} (f : α → Option β) : ∀ (l : List α) (r : List β), l.mapM f = some r → r.length = l.length := by
  intro l
  induction l with
  | nil => intro r h; simp at h; subst h; rfl
  | cons a l ih =>
    intro r h
    rw [List.mapM_cons] at h
    cases hfa : f a with
    | none => rw [hfa] at h; simp at h
    | some b =>
      rw [hfa] at h
      cases hl : l.mapM f with
      | none => rw [hl] at h; simp at h
      | some bs =>
        rw [hl] at h
        simp at h
        subst h
        simp [ih bs hl]

/-! ### dict semantics -/
section Dict
variable {β : Type}

theorem dictSet_fresh (d : List (String × β)) (k : String) (v : β) (h : k ∉ d.map (·.1)) :
    dictSet d k v = d ++ [(k, v)] := by
  induction d with
  | nil => rfl
  | cons kv d ih =>
    obtain ⟨k', v'⟩ := kv
    simp only [List.map_cons, List.mem_cons, not_or] at h
    simp only [dictSet]
    rw [if_neg (fun e => h.1 e.symm), ih h.2]
    rfl

theorem foldl_dictSet_fresh (kvs acc : List (String × β))
    (hnd : (kvs.map (·.1)).Nodup) (hdis : ∀ k ∈ kvs.map (·.1), k ∉ acc.map (·.1)) :
    kvs.foldl (fun d kv => dictSet d kv.1 kv.2) acc = acc ++ kvs := by
  induction kvs generalizing acc with
  | nil => simp
  | cons kv kvs ih =>
    simp only [List.map_cons, List.nodup_cons] at hnd
    simp only [List.foldl_cons]
    rw [dictSet_fresh acc kv.1 kv.2 (hdis kv.1 (by simp))]
    rw [ih _ hnd.2]
    · simp
    · intro k hk
      simp only [List.map_append, List.map_cons, List.map_nil, List.mem_append, List.mem_cons,
        List.not_mem_nil, or_false, not_or]
      refine ⟨hdis k (by simp [hk]), ?_⟩
      rintro rfl
      exact hnd.1 hk

/-- Assigning pairwise distinct keys builds the dict in assignment order. -/
theorem dictOf_nodup (kvs : List (String × β)) (hnd : (kvs.map (·.1)).Nodup) : dictOf kvs = kvs := by
  unfold dictOf
  rw [foldl_dictSet_fresh kvs [] hnd (by simp)]
  simp

theorem dictSet_keys (d : List (String × β)) (k : String) (v : β) :
    (dictSet d k v).map (·.1) = ins (d.map (·.1)) k := by
  induction d with
  | nil => simp [dictSet, ins]
  | cons kv d ih =>
    obtain ⟨k', v'⟩ := kv
    simp only [dictSet]
    by_cases h : k' = k
    · subst h
      simp [ins]
    · rw [if_neg h, List.map_cons, ih]
      simp only [List.map_cons]
      unfold ins
      have hk : k ∈ k' :: d.map (·.1) ↔ k ∈ d.map (·.1) := by
        simp only [List.mem_cons]
        constructor
        · rintro (e | e)
          · exact absurd e.symm h
          · exact e
        · exact Or.inr
      by_cases hm : k ∈ d.map (·.1)
      · rw [if_pos hm, if_pos (hk.mpr hm)]
      · rw [if_neg hm, if_neg (fun e => hm (hk.mp e))]
        rfl

theorem foldl_dictSet_keys (kvs acc : List (String × β)) :
    (kvs.foldl (fun d kv => dictSet d kv.1 kv.2) acc).map (·.1)
      = (kvs.map (·.1)).foldl ins (acc.map (·.1)) := by
  induction kvs generalizing acc with
  | nil => rfl
  | cons kv kvs ih => simp only [List.foldl_cons, List.map_cons, ih, dictSet_keys]

/-- The keys of a dict built by assignments: first-occurrence order, each once. -/
theorem dictOf_keys (kvs : List (String × β)) : (dictOf kvs).map (·.1) = firstSeen (kvs.map (·.1)) := by
  unfold dictOf
  rw [foldl_dictSet_keys, firstSeen_eq]
  rfl

theorem dictGet_dictSet (d : List (String × β)) (k : String) (v : β) (k' : String) :
    dictGet (dictSet d k v) k' = if k = k' then some v else dictGet d k' := by
  induction d with
  | nil =>
    simp only [dictSet, dictGet, List.find?_cons, List.find?_nil]
    by_cases h : k = k' <;> simp [h]
  | cons kv d ih =>
    obtain ⟨k0, v0⟩ := kv
    simp only [dictSet]
    by_cases h0 : k0 = k
    · subst h0
      rw [if_pos rfl]
      simp only [dictGet, List.find?_cons]
      by_cases h : k0 = k' <;> simp [h]
    · rw [if_neg h0]
      unfold dictGet at ih ⊢
      simp only [List.find?_cons]
      by_cases h1 : k0 = k'
      · subst h1
        simp [Ne.symm h0]
      · simp only [h1, decide_false]
        exact ih

theorem dictGet_foldl (kvs acc : List (String × β)) (k : String) :
    dictGet (kvs.foldl (fun d kv => dictSet d kv.1 kv.2) acc) k
      = kvs.foldl (fun r kv => if kv.1 = k then some kv.2 else r) (dictGet acc k) := by
  induction kvs generalizing acc with
  | nil => rfl
  | cons kv kvs ih => simp only [List.foldl_cons, ih, dictGet_dictSet]

/-- Reading a dict: the value most recently assigned under the key. -/
theorem dictGet_dictOf (kvs : List (String × β)) (k : String) :
    dictGet (dictOf kvs) k = lastAssigned kvs k := by
  unfold dictOf lastAssigned
  rw [dictGet_foldl]
  rfl

/-- The values of a dict in key order are the values found under its keys. -/
theorem map_snd_eq_map_get (d : List (String × β)) (hnd : (d.map (·.1)).Nodup) (dflt : β) :
    d.map (·.2) = (d.map (·.1)).map fun k => (dictGet d k).getD dflt := by
  induction d with
  | nil => rfl
  | cons kv d ih =>
    obtain ⟨k, v⟩ := kv
    simp only [List.map_cons, List.nodup_cons] at hnd ⊢
    congr 1
    · simp [dictGet]
    · rw [ih hnd.2]
      apply List.map_congr_left
      intro k' hk'
      have hne : k ≠ k' := fun e => hnd.1 (e ▸ hk')
      simp [dictGet, hne]

end Dict

/-! ### `min` / `max` over any comparison -/

/-- Python's `min(values)` over any kind of value, `lt` being Python's `<` on them: walk the list and
replace the candidate when the next value is smaller (`max` is `leastBy` of the flipped comparison). -/
def leastBy {α : Type} (lt : α → α → Bool) : List α → Option α
  | [] => none
  | v :: vs => some (vs.foldl (fun m x => if lt x m then x else m) v)

theorem least_eq_leastBy (vs : List Int) : least vs = leastBy (fun a b => decide (a < b)) vs := by
  cases vs with
  | nil => rfl
  | cons v vs =>
    simp only [least, leastBy]
    congr 2
    funext m x
    by_cases h : x < m
    · simp [h]; omega
    · simp [h]; omega

theorem greatest_eq_leastBy (vs : List Int) : greatest vs = leastBy (fun a b => decide (b < a)) vs := by
  cases vs with
  | nil => rfl
  | cons v vs =>
    simp only [greatest, leastBy]
    congr 2
    funext m x
    by_cases h : m < x
    · simp [h]; omega
    · simp [h]; omega

section
variable {α : Type} (lt : α → α → Bool)

theorem foldl_leastBy_spec (hirr : ∀ a, lt a a = false)
    (htr : ∀ a b c, lt a b = true → lt b c = true → lt a c = true) (vs : List α) :
    ∀ (v : α) (seen : List α), (∀ x ∈ seen, lt x v = false) →
      (vs.foldl (fun m x => if lt x m then x else m) v) ∈ v :: vs
      ∧ (∀ x ∈ seen, lt x (vs.foldl (fun m x => if lt x m then x else m) v) = false)
      ∧ ∀ x ∈ v :: vs, lt x (vs.foldl (fun m x => if lt x m then x else m) v) = false := by
  induction vs with
  | nil =>
    intro v seen hseen
    exact ⟨by simp, hseen, by simp [hirr]⟩
  | cons w ws ih =>
    intro v seen hseen
    simp only [List.foldl_cons]
    by_cases h : lt w v = true
    · simp only [h, if_true]
      have hvw : lt v w = false := by
        cases hvw : lt v w with
        | false => rfl
        | true => have := htr v w v hvw h; rw [hirr] at this; exact absurd this (by simp)
      obtain ⟨h1, h2, h3⟩ := ih w (v :: seen) (by
        intro x hx
        simp only [List.mem_cons] at hx
        rcases hx with rfl | hx
        · exact hvw
        · cases hxw : lt x w with
          | false => rfl
          | true => have := htr x w v hxw h; rw [hseen x hx] at this; exact absurd this (by simp))
      refine ⟨List.mem_cons_of_mem _ h1, fun x hx => h2 x (List.mem_cons_of_mem _ hx), ?_⟩
      intro x hx
      simp only [List.mem_cons] at hx
      rcases hx with rfl | hx
      · exact h2 x (by simp)
      · exact h3 x (by simp only [List.mem_cons]; exact hx)
    · have h' : lt w v = false := by simpa using h
      simp only [h', Bool.false_eq_true, if_false]
      obtain ⟨h1, h2, h3⟩ := ih v (w :: seen) (by
        intro x hx
        simp only [List.mem_cons] at hx
        rcases hx with rfl | hx
        · exact h'
        · exact hseen x hx)
      refine ⟨?_, fun x hx => h2 x (List.mem_cons_of_mem _ hx), ?_⟩
      · simp only [List.mem_cons] at h1 ⊢
        rcases h1 with h1 | h1
        · exact Or.inl h1
        · exact Or.inr (Or.inr h1)
      intro x hx
      simp only [List.mem_cons] at hx
      rcases hx with rfl | rfl | hx
      · exact h3 x (by simp)
      · exact h2 x (by simp)
      · exact h3 x (by simp only [List.mem_cons]; exact Or.inr hx)

end

end GroupBy
