import OrsoVerif.Model.Display
import OrsoVerif.Lemmas.DisplaySpec
/-! Helper lemmas for C18, part 2: printed width through `trunc_printable`, pads, cells. -/
namespace Display

/-- printable ASCII -/
def Printable (c : Char) : Prop := 32 ≤ c.toNat ∧ c.toNat < 127
instance (c : Char) : Decidable (Printable c) := by unfold Printable; infer_instance

def boxChars : List Char := ['┌', '─', '┬', '┐', '│', '╞', '═', '╪', '╡', '└', '┴', '┘']

/-- characters a raw table line is made of when the content is printable ASCII -/
def Ok (c : Char) : Prop := Printable c ∨ c = '\x01' ∨ c ∈ boxChars
def OkStr (s : Str) : Prop := ∀ c ∈ s, Ok c
def PStr (s : Str) : Prop := ∀ c ∈ s, Printable c

/-- what the width lemmas need of a character: never a line break, and width 1 unless it opens an escape -/
def Good (cw : Char → Nat) (c : Char) : Prop := c ≠ '\n' ∧ c ≠ '\r' ∧ (isEsc c = true ∨ cw c = 1)

/-- `scan false s = (w, false)`: `s` prints `w` characters and leaves no escape open. -/
def W (s : Str) (w : Nat) : Prop := scan false s = (w, false)

theorem printable_not_esc {c : Char} (h : Printable c) : isEsc c = false ∧ c ≠ '\n' ∧ c ≠ '\r' := by
  unfold Printable at h
  refine ⟨?_, ?_, ?_⟩
  · simp only [isEsc, Bool.or_eq_false_iff, beq_eq_false_iff_ne, ne_eq]
    constructor <;> (intro e; subst e; simp at h)
  · intro e; subst e; simp at h
  · intro e; subst e; simp at h

theorem box_facts : ∀ c ∈ boxChars, isEsc c = false ∧ c ≠ '\n' ∧ c ≠ '\r' := by decide

theorem ok_good (cw : Char → Nat) (hcw : ∀ c, Printable c → cw c = 1) (hbox : ∀ c ∈ boxChars, cw c = 1)
    {c : Char} (h : Ok c) : Good cw c := by
  rcases h with h | h | h
  · exact ⟨(printable_not_esc h).2.1, (printable_not_esc h).2.2, Or.inr (hcw c h)⟩
  · subst h; exact ⟨by decide, by decide, Or.inl (by decide)⟩
  · exact ⟨(box_facts c h).2.1, (box_facts c h).2.2, Or.inr (hbox c h)⟩

theorem scan_append (b : Bool) (x y : Str) :
    scan b (x ++ y) = ((scan b x).1 + (scan (scan b x).2 y).1, (scan (scan b x).2 y).2) := by
  induction x generalizing b with
  | nil => simp [scan]
  | cons c cs ih => simp [scan, ih, Nat.add_assoc]

theorem W_append {a b : Str} {m n : Nat} (ha : W a m) (hb : W b n) : W (a ++ b) (m + n) := by
  unfold W at *; rw [scan_append, ha]; simp [hb]

theorem W_nil : W [] 0 := by simp [W, scan]

theorem scan_noesc (s : Str) (h : ∀ c ∈ s, isEsc c = false) : scan false s = (s.length, false) := by
  induction s with
  | nil => simp [scan]
  | cons c cs ih =>
    have hc := h c (by simp)
    have := ih (fun c hc => h c (by simp [hc]))
    simp [scan, scanStep, hc, this, Nat.add_comm]

theorem W_noesc (s : Str) (h : ∀ c ∈ s, isEsc c = false) : W s s.length := scan_noesc s h

theorem tokens_scan : ∀ t ∈ usedTokens, ∀ b : Bool, scan b t = (0, false) := by decide

theorem W_tok {t : Str} (h : t ∈ usedTokens) : W t 0 := tokens_scan t h false

theorem tokens_ok : ∀ t ∈ usedTokens, ∀ c ∈ t, Printable c ∨ c = '\x01' := by decide

theorem okStr_tok {t : Str} (h : t ∈ usedTokens) : OkStr t := fun c hc =>
  (tokens_ok t h c hc).elim Or.inl (fun e => Or.inr (Or.inl e))

theorem okStr_append {a b : Str} (ha : OkStr a) (hb : OkStr b) : OkStr (a ++ b) := by
  intro c hc; rcases List.mem_append.mp hc with h | h; exact ha c h; exact hb c h

theorem okStr_of_pstr {s : Str} (h : PStr s) : OkStr s := fun c hc => Or.inl (h c hc)

theorem pstr_spaces (n : Nat) : PStr (spaces n) := by
  intro c hc; simp [spaces] at hc; rw [hc.2]; decide

/-- **`trunc_printable` with `full_line=True` pads or cuts to exactly `width` printed characters**
(from offset `off < width`, any `ignoring` state), for text without line breaks whose visible
characters have width 1; the result leaves no escape open. -/
theorem truncGo_full (cw : Char → Nat) (width : Nat) (l : Str) (hl : ∀ c ∈ l, Good cw c)
    (off : Nat) (ign : Bool) (ho : off < width) :
    scan ign (truncGo specArith cw width true l off ign) = (width - off, false) := by
  induction l generalizing off ign with
  | nil =>
    simp only [truncGo, spec_truncPad, if_true]
    rw [scan_append, tokens_scan T_OFF (by simp [usedTokens]) ign]
    have := scan_noesc (spaces (width - off)) (fun c hc => by simp [spaces] at hc; rw [hc.2]; decide)
    rw [this]; simp [spaces]
  | cons c cs ih =>
    obtain ⟨h1, h2, h3⟩ := hl c (by simp)
    have hcs : ∀ c ∈ cs, Good cw c := fun c hc => hl c (by simp [hc])
    simp only [truncGo, spec_truncStop', h1, h2, if_false]
    cases hi : (ign || isEsc c) with
    | false =>
      have hne : isEsc c = false := by cases ign <;> simp_all
      have hw : cw c = 1 := by rcases h3 with h | h; simp [hne] at h; exact h
      simp only [Bool.false_and, Bool.false_eq_true, if_false, Bool.not_false, Bool.true_and, hw]
      by_cases hge : width ≤ off + 1
      · simp only [hge, decide_true, if_true]
        simp only [scan, scanStep, hi, Bool.false_and, Bool.false_eq_true, if_false, Bool.not_false, if_true]
        rw [tokens_scan T_OFF (by simp [usedTokens]) false]
        simp; omega
      · simp only [hge, decide_false, Bool.false_eq_true, if_false]
        simp only [scan, scanStep, hi, Bool.false_and, Bool.false_eq_true, if_false, Bool.not_false, if_true]
        rw [ih hcs (off + 1) false (by omega)]
        simp; omega
    | true =>
      simp only [Bool.true_and, if_true]
      have hnot : ¬ (width ≤ off) := by omega
      cases hm : (c == 'm') with
      | true =>
        simp only [if_true, Bool.not_false, Bool.true_and, hnot, decide_false, Bool.false_eq_true, if_false]
        simp only [scan, scanStep, hi, Bool.true_and, hm, if_true, Bool.not_true, Bool.false_eq_true, if_false]
        rw [ih hcs off false ho]; simp
      | false =>
        simp only [Bool.false_eq_true, if_false, Bool.not_true, Bool.false_and]
        simp only [scan, scanStep, hi, Bool.true_and, hm, Bool.false_eq_true, if_false, Bool.not_true]
        rw [ih hcs off true ho]; simp

/-- **The final per-line truncation** (`full_line=False`): the printed width becomes
`min (printed width of the line) (room left)`, and no escape is left open. -/
theorem truncGo_line (cw : Char → Nat) (width : Nat) (l : Str) (hl : ∀ c ∈ l, Good cw c)
    (off : Nat) (ign : Bool) (ho : off < width) :
    scan ign (truncGo specArith cw width false l off ign) = (min (scan ign l).1 (width - off), false) := by
  induction l generalizing off ign with
  | nil =>
    simp only [truncGo, Bool.false_eq_true, if_false, List.append_nil]
    rw [tokens_scan T_OFF (by simp [usedTokens]) ign]
    simp [scan]
  | cons c cs ih =>
    obtain ⟨h1, h2, h3⟩ := hl c (by simp)
    have hcs : ∀ c ∈ cs, Good cw c := fun c hc => hl c (by simp [hc])
    simp only [truncGo, spec_truncStop', h1, h2, if_false]
    cases hi : (ign || isEsc c) with
    | false =>
      have hne : isEsc c = false := by cases ign <;> simp_all
      have hw : cw c = 1 := by rcases h3 with h | h; simp [hne] at h; exact h
      simp only [Bool.false_and, Bool.false_eq_true, if_false, Bool.not_false, Bool.true_and, hw]
      by_cases hge : width ≤ off + 1
      · simp only [hge, decide_true, if_true]
        simp only [scan, scanStep, hi, Bool.false_and, Bool.false_eq_true, if_false, Bool.not_false, if_true]
        rw [tokens_scan T_OFF (by simp [usedTokens]) false]
        simp; omega
      · simp only [hge, decide_false, Bool.false_eq_true, if_false]
        simp only [scan, scanStep, hi, Bool.false_and, Bool.false_eq_true, if_false, Bool.not_false, if_true]
        rw [ih hcs (off + 1) false (by omega)]
        simp; omega
    | true =>
      simp only [Bool.true_and, if_true]
      have hnot : ¬ (width ≤ off) := by omega
      cases hm : (c == 'm') with
      | true =>
        simp only [if_true, Bool.not_false, Bool.true_and, hnot, decide_false, Bool.false_eq_true, if_false]
        simp only [scan, scanStep, hi, Bool.true_and, hm, if_true, Bool.not_true, Bool.false_eq_true, if_false]
        rw [ih hcs off false ho]; simp
      | false =>
        simp only [Bool.false_eq_true, if_false, Bool.not_true, Bool.false_and]
        simp only [scan, scanStep, hi, Bool.true_and, hm, Bool.false_eq_true, if_false, Bool.not_true]
        rw [ih hcs off true ho]; simp

end Display
