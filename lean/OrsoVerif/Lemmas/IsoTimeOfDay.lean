import OrsoVerif.Model.IsoCast
import OrsoVerif.Lemmas.IsoDigits
/-! Helper lemmas for C08: `datetime.time.fromisoformat` (`Model/IsoTime.lean`) and the cast programs. -/
namespace Iso

theorem finishTime_error (t : HMSF) (e : Exc) (h : finishTime t = .error e) : e = .valueError := by
  unfold finishTime at h
  split at h
  · cases h
  · injection h with h; exact h.symm

/-- `datetime.time.fromisoformat` raises nothing but `ValueError`. -/
theorem timeFromIso_error (s : List Char) (e : Exc) (h : timeFromIso s = .error e) : e = .valueError := by
  unfold timeFromIso timeFromUnits at h
  dsimp only at h
  repeat' split at h
  all_goals first
    | (injection h with h; exact h.symm)
    | exact finishTime_error _ _ h

theorem finishTime_ok (t u : HMSF) (h : finishTime t = .ok u) :
    u = t ∧ t.hour ≤ 23 ∧ t.minute ≤ 59 ∧ t.second ≤ 59 ∧ t.micro ≤ 999999 := by
  unfold finishTime at h
  split at h
  · next hc => injection h with h; exact ⟨h.symm, hc⟩
  · cases h

/-- Whatever `datetime.time.fromisoformat` returns is a time of day. -/
theorem timeFromIso_ok (s : List Char) (t : HMSF) (h : timeFromIso s = .ok t) :
    t.hour ≤ 23 ∧ t.minute ≤ 59 ∧ t.second ≤ 59 ∧ t.micro ≤ 999999 := by
  unfold timeFromIso timeFromUnits at h
  dsimp only at h
  repeat' split at h
  all_goals first
    | (cases h; done)
    | (obtain ⟨rfl, hh⟩ := finishTime_ok _ _ h; exact hh)

theorem dig_facts {c : Char} (h : c.isDigit = true) :
    unitCount c = 1 ∧ isTzChar c = false ∧ (c == 'T') = false ∧ (c == nul) = false := by
  have h48 : 48 ≤ c.toNat ∧ c.toNat ≤ 57 := by
    simp only [Char.isDigit, Bool.and_eq_true, decide_eq_true_eq] at h
    constructor
    · have := h.1; exact this
    · have := h.2; exact this
  refine ⟨?_, ?_, ?_, ?_⟩
  · unfold unitCount; rw [if_pos (by omega)]
  · have e1 : c ≠ 'Z' := fun e => by subst e; simp at h48
    have e2 : c ≠ '+' := fun e => by subst e; simp at h48
    have e3 : c ≠ '-' := fun e => by subst e; simp at h48
    simp [isTzChar, e1, e2, e3]
  · have e1 : c ≠ 'T' := fun e => by subst e; simp at h48
    simp [e1]
  · have e1 : c ≠ nul := fun e => by subst e; simp [nul] at h48
    simp [e1]

theorem units_digits : ∀ ds : List Char, (∀ c ∈ ds, c.isDigit = true) → units ds = ds
  | [], _ => rfl
  | c :: t, h => by
    have ih := units_digits t (fun x hx => h x (List.mem_cons_of_mem _ hx))
    have := (dig_facts (h c (List.mem_cons_self))).1
    simp only [units, List.flatMap_cons, this, List.replicate_one, List.singleton_append] at ih ⊢
    rw [ih]

theorem units_append (a b : List Char) : units (a ++ b) = units a ++ units b := by
  simp [units, List.flatMap_append]

theorem cAt_append_right (pre t : List Char) : cAt (pre ++ t) pre.length = cAt t 0 := by
  simp only [cAt, List.getD_eq_getElem?_getD]
  rw [List.getElem?_append_right (Nat.le_refl _), Nat.sub_self]

theorem parseDigits_app : ∀ (ds pre rest : List Char) (acc : Nat), (∀ c ∈ ds, c.isDigit = true) →
    parseDigits (pre ++ ds ++ rest) ds.length pre.length acc = some (digitsVal acc ds, pre.length + ds.length)
  | [], pre, rest, acc, _ => by simp [parseDigits, digitsVal]
  | c :: t, pre, rest, acc, h => by
    have hc := h c (List.mem_cons_self)
    have e : pre ++ c :: t ++ rest = (pre ++ [c]) ++ t ++ rest := by simp
    have hat : cAt (pre ++ c :: t ++ rest) pre.length = c := by
      rw [List.append_assoc, cAt_append_right]; rfl
    have ih := parseDigits_app t (pre ++ [c]) rest (10 * acc + digitVal c) (fun x hx => h x (List.mem_cons_of_mem _ hx))
    simp only [List.length_cons, parseDigits, hat, hc, if_true]
    rw [e]
    simp only [List.length_append, List.length_cons, List.length_nil] at ih
    rw [ih]
    simp [digitsVal]
    omega

theorem skipDigits_app : ∀ (ds pre : List Char) (fuel : Nat), (∀ c ∈ ds, c.isDigit = true) → ds.length ≤ fuel →
    skipDigits (pre ++ ds) fuel pre.length = pre.length + ds.length
  | [], pre, fuel, _, _ => by
    cases fuel with
    | zero => rfl
    | succ f =>
      have : cAt (pre ++ []) pre.length = nul := by simp [cAt]
      have hn : nul.isDigit = false := by decide
      simp only [skipDigits, this, hn, Bool.false_eq_true, if_false, List.length_nil, Nat.add_zero]
  | c :: t, pre, fuel, h, hl => by
    have hc := h c (List.mem_cons_self)
    cases fuel with
    | zero => simp at hl
    | succ f =>
      have hat : cAt (pre ++ c :: t) pre.length = c := by rw [cAt_append_right]; rfl
      have ih := skipDigits_app t (pre ++ [c]) f (fun x hx => h x (List.mem_cons_of_mem _ hx)) (by simp at hl; omega)
      simp only [skipDigits, hat, hc, if_true]
      have e : pre ++ c :: t = (pre ++ [c]) ++ t := by simp
      rw [e]
      simp only [List.length_append, List.length_cons, List.length_nil] at ih
      rw [ih]
      simp
      omega

theorem fracPart_digits (pre ds : List Char) (hds : ∀ c ∈ ds, c.isDigit = true) (h m s : Nat) :
    fracPart (pre ++ ds) pre.length (pre.length + ds.length) h m s = some (false, ⟨h, m, s, fracMicro ds⟩) := by
  have hk : (ds.take (min ds.length 6)).length = min ds.length 6 := by simp
  have hsplit : pre ++ ds = pre ++ ds.take (min ds.length 6) ++ ds.drop (min ds.length 6) := by simp
  have h1 := parseDigits_app (ds.take (min ds.length 6)) pre (ds.drop (min ds.length 6)) 0
    (fun c hc => hds c (List.mem_of_mem_take hc))
  rw [← hsplit, hk] at h1
  have h2 := skipDigits_app (ds.drop (min ds.length 6)) (pre ++ ds.take (min ds.length 6)) (pre ++ ds).length
    (fun c hc => hds c (List.mem_of_mem_drop hc)) (by simp; omega)
  rw [← hsplit] at h2
  simp only [List.length_append, hk, List.length_drop] at h2
  have hend : cAt (pre ++ ds) (pre.length + ds.length) = nul := by
    simp [cAt, List.getD_eq_getElem?_getD]
  have htp : (if pre.length + ds.length - pre.length ≥ 6 then 6 else pre.length + ds.length - pre.length) = min ds.length 6 := by
    split <;> omega
  unfold fracPart
  simp only [htp, h1]
  have e2 : pre.length + min ds.length 6 + (ds.length - min ds.length 6) = pre.length + ds.length := by omega
  simp only [List.length_append] at h2 ⊢
  rw [h2, e2, hend]
  have hm : ds.take (min ds.length 6) = ds.take 6 := by
    by_cases h6 : ds.length ≤ 6
    · rw [Nat.min_eq_left h6, List.take_of_length_le (Nat.le_refl _), List.take_of_length_le h6]
    · rw [Nat.min_eq_right (by omega)]
  simp only [fracMicro, hm, bne_self_eq_false]
  by_cases h6 : min ds.length 6 < 6
  · rw [if_pos h6]
  · rw [if_neg h6]
    have : 6 - min ds.length 6 = 0 := by omega
    rw [this]; simp

theorem parseHMSF_sec_frac (a b c d e f sep : Char) (ha : a.isDigit = true) (hb : b.isDigit = true) (hc : c.isDigit = true)
    (hd : d.isDigit = true) (he : e.isDigit = true) (hf : f.isDigit = true) (hsep : sep = '.' ∨ sep = ',')
    (ds : List Char) (k : Nat) :
    parseHMSF (a :: b :: ':' :: c :: d :: ':' :: e :: f :: sep :: ds) 0 (k + 10) =
      fracPart (a :: b :: ':' :: c :: d :: ':' :: e :: f :: sep :: ds) 9 (k + 10)
        (twoDigits a b) (twoDigits c d) (twoDigits e f) := by
  rcases hsep with rfl | rfl <;>
    simp [parseHMSF, hmsStep, parseDigits, cAt, ha, hb, hc, hd, he, hf, twoDigits]


theorem findIdx_none_of_all {l : List Char} (h : ∀ c ∈ l, isTzChar c = false) : l.findIdx? isTzChar = none := by
  rw [List.findIdx?_eq_none_iff]
  intro c hc
  exact h c hc

/-- `HH`, `HH:MM`, `HH:MM:SS` written with ASCII digits. -/
theorem timeFromIso_plain (a b c d e f : Char) (ha : a.isDigit = true) (hb : b.isDigit = true) (hc : c.isDigit = true)
    (hd : d.isDigit = true) (he : e.isDigit = true) (hf : f.isDigit = true) :
    timeFromIso [a, b] = finishTime ⟨twoDigits a b, 0, 0, 0⟩ ∧
    timeFromIso [a, b, ':', c, d] = finishTime ⟨twoDigits a b, twoDigits c d, 0, 0⟩ ∧
    timeFromIso [a, b, ':', c, d, ':', e, f] = finishTime ⟨twoDigits a b, twoDigits c d, twoDigits e f, 0⟩ := by
  obtain ⟨a1, a2, a3, a4⟩ := dig_facts ha
  obtain ⟨b1, b2, b3, b4⟩ := dig_facts hb
  obtain ⟨c1, c2, c3, c4⟩ := dig_facts hc
  obtain ⟨d1, d2, d3, d4⟩ := dig_facts hd
  obtain ⟨e1, e2, e3, e4⟩ := dig_facts he
  obtain ⟨f1, f2, f3, f4⟩ := dig_facts hf
  have u : unitCount ':' = 1 := by decide
  have z : isTzChar ':' = false := by decide
  refine ⟨?_, ?_, ?_⟩ <;>
    simp [timeFromIso, units, a1, b1, c1, d1, e1, f1, u, timeFromUnits, cAt, a3, List.findIdx?_cons, a2, b2, c2, d2, e2, f2, z,
      parseHMSF, hmsStep, parseDigits, ha, hb, hc, hd, he, hf, nul, twoDigits]

/-- `HH:MM:SS.f…` / `HH:MM:SS,f…` with any positive number of fraction digits. -/
theorem timeFromIso_fraction (a b c d e f sep : Char) (ha : a.isDigit = true) (hb : b.isDigit = true) (hc : c.isDigit = true)
    (hd : d.isDigit = true) (he : e.isDigit = true) (hf : f.isDigit = true) (hsep : sep = '.' ∨ sep = ',')
    (ds : List Char) (hds : ∀ x ∈ ds, x.isDigit = true) (hne : ds ≠ []) :
    timeFromIso (a :: b :: ':' :: c :: d :: ':' :: e :: f :: sep :: ds) =
      finishTime ⟨twoDigits a b, twoDigits c d, twoDigits e f, fracMicro ds⟩ := by
  obtain ⟨a1, a2, a3, a4⟩ := dig_facts ha
  obtain ⟨b1, b2, _, _⟩ := dig_facts hb
  obtain ⟨c1, c2, _, _⟩ := dig_facts hc
  obtain ⟨d1, d2, _, _⟩ := dig_facts hd
  obtain ⟨e1, e2, _, _⟩ := dig_facts he
  obtain ⟨f1, f2, _, _⟩ := dig_facts hf
  have u : unitCount ':' = 1 := by decide
  have z : isTzChar ':' = false := by decide
  have us : unitCount sep = 1 := by rcases hsep with rfl | rfl <;> decide
  have zs : isTzChar sep = false := by rcases hsep with rfl | rfl <;> decide
  have hu : units (a :: b :: ':' :: c :: d :: ':' :: e :: f :: sep :: ds) = a :: b :: ':' :: c :: d :: ':' :: e :: f :: sep :: ds := by
    have := units_digits ds hds
    simp only [units, List.flatMap_cons, a1, b1, c1, d1, e1, f1, u, us, List.replicate_one, List.singleton_append] at this ⊢
    rw [this]
  have hall : ∀ x ∈ a :: b :: ':' :: c :: d :: ':' :: e :: f :: sep :: ds, isTzChar x = false := by
    intro x hx
    simp only [List.mem_cons] at hx
    rcases hx with rfl | rfl | rfl | rfl | rfl | rfl | rfl | rfl | rfl | hx
    all_goals first | assumption | exact (dig_facts (hds x hx)).2.1
  have hlen : (a :: b :: ':' :: c :: d :: ':' :: e :: f :: sep :: ds).length = (ds.length - 1) + 10 := by
    have : 1 ≤ ds.length := by cases ds with | nil => exact absurd rfl hne | cons => simp
    simp only [List.length_cons]; omega
  unfold timeFromIso timeFromUnits
  rw [hu]
  simp only [cAt, List.getD_cons_zero, a3, Bool.false_eq_true, if_false, findIdx_none_of_all hall, Option.getD_none]
  rw [hlen, parseHMSF_sec_frac a b c d e f sep ha hb hc hd he hf hsep ds]
  have hf9 := fracPart_digits [a, b, ':', c, d, ':', e, f, sep] ds hds (twoDigits a b) (twoDigits c d) (twoDigits e f)
  have e9 : [a, b, ':', c, d, ':', e, f, sep].length + ds.length = (ds.length - 1) + 10 := by
    have : 1 ≤ ds.length := by cases ds with | nil => exact absurd rfl hne | cons => simp
    simp only [List.length_cons, List.length_nil]; omega
  rw [e9] at hf9
  have hpre : [a, b, ':', c, d, ':', e, f, sep] ++ ds = a :: b :: ':' :: c :: d :: ':' :: e :: f :: sep :: ds := rfl
  rw [hpre] at hf9
  simp only [List.length_cons, List.length_nil] at hf9
  rw [hf9]
  simp

/-- A text that does not start (after one optional `T`) with two ASCII digits is not a time of day:
leading white space, a sign, a non-ASCII digit, a one-digit hour are all `ValueError`. -/
theorem timeFromIso_needs_two_digits (x y : Char) (r : List Char) (hT : x ≠ 'T')
    (h : x.isDigit = false ∨ y.isDigit = false) (hy : unitCount x = 1) :
    timeFromIso (x :: y :: r) = .error .valueError := by
  have hyu : 1 ≤ unitCount y := by
    unfold unitCount
    split
    · omega
    · split
      · omega
      · split <;> omega
  obtain ⟨q, hq⟩ : ∃ q, units (y :: r) = y :: q := by
    obtain ⟨n, hn⟩ : ∃ n, unitCount y = n + 1 := ⟨unitCount y - 1, by omega⟩
    exact ⟨List.replicate n y ++ units r, by simp [units, List.flatMap_cons, hn, List.replicate_succ]⟩
  have hu : units (x :: y :: r) = x :: y :: q := by
    have : units (x :: y :: r) = x :: units (y :: r) := by simp [units, List.flatMap_cons, hy]
    rw [this, hq]
  have hx : (x == 'T') = false := by simp [hT]
  unfold timeFromIso timeFromUnits
  rw [hu]
  simp only [cAt, List.getD_cons_zero, hx, Bool.false_eq_true, if_false]
  have hp : ∀ pEnd, parseHMSF (x :: y :: q) 0 pEnd = none := by
    intro pEnd
    rcases h with h | h <;> simp [parseHMSF, hmsStep, parseDigits, cAt, h]
  simp only [hp]


theorem fracMicro_pad6 (us k : Nat) (hus : us ≤ 999999) (hk : 1 ≤ k) :
    fracMicro ((pad6 us).take k) = truncMicro us k := by
  have cases6 : k = 1 ∨ k = 2 ∨ k = 3 ∨ k = 4 ∨ k = 5 ∨ 6 ≤ k := by omega
  rcases cases6 with rfl | rfl | rfl | rfl | rfl | h6
  · simp [fracMicro, truncMicro, pad6, digitsVal]; omega
  · simp [fracMicro, truncMicro, pad6, digitsVal]; omega
  · simp [fracMicro, truncMicro, pad6, digitsVal]; omega
  · simp [fracMicro, truncMicro, pad6, digitsVal]; omega
  · simp [fracMicro, truncMicro, pad6, digitsVal]; omega
  · have : (pad6 us).take k = pad6 us := List.take_of_length_le (by simp [pad6]; omega)
    rw [this]
    have hm : min k 6 = 6 := by omega
    simp [fracMicro, truncMicro, pad6, digitsVal, hm]; omega

theorem twoDigits_pad (n : Nat) (h : n < 100) : twoDigits (digit (n / 10)) (digit n) = n := by
  simp [twoDigits]; omega

theorem digitVal_le_nine {c : Char} (h : c.isDigit = true) : digitVal c ≤ 9 := by
  simp only [Char.isDigit, Bool.and_eq_true, decide_eq_true_eq] at h
  have h2 : c.toNat ≤ 57 := h.2
  unfold digitVal; omega

theorem digitsVal_lt : ∀ (ds : List Char) (acc : Nat), (∀ x ∈ ds, x.isDigit = true) →
    digitsVal acc ds + 1 ≤ (acc + 1) * 10 ^ ds.length
  | [], acc, _ => by simp [digitsVal]
  | c :: t, acc, h => by
    have hc := digitVal_le_nine (h c List.mem_cons_self)
    have ih := digitsVal_lt t (10 * acc + digitVal c) (fun x hx => h x (List.mem_cons_of_mem _ hx))
    have e : digitsVal acc (c :: t) = digitsVal (10 * acc + digitVal c) t := rfl
    rw [e, List.length_cons, Nat.pow_succ]
    calc digitsVal (10 * acc + digitVal c) t + 1 ≤ (10 * acc + digitVal c + 1) * 10 ^ t.length := ih
      _ ≤ ((acc + 1) * 10) * 10 ^ t.length := Nat.mul_le_mul_right _ (by omega)
      _ = (acc + 1) * (10 ^ t.length * 10) := by rw [Nat.mul_assoc, Nat.mul_comm 10]

theorem fracMicro_le (ds : List Char) (h : ∀ x ∈ ds, x.isDigit = true) : fracMicro ds ≤ 999999 := by
  have hb := digitsVal_lt (ds.take 6) 0 (fun x hx => h x (List.mem_of_mem_take hx))
  rw [List.length_take] at hb
  unfold fracMicro
  generalize digitsVal 0 (ds.take 6) = D at hb ⊢
  rw [Nat.min_comm] at hb
  have hn : min ds.length 6 = 0 ∨ min ds.length 6 = 1 ∨ min ds.length 6 = 2 ∨ min ds.length 6 = 3 ∨ min ds.length 6 = 4 ∨
      min ds.length 6 = 5 ∨ min ds.length 6 = 6 := by omega
  rcases hn with e | e | e | e | e | e | e <;> rw [e] at hb ⊢ <;> simp at hb ⊢ <;> omega

end Iso
