import OrsoVerif.Lemmas.Cache
/-! Helper lemmas for C19: invariant of the concurrent LRU semantics. -/
namespace Cache
set_option linter.unusedSectionVars false
set_option linter.unusedSimpArgs false
variable {K : Type} [DecidableEq K]

/-- every stored entry holds a result the wrapped function produced for the entry's key -/
def AllOwn (log : List (K × Int)) (items : List (LEntry K)) : Prop := ∀ e ∈ items, Own log e.key e.res

theorem AllOwn.mono {log : List (K × Int)} {items : List (LEntry K)} (l) (h : AllOwn log items) :
    AllOwn (log ++ l) items := fun e he => (h e he).mono l

theorem AllOwn.delKey {log : List (K × Int)} {items : List (LEntry K)} (k : K) (h : AllOwn log items) :
    AllOwn log (delKey items k) := fun e he => h e (List.mem_filter.mp he).1

theorem AllOwn.append {log : List (K × Int)} {items : List (LEntry K)} {e : LEntry K}
    (h : AllOwn log items) (he : Own log e.key e.res) : AllOwn log (items ++ [e]) := by
  intro e' hm
  rcases List.mem_append.mp hm with h1 | h1
  · exact h e' h1
  · simp only [List.mem_singleton] at h1; subst h1; exact he

theorem AllOwn.replace {log : List (K × Int)} {items : List (LEntry K)} {e : LEntry K} (k : K)
    (h : AllOwn log items) (he : Own log e.key e.res) :
    AllOwn log (items.map (fun e' => if e'.key = k then e else e')) := by
  intro e' hm
  obtain ⟨x, hx, rfl⟩ := List.mem_map.mp hm
  by_cases hk : x.key = k
  · rw [if_pos hk]; exact he
  · rw [if_neg hk]; exact h x hx

theorem AllOwn.tail {log : List (K × Int)} {x : LEntry K} {rest : List (LEntry K)}
    (h : AllOwn log (x :: rest)) : AllOwn log rest := fun e he => h e (List.mem_cons_of_mem _ he)

structure LTInv (log : List (K × Int)) (t : LThr K) : Prop where
  res : ∀ v, t.res = some v → Own log t.key v
  out : ∀ v, t.out = some (.ok v) → Own log t.key v
  /-- the value a hit is about to return (read from the dictionary under the lock) -/
  hit : ∀ v, t.pc = .rel1Hit v → Own log t.key v

theorem LTInv.mono {log : List (K × Int)} {t : LThr K} (l) (h : LTInv log t) : LTInv (log ++ l) t :=
  ⟨fun v hv => (h.res v hv).mono l, fun v hv => (h.out v hv).mono l, fun v hv => (h.hit v hv).mono l⟩

theorem LTInv.start (log : List (K × Int)) (k : K) : LTInv log (LThr.start k) :=
  ⟨by intro v hv; simp [LThr.start] at hv, by intro v hv; simp [LThr.start] at hv,
   by intro v hv; simp [LThr.start] at hv⟩

theorem iterStep_inv (valid : Option Int) (w : LWorld K) (t : LThr K) (k : K) (ver : Nat) (acc : List K)
    {log : List (K × Int)} (ht : LTInv log t) : LTInv log (iterStep valid w t k ver acc) := by
  unfold iterStep
  split
  · exact ⟨ht.res, ht.out, by intro v hv; simp at hv⟩
  · split
    · exact ⟨ht.res, ht.out, by intro v hv; simp at hv⟩
    · exact ⟨ht.res, ht.out, by intro v hv; simp at hv⟩

theorem iterStep_key (valid : Option Int) (w : LWorld K) (t : LThr K) (k : K) (ver : Nat) (acc : List K) :
    (iterStep valid w t k ver acc).key = t.key := by
  unfold iterStep
  split
  · rfl
  · split <;> rfl

theorem afterScan_ne (acc : List K) (v : Nat) : afterScan acc ≠ LPc.rel1Hit v := by
  unfold afterScan; split <;> simp

/-- One line of the LRU wrapper preserves the invariants and only appends to the log. -/
theorem lstepThr_inv (maxSize : Nat) (valid : Option Int) (cost : K → Int) (w : LWorld K) (t : LThr K)
    (hw : AllOwn w.log w.od.items) (ht : LTInv w.log t) :
    AllOwn (lstepThr maxSize valid cost w t).1.log (lstepThr maxSize valid cost w t).1.od.items ∧
    LTInv (lstepThr maxSize valid cost w t).1.log (lstepThr maxSize valid cost w t).2 ∧
    ∃ l, (lstepThr maxSize valid cost w t).1.log = w.log ++ l := by
  have herr : ∀ c : String, LTInv w.log { t with out := some (.err c) } :=
    fun c => ⟨ht.res, by intro v hv; simp at hv, ht.hit⟩
  have hpc : ∀ p : LPc K, (∀ v, p ≠ .rel1Hit v) → LTInv w.log { t with pc := p } :=
    fun p hp => ⟨ht.res, ht.out, fun v hv => absurd hv (hp v)⟩
  unfold lstepThr
  split
  · exact ⟨hw, ⟨ht.res, ht.out, by intro v hv; simp at hv⟩, [], by simp⟩                       -- clk
  · split                                                              -- acq1
    · exact ⟨hw, ht, [], by simp⟩
    · exact ⟨hw, hpc _ (by intro v; first | (simp; done) | exact afterScan_ne _ _), [], by simp⟩
  · split                                                              -- iterFirst
    · exact ⟨hw, hpc _ (by intro v; first | (simp; done) | exact afterScan_ne _ _), [], by simp⟩
    · exact ⟨hw, iterStep_inv valid w t _ _ _ ht, [], by simp⟩
  · exact ⟨hw, hpc _ (by intro v; first | (simp; done) | exact afterScan_ne _ _), [], by simp⟩
  · exact ⟨hw, iterStep_inv valid w t _ _ _ ht, [], by simp⟩
  · exact ⟨hw, hpc _ (by intro v; first | (simp; done) | exact afterScan_ne _ _), [], by simp⟩
  · split                                                              -- del
    · exact ⟨hw.delKey _, hpc _ (by intro v; split <;> simp), [], by simp⟩
    · exact ⟨hw, hpc _ (by intro v; first | (simp; done) | exact afterScan_ne _ _), [], by simp⟩
  · split                                                              -- inCheck
    · exact ⟨hw, hpc _ (by intro v; first | (simp; done) | exact afterScan_ne _ _), [], by simp⟩
    · exact ⟨hw, hpc _ (by intro v; first | (simp; done) | exact afterScan_ne _ _), [], by simp⟩
  · split                                                              -- move
    · exact ⟨hw, hpc _ (by intro v; first | (simp; done) | exact afterScan_ne _ _), [], by simp⟩
    · rename_i e he
      split
      · exact ⟨hw, hpc _ (by intro v; first | (simp; done) | exact afterScan_ne _ _), [], by simp⟩
      · exact ⟨(hw.delKey _).append (hw e (List.mem_of_find?_eq_some he)), hpc _ (by intro v; first | (simp; done) | exact afterScan_ne _ _), [], by simp⟩
  · split                                                              -- get
    · exact ⟨hw, hpc _ (by intro v; first | (simp; done) | exact afterScan_ne _ _), [], by simp⟩
    · rename_i e he
      have hk : e.key = t.key := by simpa using List.find?_some he
      refine ⟨hw, ⟨ht.res, ht.out, ?_⟩, [], by simp⟩
      intro v hv
      simp only [LPc.rel1Hit.injEq] at hv
      subst hv
      rw [← hk]; exact hw e (List.mem_of_find?_eq_some he)
  · -- rel1Hit v: the value was read from the dictionary under the lock; that it is the thread's own
    -- is part of `LockInv` (Lemmas/CacheLock.lean); here the weaker invariant only needs `ok`-outcomes
    -- that come from `res`, so this arm is handled by the caller-provided fact below
    rename_i v0 hpc0
    exact ⟨hw, ⟨ht.res, fun v hv => by
      simp only [Option.some.injEq, Outcome.ok.injEq] at hv
      subst hv
      exact ht.hit _ hpc0, ht.hit⟩, [], by simp⟩
  · exact ⟨hw, hpc _ (by intro v; first | (simp; done) | exact afterScan_ne _ _), [], by simp⟩                                     -- rel1Miss
  · refine ⟨hw.mono _, ⟨?_, fun v hv => (ht.out v hv).mono _, ?_⟩, _, rfl⟩   -- call
    · intro v hv
      simp only [Option.some.injEq] at hv
      subst hv
      exact Own.new _ _ _
    · intro v hv; simp at hv
  · split                                                              -- acq2
    · exact ⟨hw, ht, [], by simp⟩
    · exact ⟨hw, hpc _ (by intro v; first | (simp; done) | exact afterScan_ne _ _), [], by simp⟩
  · split                                                              -- store
    · exact ⟨hw, hpc _ (by intro v; first | (simp; done) | exact afterScan_ne _ _), [], by simp⟩
    · rename_i id hid
      have hown := ht.res id hid
      split
      · exact ⟨hw.replace _ hown, hpc _ (by intro v; first | (simp; done) | exact afterScan_ne _ _), [], by simp⟩
      · exact ⟨hw.append hown, hpc _ (by intro v; first | (simp; done) | exact afterScan_ne _ _), [], by simp⟩
  · split                                                              -- len
    · exact ⟨hw, hpc _ (by intro v; first | (simp; done) | exact afterScan_ne _ _), [], by simp⟩
    · exact ⟨hw, hpc _ (by intro v; first | (simp; done) | exact afterScan_ne _ _), [], by simp⟩
  · split                                                              -- pop
    · exact ⟨hw, hpc _ (by intro v; first | (simp; done) | exact afterScan_ne _ _), [], by simp⟩
    · rename_i x rest hitems
      refine ⟨?_, hpc _ (by intro v; first | (simp; done) | exact afterScan_ne _ _), [], by simp⟩
      have : AllOwn w.log (x :: rest) := by rw [← hitems]; exact hw
      exact this.tail
  · split                                                              -- rel2
    · exact ⟨hw, herr _, [], by simp⟩
    · rename_i id hid
      have hown := ht.res id hid
      refine ⟨hw, ⟨ht.res, ?_, ht.hit⟩, [], by simp⟩
      intro v hv
      simp only [Option.some.injEq, Outcome.ok.injEq] at hv
      subst hv; exact hown
  · exact ⟨hw, hpc _ (by intro v; first | (simp; done) | exact afterScan_ne _ _), [], by simp⟩                                     -- cleanup
  · exact ⟨hw, herr _, [], by simp⟩                                    -- relErr

def LCInv (c : LConc K) : Prop := AllOwn c.w.log c.w.od.items ∧ ∀ t ∈ c.thr, LTInv c.w.log t

theorem LCInv.init (t0 : Int) (keys : List K) : LCInv (LConc.init t0 keys) := by
  refine ⟨by intro e he; simp [LConc.init] at he, ?_⟩
  intro t ht
  simp only [LConc.init, List.mem_map] at ht
  obtain ⟨k, _, rfl⟩ := ht
  exact LTInv.start _ _

theorem lfinishThr_inv (maxSize : Nat) (valid : Option Int) (cost : K → Int) (fuel : Nat) :
    ∀ (w : LWorld K) (t : LThr K), AllOwn w.log w.od.items → LTInv w.log t →
    AllOwn (LConc.finishThr maxSize valid cost fuel w t).1.log (LConc.finishThr maxSize valid cost fuel w t).1.od.items ∧
    LTInv (LConc.finishThr maxSize valid cost fuel w t).1.log (LConc.finishThr maxSize valid cost fuel w t).2 ∧
    ∃ l, (LConc.finishThr maxSize valid cost fuel w t).1.log = w.log ++ l := by
  induction fuel with
  | zero => intro w t hw ht; exact ⟨hw, ht, [], by simp [LConc.finishThr]⟩
  | succ n ih =>
    intro w t hw ht
    unfold LConc.finishThr
    by_cases hd : t.out.isSome = true
    · rw [if_pos hd]; exact ⟨hw, ht, [], by simp⟩
    · rw [if_neg hd]
      obtain ⟨h1, h2, l1, h3⟩ := lstepThr_inv maxSize valid cost w t hw ht
      obtain ⟨h4, h5, l2, h6⟩ := ih _ _ h1 h2
      exact ⟨h4, h5, l1 ++ l2, by rw [h6, h3, List.append_assoc]⟩

theorem lset_inv {c : LConc K} {i : Nat} {w' : LWorld K} {t' : LThr K} {l : List (K × Int)}
    (hc : LCInv c) (hw : AllOwn w'.log w'.od.items) (ht : LTInv w'.log t') (hl : w'.log = c.w.log ++ l) :
    LCInv { w := w', thr := c.thr.set i t' } := by
  refine ⟨hw, ?_⟩
  intro t hmem
  rcases List.mem_or_eq_of_mem_set hmem with h | h
  · show LTInv w'.log t
    rw [hl]; exact (hc.2 t h).mono l
  · subst h; exact ht

theorem lstep_inv (maxSize : Nat) (valid : Option Int) (cost : K → Int) (c c' : LConc K) (s : SStep)
    (hc : LCInv c) (h : LConc.step maxSize valid cost c s = some c') : LCInv c' := by
  cases s with
  | tick d =>
    simp only [LConc.step, Option.some.injEq] at h
    subst h; exact hc
  | run i =>
    simp only [LConc.step] at h
    cases hg : c.thr[i]? with
    | none => simp [hg] at h
    | some t =>
      simp only [hg] at h
      by_cases hd : t.out.isSome = true
      · simp [hd] at h
      · simp only [hd, if_false, Option.some.injEq, Bool.false_eq_true] at h
        subst h
        have hm : t ∈ c.thr := List.mem_of_getElem? hg
        obtain ⟨h1, h2, l, h3⟩ := lstepThr_inv maxSize valid cost c.w t hc.1 (hc.2 t hm)
        exact lset_inv hc h1 h2 h3
  | finish i =>
    simp only [LConc.step] at h
    cases hg : c.thr[i]? with
    | none => simp [hg] at h
    | some t =>
      simp only [hg] at h
      by_cases hd : t.out.isSome = true
      · simp [hd] at h
      · simp only [hd, if_false, Option.some.injEq, Bool.false_eq_true] at h
        subst h
        have hm : t ∈ c.thr := List.mem_of_getElem? hg
        obtain ⟨h1, h2, l, h3⟩ := lfinishThr_inv maxSize valid cost _ c.w t hc.1 (hc.2 t hm)
        exact lset_inv hc h1 h2 h3

theorem lrunSched_inv (maxSize : Nat) (valid : Option Int) (cost : K → Int) (ss : List SStep) :
    ∀ (c c' : LConc K), LCInv c → LConc.runSched maxSize valid cost c ss = some c' → LCInv c' := by
  induction ss with
  | nil => intro c c' hc h; simp only [LConc.runSched, Option.some.injEq] at h; subst h; exact hc
  | cons s ss ih =>
    intro c c' hc h
    simp only [LConc.runSched] at h
    cases hs : LConc.step maxSize valid cost c s with
    | none => simp [hs] at h
    | some c1 =>
      simp only [hs] at h
      exact ih c1 c' (lstep_inv maxSize valid cost c c1 s hc hs) h

end Cache
