import OrsoVerif.Lemmas.CacheGen
import OrsoVerif.Lemmas.CacheRefine
/-! C19, round 4: the size arithmetic of the GENERATED LRU wrapper for an arbitrary `==` and hash. -/
set_option linter.unusedSectionVars false
set_option linter.unusedSimpArgs false
set_option linter.unusedVariables false
namespace Cache
open Gen.CacheFns
variable {α β : Type} [BEq α] [BEq β] [Hashable α] [Hashable β]

theorem length_foldl_delitem_le (ks : List (α × β)) : ∀ c : PyOD (α × β) (Int × Nat),
    (ks.foldl (fun c k => PyOD.delitem c k) c).length ≤ c.length := by
  induction ks with
  | nil => intro c; exact Nat.le_refl _
  | cons k ks ih => intro c; exact Nat.le_trans (ih _) (List.length_filter_le _ _)

theorem len_move_to_end_le (c : PyOD (α × β) (Int × Nat)) (k : α × β) :
    PyOD.len (PyOD.move_to_end c k) ≤ PyOD.len c := by
  unfold PyOD.move_to_end PyOD.len
  split
  · rename_i e he
    have hm := List.mem_of_find?_eq_some he
    have hp : PyOD.keyMatch e.1 k = true := by simpa using List.find?_some he
    have := length_filter_lt (fun e' : (α × β) × Int × Nat => !PyOD.keyMatch e'.1 k) c e hm (by simp [hp])
    simp only [List.length_append, List.length_cons, List.length_nil]
    omega
  · exact Nat.le_refl _

/-- one call of the generated wrapper never leaves more than `max_size` entries (any `==`, any hash, any `max_size` incl. 0) -/
theorem lru_wrapper_size (cost : α × β → Int) (maxSize : Nat) (valid : Option Int) (a : α) (b : β)
    (c : PyOD (α × β) (Int × Nat)) (w : FnWorld (α × β)) (h : PyOD.len c ≤ maxSize) :
    PyOD.len (lru_wrapper cost maxSize valid a b c w).2.1 ≤ maxSize := by
  unfold lru_wrapper
  simp only [FnWorld.time, FnWorld.call, gExpired_eq]
  generalize hc1 : (gExpired valid w.now c).foldl (fun c k => PyOD.delitem c k) c = c1
  have hl1 : PyOD.len c1 ≤ maxSize := by
    rw [← hc1]; exact Nat.le_trans (length_foldl_delitem_le _ _) h
  by_cases hcont : PyOD.contains c1 (a, b) = true
  · simp only [hcont, ↓reduceIte]
    exact Nat.le_trans (len_move_to_end_le _ _) hl1
  · have hcf : PyOD.contains c1 (a, b) = false := by simpa using hcont
    simp only [hcf, Bool.false_eq_true, ↓reduceIte]
    have hset : PyOD.len (PyOD.setitem c1 (a, b) (w.now, w.log.length)) = PyOD.len c1 + 1 := by
      simp [PyOD.setitem, hcf, PyOD.len]
    by_cases hgt : PyOD.len (PyOD.setitem c1 (a, b) (w.now, w.log.length)) > maxSize
    · simp only [hgt, ↓reduceIte]
      simp only [PyOD.popitem, Bool.false_eq_true, ↓reduceIte, PyOD.len, List.length_tail]
      simp only [PyOD.len] at hset hl1
      omega
    · simp only [hgt, ↓reduceIte]
      omega

end Cache
