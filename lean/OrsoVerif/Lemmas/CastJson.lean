import OrsoVerif.Model.CastJson
import OrsoVerif.Lemmas.CastDecimal
import OrsoVerif.Lemmas.Cast
import OrsoVerif.Lemmas.IsoText
/-!
# `readJson (render v) = v`: the JSON reader of `Model/CastJson.lean` inverts its writer

Strings by induction over the characters, numbers through the core digit lemmas, values and element
lists by mutual structural induction (the reader itself is fuel-recursive, not mutual).
-/
set_option linter.unusedSimpArgs false
namespace Cast.Json

/-! ## white space, stops -/

theorem skipWs_append (w s : List Char) (hw : ∀ c ∈ w, isWs c = true) : skipWs (w ++ s) = skipWs s := by
  induction w with
  | nil => rfl
  | cons a w ih =>
    have ha := hw a (List.mem_cons_self ..)
    simp only [skipWs, List.cons_append, List.dropWhile_cons, ha, if_true]
    exact ih fun c hc => hw c (List.mem_cons_of_mem _ hc)

theorem skipWs_cons (c : Char) (s : List Char) (hc : isWs c = false) : skipWs (c :: s) = c :: s := by
  simp [skipWs, List.dropWhile_cons, hc]

/-- What may follow a number: nothing, or a character a number token cannot contain. -/
def Stop (rest : List Char) : Prop := ∀ c, rest.head? = some c → isNumChar c = false

theorem takeWhile_append_stop {p : Char → Bool} (l r : List Char) (hl : ∀ c ∈ l, p c = true)
    (hr : ∀ c, r.head? = some c → p c = false) : (l ++ r).takeWhile p = l ∧ (l ++ r).dropWhile p = r := by
  induction l with
  | nil =>
    cases r with
    | nil => exact ⟨rfl, rfl⟩
    | cons a r => simp [List.takeWhile_cons, List.dropWhile_cons, hr a rfl]
  | cons a l ih =>
    have ha := hl a (List.mem_cons_self ..)
    have := ih fun c hc => hl c (List.mem_cons_of_mem _ hc)
    simp [List.takeWhile_cons, List.dropWhile_cons, ha, this.1, this.2]

/-! ## strings -/

theorem readStr_cons (fuel : Nat) (c : Char) (r : List Char) :
    readStr (fuel + 1) (c :: r) =
    if c = '"' then some ([], r)
    else if c = '\\' then
      match r with
      | [] => none
      | e :: r2 =>
        if e = 'u' then
          match hex4 r2 with
          | none => none
          | some (u, r3) =>
            if 0xD800 ≤ u ∧ u < 0xDC00 then
              match r3 with
              | b :: v :: r4 =>
                if b = '\\' ∧ v = 'u' then
                  match hex4 r4 with
                  | some (l, r5) =>
                    if 0xDC00 ≤ l ∧ l < 0xE000 then
                      consFst (Char.ofNat (0x10000 + (u - 0xD800) * 1024 + (l - 0xDC00))) (readStr fuel r5)
                    else none
                  | none => none
                else none
              | _ => none
            else if 0xDC00 ≤ u ∧ u < 0xE000 then none
            else consFst (Char.ofNat u) (readStr fuel r3)
        else
          match unescape e with
          | some ch => consFst ch (readStr fuel r2)
          | none => none
    else if c.toNat < 0x20 then none
    else consFst c (readStr fuel r) := rfl

theorem hexVal_hexDigit : ∀ k < 16, hexVal (hexDigit k) = some k := by decide

theorem length_escBody (s : List Char) : s.length ≤ (escBody s).length := by
  induction s with
  | nil => exact Nat.le_refl _
  | cons c s ih =>
    have : 1 ≤ (escChar c).length := by
      unfold escChar; repeat' split
      all_goals simp
    simp only [escBody, List.length_append, List.length_cons]; omega


theorem hex4_00 (n : Nat) (hn : n < 32) (r : List Char) :
    hex4 ('0' :: '0' :: hexDigit (n / 16) :: hexDigit (n % 16) :: r) = some (n, r) := by
  have h1 := hexVal_hexDigit (n / 16) (by omega)
  have h2 := hexVal_hexDigit (n % 16) (by omega)
  have h0 : hexVal '0' = some 0 := by decide
  simp only [hex4, h0, h1, h2]
  congr 2; omega

/-- After the opening quote the reader gives back exactly the characters that were escaped. -/
theorem readStr_escBody (s : List Char) : ∀ (fuel : Nat) (rest : List Char), s.length < fuel →
    readStr fuel (escBody s ++ '"' :: rest) = some (s, rest) := by
  induction s with
  | nil =>
    intro fuel rest h
    obtain ⟨f, rfl⟩ : ∃ f, fuel = f + 1 := ⟨fuel - 1, by omega⟩
    simp [escBody, readStr_cons]
  | cons c s ih =>
    intro fuel rest h
    obtain ⟨f, rfl⟩ : ∃ f, fuel = f + 1 := ⟨fuel - 1, by simp at h; omega⟩
    have ih' := ih f rest (by simp at h; omega)
    simp only [escBody, escChar]
    split
    · next h1 => subst h1; simp [readStr_cons, unescape, ih', consFst]
    split
    · next h1 => subst h1; simp [readStr_cons, unescape, ih', consFst]
    split
    · next _ _ h1 =>
      have : c = Char.ofNat 8 := by rw [← h1, Char.ofNat_toNat]
      subst this; simp [readStr_cons, unescape, ih', consFst]
    split
    · next _ _ _ h1 =>
      have : c = Char.ofNat 12 := by rw [← h1, Char.ofNat_toNat]
      subst this; simp [readStr_cons, unescape, ih', consFst]
    split
    · next h1 => subst h1; simp [readStr_cons, unescape, ih', consFst]
    split
    · next h1 => subst h1; simp [readStr_cons, unescape, ih', consFst]
    split
    · next h1 => subst h1; simp [readStr_cons, unescape, ih', consFst]
    split
    · next h1 =>
      have hx := hex4_00 c.toNat (by omega) (escBody s ++ '"' :: rest)
      simp only [List.cons_append, List.nil_append, readStr_cons]
      simp only [show ('\\' : Char) ≠ '"' by decide, if_false, if_true, hx]
      rw [if_neg (by omega), if_neg (by omega), ih', Char.ofNat_toNat]
      rfl
    · next hq hb _ _ _ _ _ hlt =>
      simp only [List.cons_append, List.nil_append, readStr_cons, if_neg hq, if_neg hb, if_neg hlt, ih']
      rfl


/-! ## numbers -/

theorem digit_facts {c : Char} (h : c.isDigit = true) :
    c ≠ '-' ∧ isWs c = false ∧ c ≠ ']' ∧ isNumChar c = true := by
  refine ⟨?_, ?_, ?_, ?_⟩
  · rintro rfl; exact absurd h (by decide)
  · simp only [isWs, Bool.or_eq_false_iff, beq_eq_false_iff_ne]
    refine ⟨⟨⟨?_, ?_⟩, ?_⟩, ?_⟩ <;> (rintro rfl; exact absurd h (by decide))
  · rintro rfl; exact absurd h (by decide)
  · simp [isNumChar, h]

/-- No leading zero: the first decimal digit of a positive number is not `0`. -/
theorem toDigits_head_ne_zero : ∀ n : Nat, 0 < n → (Nat.toDigits 10 n).head? ≠ some '0' := by
  intro n
  induction n using Nat.strongRecOn with
  | _ n ih =>
    intro hn
    rw [Nat.toDigits_eq_if (by decide)]
    split
    · next hlt =>
      have : n = 1 ∨ n = 2 ∨ n = 3 ∨ n = 4 ∨ n = 5 ∨ n = 6 ∨ n = 7 ∨ n = 8 ∨ n = 9 := by omega
      rcases this with h | h | h | h | h | h | h | h | h <;> subst h <;> decide
    · next hge =>
      have h1 := ih (n / 10) (by omega) (by omega)
      cases hd : Nat.toDigits 10 (n / 10) with
      | nil => exact absurd hd Nat.toDigits_ne_nil
      | cons a t => rw [hd] at h1; simpa using h1

theorem intPartOk_toDigits (n : Nat) : intPartOk (Nat.toDigits 10 n) = true := by
  cases hd : Nat.toDigits 10 n with
  | nil => exact absurd hd Nat.toDigits_ne_nil
  | cons a t =>
    have hall := toDigits_isDigit n
    rw [hd] at hall
    have ha := hall a (List.mem_cons_self ..)
    have ht : allDigits t = true := (allDigits_iff t).2 fun c hc => hall c (List.mem_cons_of_mem _ hc)
    simp only [intPartOk, ha, ht, Bool.true_and, Bool.or_eq_true, bne_iff_ne, ne_eq, List.isEmpty_iff]
    by_cases hn : n = 0
    · subst hn
      rw [Nat.toDigits_zero] at hd
      right; injection hd with _ h2; exact h2.symm
    · left
      have := toDigits_head_ne_zero n (by omega)
      rw [hd] at this
      simpa using this

theorem splitMinus_toDigits (n : Nat) : splitMinus (Nat.toDigits 10 n) = (false, Nat.toDigits 10 n) := by
  cases hd : Nat.toDigits 10 n with
  | nil => exact absurd hd Nat.toDigits_ne_nil
  | cons a t =>
    have hall := toDigits_isDigit n
    rw [hd] at hall
    have ha := hall a (List.mem_cons_self ..)
    simp [splitMinus, (digit_facts ha).1]

theorem numberOk_body (ds : List Char) (h : ∀ c ∈ ds, c.isDigit = true) (hi : intPartOk ds = true) :
    (let mant := ds.takeWhile notE
     intPartOk (mant.takeWhile notDot) && fracOk (mant.dropWhile notDot) && expOk (ds.dropWhile notE)) = true := by
  have h1 : ds.takeWhile notE = ds := takeWhile_all _ _ fun c hc => notE_of_isDigit (h c hc)
  have h2 : ds.dropWhile notE = [] := dropWhile_all _ _ fun c hc => notE_of_isDigit (h c hc)
  have h3 : ds.takeWhile notDot = ds := takeWhile_all _ _ fun c hc => notDot_of_isDigit (h c hc)
  have h4 : ds.dropWhile notDot = [] := dropWhile_all _ _ fun c hc => notDot_of_isDigit (h c hc)
  simp only [h1, h2, h3, h4, hi, fracOk, expOk, Bool.and_self]

theorem renderInt_cases (n : Int) :
    (n < 0 ∧ renderInt n = '-' :: Nat.toDigits 10 n.natAbs) ∨ (0 ≤ n ∧ renderInt n = Nat.toDigits 10 n.natAbs) := by
  unfold renderInt renderNat
  by_cases h : n < 0
  · left; exact ⟨h, by rw [if_pos h]⟩
  · right; exact ⟨by omega, by rw [if_neg h]⟩

theorem numValue_renderInt (fot : List Char → Option UInt64) (n : Int)
    (h1 : -9223372036854775808 ≤ n) (h2 : n < 18446744073709551616) :
    numValue fot (renderInt n) = some (.int n) := by
  have hd := toDigits_isDigit n.natAbs
  have hi := intPartOk_toDigits n.natAbs
  have hb := numberOk_body _ hd hi
  have hnat : natOf (Nat.toDigits 10 n.natAbs) = n.natAbs := natOf_toDigits _
  rcases renderInt_cases n with ⟨hn, hr⟩ | ⟨hn, hr⟩
  · have hsm : splitMinus ('-' :: Nat.toDigits 10 n.natAbs) = (true, Nat.toDigits 10 n.natAbs) := by simp [splitMinus]
    have hok : numberOk ('-' :: Nat.toDigits 10 n.natAbs) = true := by
      simp only [numberOk, hsm]; exact hb
    have hint : isIntTok ('-' :: Nat.toDigits 10 n.natAbs) = true := by
      simp only [isIntTok, List.all_cons, List.all_eq_true, Bool.and_eq_true, Bool.or_eq_true, beq_iff_eq]
      exact ⟨Or.inr trivial, fun c hc => Or.inl (hd c hc)⟩
    have hv : -((n.natAbs : Nat) : Int) = n := by omega
    simp only [numValue, hr, hok, hint, hsm, hnat, hv, Bool.not_true, Bool.false_eq_true, if_false, if_true,
      Bool.true_and, Bool.and_eq_true, decide_eq_true_eq]
    rw [if_pos ⟨h1, h2⟩]
  · have hsm := splitMinus_toDigits n.natAbs
    have hok : numberOk (Nat.toDigits 10 n.natAbs) = true := by
      simp only [numberOk, hsm]; exact hb
    have hint : isIntTok (Nat.toDigits 10 n.natAbs) = true := by
      simp only [isIntTok, List.all_eq_true, Bool.or_eq_true, beq_iff_eq]
      exact fun c hc => Or.inl (hd c hc)
    have hv : ((n.natAbs : Nat) : Int) = n := by omega
    simp only [numValue, hr, hok, hint, hsm, hnat, hv, Bool.not_true, Bool.false_eq_true, if_false, if_true,
      Bool.true_and, Bool.and_eq_true, decide_eq_true_eq]
    rw [if_pos ⟨h1, h2⟩]

theorem renderInt_numChars (n : Int) : ∀ c ∈ renderInt n, isNumChar c = true := by
  intro c hc
  rcases renderInt_cases n with ⟨_, hr⟩ | ⟨_, hr⟩
  · rw [hr] at hc
    rcases List.mem_cons.1 hc with rfl | hc
    · decide
    · exact (digit_facts (toDigits_isDigit _ c hc)).2.2.2
  · rw [hr] at hc
    exact (digit_facts (toDigits_isDigit _ c hc)).2.2.2

/-- The first character of an integer rendering: `-` or a digit. -/
theorem renderInt_head (n : Int) : ∃ c r, renderInt n = c :: r ∧ (c = '-' ∨ c.isDigit = true) := by
  rcases renderInt_cases n with ⟨_, hr⟩ | ⟨_, hr⟩
  · exact ⟨'-', _, hr, Or.inl rfl⟩
  · cases hd : Nat.toDigits 10 n.natAbs with
    | nil => exact absurd hd Nat.toDigits_ne_nil
    | cons a t =>
      refine ⟨a, t, by rw [hr, hd], Or.inr ?_⟩
      exact toDigits_isDigit n.natAbs a (by rw [hd]; exact List.mem_cons_self ..)

/-- The first character of any token the number grammar accepts: `-` or a digit. -/
theorem numberOk_head (t : List Char) (h : numberOk t = true) : ∃ c r, t = c :: r ∧ (c = '-' ∨ c.isDigit = true) := by
  cases t with
  | nil => simp [numberOk, splitMinus, intPartOk] at h
  | cons c r =>
    refine ⟨c, r, rfl, ?_⟩
    by_cases hc : c = '-'
    · exact Or.inl hc
    · right
      simp only [numberOk, splitMinus, if_neg hc, Bool.and_eq_true] at h
      have h1 := h.1.1
      by_cases he : notE c = true
      · by_cases hdt : notDot c = true
        · simp only [List.takeWhile_cons, he, hdt, if_true, intPartOk, Bool.and_eq_true] at h1
          exact h1.1.1
        · simp [List.takeWhile_cons, he, hdt, intPartOk] at h1
      · simp [List.takeWhile_cons, he, intPartOk] at h1

theorem numValue_float (fot : List Char → Option UInt64) (rep : UInt64 → List Char) (b : UInt64)
    (h : FloatParam fot rep b) : numValue fot (rep b) = some (.float b) := by
  obtain ⟨_, hok, hint, hf, hinf⟩ := h
  simp [numValue, hok, hint, hf, hinf]


/-! ## values and element lists -/

theorem readValue_cons (fot : List Char → Option UInt64) (fuel : Nat) (c : Char) (r : List Char) :
    readValue fot (fuel + 1) (c :: r) =
    if c = '-' ∨ c.isDigit = true then
      match numValue fot ((c :: r).takeWhile isNumChar) with
      | some v => .ok (v, (c :: r).dropWhile isNumChar)
      | none => .error .bad
    else if c = '[' then
      if (skipWs r).head? = some ']' then .ok (.arr [], (skipWs r).tail)
      else
        match readItems (readValue fot fuel) (skipWs r).length (skipWs r) with
        | .ok (vs, r3) => .ok (.arr vs, r3)
        | .error e => .error e
    else if c = '"' then
      match readStr (r.length + 1) r with
      | some (t, r2) => .ok (.str t, r2)
      | none => .error .bad
    else if c = '{' then .error .unsupported
    else if c = 'n' then
      match lit ['u', 'l', 'l'] r with | some r2 => .ok (.null, r2) | none => .error .bad
    else if c = 't' then
      match lit ['r', 'u', 'e'] r with | some r2 => .ok (.bool true, r2) | none => .error .bad
    else if c = 'f' then
      match lit ['a', 'l', 's', 'e'] r with | some r2 => .ok (.bool false, r2) | none => .error .bad
    else .error .bad := rfl

theorem readItems_succ (rd : List Char → Except Err (J × List Char)) (fuel : Nat) (s : List Char) :
    readItems rd (fuel + 1) s =
    match rd s with
    | .error e => .error e
    | .ok (v, r) =>
      match skipWs r with
      | [] => .error .bad
      | d :: r2 =>
        if d = ']' then .ok ([v], r2)
        else if d = ',' then
          match readItems rd fuel (skipWs r2) with
          | .ok (vs, r3) => .ok (v :: vs, r3)
          | .error e => .error e
        else .error .bad := rfl

/-- A number token followed by a stop is read whole. -/
theorem readValue_number (fot : List Char → Option UInt64) (f : Nat) (tok rest : List Char) (v : J)
    (hh : ∃ c r, tok = c :: r ∧ (c = '-' ∨ c.isDigit = true)) (hn : ∀ c ∈ tok, isNumChar c = true)
    (hv : numValue fot tok = some v) (hs : Stop rest) :
    readValue fot (f + 1) (tok ++ rest) = .ok (v, rest) := by
  obtain ⟨c, r, rfl, hc⟩ := hh
  have := takeWhile_append_stop (p := isNumChar) (c :: r) rest hn hs
  rw [List.cons_append, readValue_cons, if_pos hc, ← List.cons_append, this.1, this.2, hv]

theorem isWs_not_numChar {c : Char} (h : isWs c = true) : isNumChar c = false := by
  simp only [isWs, Bool.or_eq_true, beq_iff_eq] at h
  rcases h with ((rfl | rfl) | rfl) | rfl <;> decide

/-- The first character of a rendering: not white space, not `]`. -/
theorem render_head (fot : List Char → Option UInt64) (rep : UInt64 → List Char) (w : Ws) (v : J) (hw : Wf fot rep v) :
    ∃ c r, render w rep v = c :: r ∧ isWs c = false ∧ c ≠ ']' := by
  have key : ∀ t : List Char, (∃ c r, t = c :: r ∧ (c = '-' ∨ c.isDigit = true)) →
      ∃ c r, t = c :: r ∧ isWs c = false ∧ c ≠ ']' := by
    rintro t ⟨c, r, rfl, hc⟩
    refine ⟨c, r, rfl, ?_⟩
    rcases hc with rfl | hc
    · exact ⟨by decide, by decide⟩
    · exact ⟨(digit_facts hc).2.1, (digit_facts hc).2.2.1⟩
  match v with
  | .null => exact ⟨'n', ['u', 'l', 'l'], by simp [render], by decide, by decide⟩
  | .bool true => exact ⟨'t', ['r', 'u', 'e'], by simp [render], by decide, by decide⟩
  | .bool false => exact ⟨'f', ['a', 'l', 's', 'e'], by simp [render], by decide, by decide⟩
  | .int n => simp only [render]; exact key _ (renderInt_head n)
  | .float b =>
    simp only [render]
    simp only [Wf] at hw
    exact key _ (numberOk_head _ hw.2.1)
  | .str s => exact ⟨'"', escBody s ++ ['"'], by simp [render, renderStr], by decide, by decide⟩
  | .arr [] => exact ⟨'[', [']'], by simp [render], by decide, by decide⟩
  | .arr (x :: xs) =>
    exact ⟨'[', w.afterOpen ++ (render w rep x ++ renderTail w rep xs), by simp [render], by decide, by decide⟩

theorem stop_renderTail (rep : UInt64 → List Char) (w : Ws) (hwok : w.ok) (xs : List J) (rest : List Char) :
    Stop (renderTail w rep xs ++ rest) := by
  intro c hc
  cases xs with
  | nil =>
    simp only [renderTail] at hc
    cases hb : w.beforeClose with
    | nil => rw [hb] at hc; simp at hc; subst hc; decide
    | cons a t =>
      rw [hb] at hc; simp at hc; subst hc
      exact isWs_not_numChar (hwok.2.2 a (by rw [hb]; exact List.mem_cons_self ..))
  | cons x xs =>
    simp only [renderTail, List.cons_append, List.head?_cons, Option.some.injEq] at hc
    subst hc; decide

theorem length_renderTail (rep : UInt64 → List Char) (w : Ws) : ∀ xs : List J, xs.length < (renderTail w rep xs).length := by
  intro xs
  induction xs with
  | nil => simp [renderTail]
  | cons x xs ih => simp only [renderTail, List.length_cons, List.length_append]; omega

mutual
/-- The reader gives back a rendered value and leaves what follows it unread. -/
theorem readValue_render (fot : List Char → Option UInt64) (rep : UInt64 → List Char) (w : Ws) (hwok : w.ok)
    (v : J) (f : Nat) (rest : List Char) (hw : Wf fot rep v) (hd : depth v ≤ f) (hs : Stop rest) :
    readValue fot (f + 1) (render w rep v ++ rest) = .ok (v, rest) := by
  match v with
  | .null => simp [render, readValue_cons, lit, List.isPrefixOf]
  | .bool true => simp [render, readValue_cons, lit, List.isPrefixOf]
  | .bool false => simp [render, readValue_cons, lit, List.isPrefixOf]
  | .int n =>
    simp only [Wf] at hw
    simp only [render]
    exact readValue_number fot f _ rest _ (renderInt_head n) (renderInt_numChars n) (numValue_renderInt fot n hw.1 hw.2) hs
  | .float b =>
    simp only [Wf] at hw
    simp only [render]
    exact readValue_number fot f _ rest _ (numberOk_head _ hw.2.1) hw.1 (numValue_float fot rep b hw) hs
  | .str s =>
    have hl : s.length < (escBody s ++ '"' :: rest).length + 1 := by
      have := length_escBody s
      simp only [List.length_append, List.length_cons]; omega
    simp only [render, renderStr, List.cons_append, List.append_assoc, List.nil_append, readValue_cons]
    simp only [show ¬ (('"' : Char) = '-' ∨ ('"' : Char).isDigit = true) by decide, show ('"' : Char) ≠ '[' by decide,
      if_false, if_true, readStr_escBody s _ rest hl]
  | .arr [] =>
    simp only [render, List.cons_append, List.nil_append, readValue_cons]
    simp only [show ¬ (('[' : Char) = '-' ∨ ('[' : Char).isDigit = true) by decide, if_false, if_true,
      skipWs_cons ']' rest (by decide), List.head?_cons, List.tail_cons]
  | .arr (x :: xs) =>
    simp only [Wf, WfL] at hw
    simp only [depth, depthL] at hd
    obtain ⟨g, rfl⟩ : ∃ g, f = g + 1 := ⟨f - 1, by omega⟩
    obtain ⟨c, r, hx, hc1, hc2⟩ := render_head fot rep w x hw.1
    have hsk : skipWs (w.afterOpen ++ (render w rep x ++ (renderTail w rep xs ++ rest)))
        = render w rep x ++ (renderTail w rep xs ++ rest) := by
      rw [skipWs_append _ _ hwok.1, hx, List.cons_append, skipWs_cons _ _ hc1]
    have hhead : (render w rep x ++ (renderTail w rep xs ++ rest)).head? ≠ some ']' := by
      rw [hx]; simpa using hc2
    have hx1 := readValue_render fot rep w hwok x g (renderTail w rep xs ++ rest) hw.1 (by omega)
      (stop_renderTail rep w hwok xs rest)
    have hk : xs.length < (render w rep x ++ (renderTail w rep xs ++ rest)).length := by
      have := length_renderTail rep w xs
      simp only [List.length_append]; omega
    have := readItems_tail fot rep w hwok xs g x _ _ rest hw.2 (by omega) hs hx1 hk
    simp only [render, List.cons_append, List.append_assoc, readValue_cons]
    simp only [show ¬ (('[' : Char) = '-' ∨ ('[' : Char).isDigit = true) by decide, if_false, if_true, hsk, if_neg hhead, this]
/-- The element loop, entered with the first element `v` already known to read: it collects `v` and
the remaining rendered elements up to the closing bracket. -/
theorem readItems_tail (fot : List Char → Option UInt64) (rep : UInt64 → List Char) (w : Ws) (hwok : w.ok)
    (xs : List J) (g : Nat) (v : J) (s : List Char) (k : Nat) (rest : List Char)
    (hw : WfL fot rep xs) (hd : depthL xs ≤ g) (hs : Stop rest)
    (h : readValue fot (g + 1) s = .ok (v, renderTail w rep xs ++ rest)) (hk : xs.length < k) :
    readItems (readValue fot (g + 1)) k s = .ok (v :: xs, rest) := by
  obtain ⟨k', rfl⟩ : ∃ k', k = k' + 1 := ⟨k - 1, by omega⟩
  match xs with
  | [] =>
    have hsk : skipWs (w.beforeClose ++ (']' :: rest)) = ']' :: rest := by
      rw [skipWs_append _ _ hwok.2.2, skipWs_cons _ _ (by decide)]
    simp only [readItems_succ, h, renderTail, List.append_assoc, List.cons_append, List.nil_append, hsk, if_true]
  | x :: xs =>
    simp only [WfL] at hw
    simp only [depthL] at hd
    obtain ⟨c, r, hx, hc1, _⟩ := render_head fot rep w x hw.1
    have hsk : skipWs (w.afterComma ++ (render w rep x ++ (renderTail w rep xs ++ rest)))
        = render w rep x ++ (renderTail w rep xs ++ rest) := by
      rw [skipWs_append _ _ hwok.2.1, hx, List.cons_append, skipWs_cons _ _ hc1]
    have hx1 := readValue_render fot rep w hwok x g (renderTail w rep xs ++ rest) hw.1 (by omega)
      (stop_renderTail rep w hwok xs rest)
    have := readItems_tail fot rep w hwok xs g x _ k' rest hw.2 (by omega) hs hx1 (by simp at hk; omega)
    simp only [readItems_succ, h, renderTail, List.append_assoc, List.cons_append,
      skipWs_cons ',' _ (by decide), show (',' : Char) ≠ ']' by decide, if_false, if_true, hsk, this]
end

/-- **`orjson.loads(dumps(v)) = v`** for the model's reader and writer: any white space around the
document, any JSON white space after `[`, after `,` and before `]`. -/
theorem readJson_render (fot : List Char → Option UInt64) (rep : UInt64 → List Char) (w : Ws) (hwok : w.ok)
    (v : J) (hw : Wf fot rep v) (pre post : List Char)
    (hpre : ∀ c ∈ pre, isWs c = true) (hpost : ∀ c ∈ post, isWs c = true)
    (hdepth : depth v ≤ (pre ++ (render w rep v ++ post)).length) :
    readJson fot (pre ++ (render w rep v ++ post)) = .ok v := by
  obtain ⟨c, r, hx, hc1, _⟩ := render_head fot rep w v hw
  have hsk : skipWs (pre ++ (render w rep v ++ post)) = render w rep v ++ post := by
    rw [skipWs_append _ _ hpre, hx, List.cons_append, skipWs_cons _ _ hc1]
  have hstop : Stop post := by
    intro c hc
    cases post with
    | nil => simp at hc
    | cons a t => simp at hc; subst hc; exact isWs_not_numChar (hpost a (List.mem_cons_self ..))
  have hpost' : skipWs post = [] := by
    have := skipWs_append post [] hpost
    simpa [skipWs] using this
  simp only [readJson, hsk, readValue_render fot rep w hwok v _ post hw hdepth hstop, hpost', List.isEmpty_nil, if_true]


mutual
/-- Every level of nesting writes at least its opening bracket: the depth never exceeds the length
of the text (so `readJson`'s fuel, the length of the input, always suffices). -/
theorem depth_le_length (rep : UInt64 → List Char) (w : Ws) (v : J) : depth v ≤ (render w rep v).length := by
  match v with
  | .null | .bool _ | .int _ | .float _ | .str _ => simp [depth]
  | .arr [] => simp [depth, depthL, render]
  | .arr (x :: xs) =>
    have h1 := depth_le_length rep w x
    have h2 := depthL_le_length rep w xs
    simp only [depth, depthL, render, List.length_cons, List.length_append]; omega
theorem depthL_le_length (rep : UInt64 → List Char) (w : Ws) (xs : List J) : depthL xs ≤ (renderTail w rep xs).length := by
  match xs with
  | [] => simp [depthL]
  | x :: xs =>
    have h1 := depth_le_length rep w x
    have h2 := depthL_le_length rep w xs
    simp only [depthL, renderTail, List.length_cons, List.length_append]; omega
end

/-- `readJson_render` without the depth hypothesis. -/
theorem readJson_render' (fot : List Char → Option UInt64) (rep : UInt64 → List Char) (w : Ws) (hwok : w.ok)
    (v : J) (hw : Wf fot rep v) (pre post : List Char)
    (hpre : ∀ c ∈ pre, isWs c = true) (hpost : ∀ c ∈ post, isWs c = true) :
    readJson fot (pre ++ (render w rep v ++ post)) = .ok v :=
  readJson_render fot rep w hwok v hw pre post hpre hpost (by
    have := depth_le_length rep w v
    simp only [List.length_append]; omega)

/-! ## the array cast from text -/

/-- Casting the JSON text of an array is casting its elements (`parseArray`), as text and as the UTF-8 bytes of it. -/
theorem parseArrayText_render (fot : List Char → Option UInt64) (rep : UInt64 → List Char) (w : Ws) (hwok : w.ok)
    (xs : List J) (hw : WfL fot rep xs) (elem : Option Ty) (pre post : List Char)
    (hpre : ∀ c ∈ pre, isWs c = true) (hpost : ∀ c ∈ post, isWs c = true) :
    parseArrayText fot elem (.str (pre ++ (render w rep (.arr xs) ++ post))) = some (parseArray fot elem (xs.map J.toVal)) ∧
    parseArrayText fot elem (.bytes (String.ofList (pre ++ (render w rep (.arr xs) ++ post))).toUTF8.data.toList)
      = some (parseArray fot elem (xs.map J.toVal)) := by
  have h := readJson_render' fot rep w hwok (.arr xs) (by simpa [Wf] using hw) pre post hpre hpost
  have hu := Iso.decodeUtf8_toUTF8 (String.ofList (pre ++ (render w rep (.arr xs) ++ post)))
  rw [String.toList_ofList] at hu
  constructor
  · simp only [parseArrayText, loadElements, h, elementsOf, Option.map_some, Cast.bind_ok]
  · simp only [parseArrayText, loadElements, hu, h, elementsOf, Option.map_some, Cast.bind_ok]

/-- An element-wise cast that succeeds on every element succeeds on the list, with those results. -/
theorem parseArray_pointwise (fot : List Char → Option UInt64) (t : Ty) (f : Option Val → Option Val) :
    ∀ (xs : List (Option Val)), (∀ x ∈ xs, parse fot t x = .ok (f x)) → parseArray fot (some t) xs = .ok (xs.map f)
  | [], _ => rfl
  | x :: xs, h => by
    simp only [parseArray, h x (List.mem_cons_self ..), bind_ok, List.map_cons,
      parseArray_pointwise fot t f xs (fun y hy => h y (List.mem_cons_of_mem _ hy))]


/-! ## an integer token beyond 64 bits (open finding C07-K01) -/

/-- A well-formed number token that is not an integer inside `[-2^63, 2^64)` is read through `float()`. -/
theorem numValue_through_float (fot : List Char → Option UInt64) (tok : List Char) (b : UInt64)
    (hok : numberOk tok = true)
    (hbig : (isIntTok tok
      && decide (-9223372036854775808 ≤ (if (splitMinus tok).1 then -(natOf (splitMinus tok).2 : Int) else (natOf (splitMinus tok).2 : Int)))
      && decide ((if (splitMinus tok).1 then -(natOf (splitMinus tok).2 : Int) else (natOf (splitMinus tok).2 : Int)) < 18446744073709551616)) = false)
    (hf : fot tok = some b) (hinf : isInfBits b = false) : numValue fot tok = some (.float b) := by
  simp only [numValue, hok, hbig, hf, hinf, Bool.not_true, Bool.false_eq_true, if_false]

/-- `[tok]` for a number token `tok`. -/
theorem readJson_single_number (fot : List Char → Option UInt64) (tok : List Char) (v : J)
    (hh : ∃ c r, tok = c :: r ∧ (c = '-' ∨ c.isDigit = true)) (hn : ∀ c ∈ tok, isNumChar c = true)
    (hv : numValue fot tok = some v) : readJson fot ('[' :: (tok ++ [']'])) = .ok (.arr [v]) := by
  obtain ⟨c, r, rfl, hc⟩ := hh
  have hcw : isWs c = false := by
    rcases hc with rfl | hc
    · decide
    · exact (digit_facts hc).2.1
  have hcb : c ≠ ']' := by
    rcases hc with rfl | hc
    · decide
    · exact (digit_facts hc).2.2.1
  have hstop : Stop [']'] := by intro d hd; simp at hd; subst hd; decide
  have hnum := fun f => readValue_number fot f (c :: r) [']'] v ⟨c, r, rfl, hc⟩ hn hv hstop
  simp only [readJson, skipWs_cons '[' _ (by decide), List.length_cons, List.length_append, List.length_nil, readValue_cons]
  simp only [show ¬ (('[' : Char) = '-' ∨ ('[' : Char).isDigit = true) by decide, if_false, if_true, List.cons_append,
    skipWs_cons c _ hcw, List.head?_cons, Option.some.injEq, if_neg hcb, List.length_cons, List.length_append, List.length_nil,
    readItems_succ]
  have hnum' : readValue fot (r.length + 3) (c :: (r ++ [']'])) = .ok (v, [']']) := hnum (r.length + 2)
  rw [hnum']
  have e1 : skipWs [']'] = [']'] := skipWs_cons ']' [] (by decide)
  have e2 : skipWs ([] : List Char) = [] := rfl
  simp only [e1, if_true, e2, List.isEmpty_nil]

end Cast.Json
