import OrsoVerif.Model.Cursor
/-!
Helper lemmas for C04: the iterator abstraction (`Backing.rest`), the loop `pull`, and the simulation
between the code machine and the spec machine.  Everything that depends on what the source says
(`Gen.Cursor.*`) enters through the hypothesis `GenFacts`; its fields are proved one by one as named
theorems in `Props/C04.lean`, so a changed guard breaks a theorem there, not this file.
-/
namespace Cursor
variable {α : Type}

/-- What the property needs of the generated definitions. -/
structure GenFacts : Prop where
  size : ∀ (a : Nat) (k : Option Nat), fetchCount a k = k.getD a
  guardOne : ∀ b, Gen.Cursor.fetchoneRefuses b = b
  guardMany : ∀ b, Gen.Cursor.fetchmanyRefuses b = b
  guardAll : ∀ b, Gen.Cursor.fetchallRefuses b = b
  initLive : ∀ b, Gen.Cursor.initCursorLive b = true
  appendInv : ∀ a b, Gen.Cursor.appendInvalidates a b = true
  skips : Gen.Cursor.skipsEmptyTables = true
  limit : ∀ p m : Nat, Gen.Cursor.limitReached (p : Int) (m : Int) ↔ m ≤ p
  bump : ∀ p : Nat, (Gen.Cursor.processedAfter (p : Int)).toNat = p + 1
  /-- a completing `append` on a frame whose rows are not a list drops the cursor -/
  appendLazy : ∀ r n, Gen.Cursor.appendDropsCursor false r n = true
  /-- wherever `append` can be left by an exception: if the row has been stored, or the iterator behind a
  lazily backed frame has been run to its end by `materialize()`, the cursor has been dropped -/
  rejectSafe : ∀ p ∈ Gen.Cursor.appendPoints, ∀ l r n,
    (p.stored l r n = true → p.dropped l r n = true) ∧ (p.materialized false r n = true → p.dropped false r n = true)

/-! ### lists -/

theorem drop_take_length (l : List α) (n : Nat) : l.drop (l.take n).length = l.drop n := by
  rw [List.length_take]
  by_cases h : n ≤ l.length
  · rw [Nat.min_eq_left h]
  · have h' : l.length ≤ n := by omega
    rw [Nat.min_eq_right h', List.drop_of_length_le (Nat.le_refl _), List.drop_of_length_le h']

theorem filter_map_flatten {γ δ : Type} (l : List γ) (p : γ → Bool) (f : γ → δ) :
    (l.filter p).map f = (l.map (fun x => if p x then [f x] else [])).flatten := by
  induction l with
  | nil => rfl
  | cons x l ih => by_cases h : p x <;> simp [h, ih]

/-! ### the lazy source -/

theorem skipLoad_spec (hs : Gen.Cursor.skipsEmptyTables = true) (ts : List (List α)) :
    (∀ r rest ts', skipLoad ts = (some (r, rest), ts') → ts.flatten = r :: (rest ++ ts'.flatten)) ∧
    (∀ ts', skipLoad ts = (none, ts') → ts.flatten = [] ∧ ts' = []) := by
  induction ts with
  | nil => simp [skipLoad]
  | cons t ts ih =>
    cases t with
    | nil => simpa [skipLoad, hs] using ih
    | cons r rest => simp [skipLoad]

theorem Chunks.next_spec (G : GenFacts) (c : Chunks α) :
    (c.next).1 = c.rows.head? ∧ (c.next).2.rows = c.rows.tail := by
  obtain ⟨tables, current, processed, maxSize⟩ := c
  have hsl := skipLoad_spec G.skips tables
  cases maxSize with
  | none =>
    simp only [Chunks.next, Chunks.limit, Chunks.rows, Chunks.bump]
    cases current with
    | cons r rest => simp
    | nil =>
      rcases hq : skipLoad tables with ⟨_ | ⟨r, rest⟩, ts'⟩
      · have := hsl.2 ts' hq; simp [this.1, this.2]
      · have := hsl.1 r rest ts' hq; simp [this]
  | some m =>
    simp only [Chunks.next, Chunks.limit, Chunks.rows, Chunks.bump, G.limit, G.bump]
    by_cases hl : m ≤ processed
    · have h0 : m - processed = 0 := by omega
      simp [hl, h0]
    · have hpos : m - processed = (m - (processed + 1)) + 1 := by omega
      simp only [hl, decide_false, Bool.false_eq_true, if_false]
      cases current with
      | cons r rest => rw [hpos]; simp
      | nil =>
        rcases hq : skipLoad tables with ⟨_ | ⟨r, rest⟩, ts'⟩
        · have := hsl.2 ts' hq; simp [this.1, this.2]
        · have := hsl.1 r rest ts' hq; rw [hpos]; simp [this]

/-! ### the cursor as an iterator -/

/-- `some rows` when the row store is a list. -/
def Backing.store : Backing α → Option (List α)
  | .eager rows _ => some rows
  | .lazy _ => none

theorem Backing.next_spec (G : GenFacts) (b : Backing α) :
    (b.next).1 = b.rest.head? ∧ (b.next).2.rest = b.rest.tail ∧ (b.next).2.store = b.store := by
  cases b with
  | eager rows p =>
    cases p with
    | none => simp [Backing.next, Backing.rest, Backing.store]
    | some p =>
      simp only [Backing.next, Backing.rest]
      cases hg : rows[p]? with
      | none =>
        have : rows.drop p = [] := List.drop_eq_nil_iff.mpr (List.getElem?_eq_none_iff.mp hg)
        simp [this, Backing.rest, Backing.store]
      | some r =>
        have hlt : p < rows.length := (List.getElem?_eq_some_iff.mp hg).1
        simp [Backing.rest, Backing.store, List.head?_drop, hg, List.tail_drop]
  | lazy src =>
    have := Chunks.next_spec G src
    simp [Backing.next, Backing.rest, Backing.store, this.1, this.2]

theorem pull_spec (G : GenFacts) (n : Nat) (b : Backing α) :
    (pull n b).1 = b.rest.take n ∧ (pull n b).2.rest = b.rest.drop n ∧ (pull n b).2.store = b.store := by
  induction n generalizing b with
  | zero => simp [pull]
  | succ n ih =>
    have hn := Backing.next_spec G b
    rcases hb : b.next with ⟨r, b'⟩
    rw [hb] at hn
    simp only at hn
    cases hr : b.rest with
    | nil =>
      rw [hr] at hn
      simp only [List.head?_nil, List.tail_nil] at hn
      simp [pull, hb, hn.1, hn.2.1, hn.2.2]
    | cons x t =>
      rw [hr] at hn
      simp only [List.head?_cons, List.tail_cons] at hn
      have := ih b'
      simp [pull, hb, hn.1, this.1, this.2.1, this.2.2, hn.2.1, hn.2.2]

theorem fuel_gt (b : Backing α) : b.rest.length < b.fuel := by
  cases b with
  | eager rows p => cases p <;> simp [Backing.rest, Backing.fuel]; omega
  | lazy src =>
    obtain ⟨tables, current, processed, maxSize⟩ := src
    cases maxSize <;> simp [Backing.rest, Backing.fuel, Chunks.rows] <;> omega

/-- `list(cursor)`: with the model's fuel the loop delivers everything that is left… -/
theorem pull_fuel (G : GenFacts) (b : Backing α) :
    (pull b.fuel b).1 = b.rest ∧ (pull b.fuel b).2.rest = [] := by
  have h := pull_spec G b.fuel b
  have hf := fuel_gt b
  exact ⟨by rw [h.1, List.take_of_length_le (by omega)], by rw [h.2.1, List.drop_of_length_le (by omega)]⟩

/-- …and more fuel would deliver the same rows: the loop has stopped at `StopIteration`. -/
theorem pull_more_fuel (G : GenFacts) (b : Backing α) (j : Nat) : (pull (b.fuel + j) b).1 = (pull b.fuel b).1 := by
  have hf := fuel_gt b
  rw [(pull_spec G _ b).1, (pull_spec G _ b).1, List.take_of_length_le (by omega), List.take_of_length_le (by omega)]

/-- The loop the statement-level translation of `fetchmany` produces (`forRange` over the pair
`(entries, cursor)`, `entries.append(entry)` per row, `break` at `StopIteration`) is `pull`. -/
theorem forRange_pull (body : List α × Backing α → Loop (List α × Backing α))
    (h1 : ∀ acc b r b', b.next = (some r, b') → body (acc, b) = .next (acc ++ [r], b'))
    (h2 : ∀ acc b b', b.next = (none, b') → body (acc, b) = .stop (acc, b'))
    (n : Nat) (acc : List α) (b : Backing α) :
    forRange n (acc, b) body = (acc ++ (pull n b).1, (pull n b).2) := by
  induction n generalizing acc b with
  | zero => simp [forRange, pull]
  | succ n ih =>
    rcases hb : b.next with ⟨_ | r, b'⟩
    · simp [forRange, pull, hb, h2 acc b b' hb]
    · simp [forRange, pull, hb, h1 acc b r b' hb, ih]

/-! ### simulation -/

def storeOk (b : Backing α) (s : State α) : Prop :=
  match b with
  | .eager rows _ => s.rows = rows
  | .lazy _ => True

/-- The code machine `f` and the spec machine `s` are at the same point of the same history. -/
def Sim (f : Frame α) (s : State α) : Prop :=
  f.arraysize = s.arraysize ∧ f.live = s.valid ∧
  (s.valid = true → f.backing.rest = s.rows.drop s.pos) ∧ storeOk f.backing s

theorem storeOk_of_store {b b' : Backing α} {s s' : State α} (h : b'.store = b.store)
    (hr : s'.rows = s.rows) (hv : s'.valid = s.valid) (hk : storeOk b s) : storeOk b' s' := by
  cases b <;> cases b' <;> simp_all [Backing.store, storeOk]

/-- Operations allowed on this frame: everything on a materialised frame, the cursor-only alphabet on a
lazily backed one. -/
def Allowed (f : Frame α) (op : Op α) : Prop := f.backing.store.isSome = true ∨ LazyOk op = true

theorem rejectPoint_safe (G : GenFacts) (stage : Nat) (l r n : Bool) :
    ((rejectPoint stage).stored l r n = true → (rejectPoint stage).dropped l r n = true) ∧
    ((rejectPoint stage).materialized false r n = true → (rejectPoint stage).dropped false r n = true) := by
  unfold rejectPoint
  cases hg : Gen.Cursor.appendPoints[stage]? with
  | none => simp
  | some p => simpa using G.rejectSafe p (List.mem_of_getElem? hg) l r n

/-- One step of the code machine is the step of the spec machine on the same operation — a rejected
append read as `Impl.tag` says (`drops` = what the source's statement order leaves behind). -/
theorem step_sim (G : GenFacts) (f : Frame α) (s : State α) (op : Op α) (h : Sim f s) (ha : Allowed f op) :
    (Impl.step f op).2 = (step s (Impl.tag f op)).2 ∧ Sim (Impl.step f op).1 (step s (Impl.tag f op)).1 := by
  obtain ⟨hsize, hlive, hrest, hstore⟩ := h
  have dead : s.valid = false → ∀ (o : Op α), (Impl.step f o = (f, .err) ∧ step s o = (s, .err)) →
      (Impl.step f o).2 = (step s o).2 ∧ Sim (Impl.step f o).1 (step s o).1 := by
    intro hv' o ho
    rw [ho.1, ho.2]
    exact ⟨rfl, hsize, hlive, by simp [hv'], hstore⟩
  cases op with
  | fetchone =>
    simp only [Impl.tag]
    by_cases hv : s.valid = true
    · have hl : f.live = true := by rw [hlive, hv]
      have hn := Backing.next_spec G f.backing
      rw [hrest hv, List.head?_drop] at hn
      have hI : Impl.step f .fetchone = ({ f with backing := f.backing.next.2 }, .one f.backing.next.1) := by
        simp [Impl.step, G.guardOne, hl]
      rw [hI]
      cases hg : s.rows[s.pos]? with
      | none =>
        have hS : step s .fetchone = (s, .one none) := by simp [step, hv, hg]
        have hd : s.rows.drop s.pos = [] := List.drop_eq_nil_iff.mpr (List.getElem?_eq_none_iff.mp hg)
        rw [hS]; rw [hg] at hn
        refine ⟨by simp [hn.1], hsize, hlive, ?_, storeOk_of_store hn.2.2 rfl rfl hstore⟩
        intro _; simp only [hn.2.1, hd]; rfl
      | some r =>
        have hS : step s .fetchone = ({ s with pos := s.pos + 1 }, .one (some r)) := by simp [step, hv, hg]
        rw [hS]; rw [hg] at hn
        refine ⟨by simp [hn.1], hsize, hlive, ?_, storeOk_of_store hn.2.2 rfl rfl hstore⟩
        intro _; simp [hn.2.1, List.tail_drop]
    · have hv' : s.valid = false := by simpa using hv
      have hl : f.live = false := by rw [hlive, hv']
      exact dead hv' _ ⟨by simp [Impl.step, G.guardOne, hl], by simp [step, hv']⟩
  | fetchmany k =>
    simp only [Impl.tag]
    by_cases hv : s.valid = true
    · have hl : f.live = true := by rw [hlive, hv]
      have hp := pull_spec G (k.getD s.arraysize) f.backing
      rw [hrest hv] at hp
      have hI : Impl.step f (.fetchmany k) =
          ({ f with backing := (pull (k.getD s.arraysize) f.backing).2 }, .many (pull (k.getD s.arraysize) f.backing).1) := by
        simp [Impl.step, G.guardMany, hl, G.size, hsize]
      have hS : step s (.fetchmany k) =
          ({ s with pos := s.pos + ((s.rows.drop s.pos).take (k.getD s.arraysize)).length },
            .many ((s.rows.drop s.pos).take (k.getD s.arraysize))) := by simp [step, hv]
      rw [hI, hS]
      refine ⟨by simp [hp.1], hsize, hlive, ?_, storeOk_of_store hp.2.2 rfl rfl hstore⟩
      intro _
      simp only [hp.2.1]
      rw [← List.drop_drop, drop_take_length]
    · have hv' : s.valid = false := by simpa using hv
      have hl : f.live = false := by rw [hlive, hv']
      exact dead hv' _ ⟨by simp [Impl.step, G.guardMany, hl], by simp [step, hv']⟩
  | fetchall =>
    simp only [Impl.tag]
    by_cases hv : s.valid = true
    · have hl : f.live = true := by rw [hlive, hv]
      have hp := pull_fuel G f.backing
      have hp3 := (pull_spec G f.backing.fuel f.backing).2.2
      rw [hrest hv] at hp
      have hI : Impl.step f .fetchall =
          ({ f with backing := (pull f.backing.fuel f.backing).2 }, .many (pull f.backing.fuel f.backing).1) := by
        simp [Impl.step, G.guardAll, hl]
      have hS : step s .fetchall =
          ({ s with pos := s.pos + (s.rows.drop s.pos).length }, .many (s.rows.drop s.pos)) := by simp [step, hv]
      rw [hI, hS]
      refine ⟨by simp [hp.1], hsize, hlive, ?_, storeOk_of_store hp3 rfl rfl hstore⟩
      intro _
      simp only [hp.2]
      rw [← List.drop_drop, List.drop_of_length_le (Nat.le_refl _)]
    · have hv' : s.valid = false := by simpa using hv
      have hl : f.live = false := by rw [hlive, hv']
      exact dead hv' _ ⟨by simp [Impl.step, G.guardAll, hl], by simp [step, hv']⟩
  | setArraysize n => exact ⟨rfl, rfl, hlive, hrest, hstore⟩
  | observe k =>
    simp only [Impl.tag]
    have hS : step s (.observe k) = (s, .unit) := rfl
    rw [hS]
    cases hb : f.backing with
    | eager rows p =>
      cases k with
      | pure =>
        have hI : Impl.step f (.observe .pure) = (f, .unit) := by simp [Impl.step, hb]
        rw [hI]; exact ⟨rfl, hsize, hlive, hrest, hstore⟩
      | rows =>
        have hI : Impl.step f (.observe .rows) = (f, .unit) := by simp [Impl.step, hb]
        rw [hI]; exact ⟨rfl, hsize, hlive, hrest, hstore⟩
      | nbytes =>
        have hI : Impl.step f (.observe .nbytes) = ({ f with nbytesTracked := true }, .unit) := by
          simp [Impl.step, hb]
        rw [hI]; exact ⟨rfl, hsize, hlive, hrest, hstore⟩
    | lazy src =>
      cases k with
      | pure =>
        have hI : Impl.step f (.observe .pure) = (f, .unit) := by simp [Impl.step, hb]
        rw [hI]; exact ⟨rfl, hsize, hlive, hrest, hstore⟩
      | rows => simp [Allowed, hb, Backing.store, LazyOk] at ha
      | nbytes => simp [Allowed, hb, Backing.store, LazyOk] at ha
  | append r =>
    simp only [Impl.tag]
    have hS : step s (.append r) = ({ s with rows := s.rows ++ [r], valid := false }, .unit) := rfl
    rw [hS]
    cases hb : f.backing with
    | eager rows p =>
      have hI : Impl.step f (.append r) =
          ({ f with backing := .eager (rows ++ [r]) p, live := false }, .unit) := by
        simp [Impl.step, hb, G.appendInv]
      rw [hI]
      rw [hb] at hstore
      simp only [storeOk] at hstore
      exact ⟨rfl, hsize, rfl, by simp, by simp [storeOk, hstore]⟩
    | lazy src =>
      -- `materialize()` has run the iterator to its end and the cursor is dropped: every fetch refuses
      simp only [Impl.step, hb, G.appendLazy]
      exact ⟨trivial, hsize, by simp, by simp, by split <;> simp [storeOk]⟩
  | reject st d r =>
    have hP := rejectPoint_safe G st
    cases hb : f.backing with
    | eager rows p =>
      rw [hb] at hstore
      simp only [storeOk] at hstore
      by_cases hs : (rejectPoint st).stored true f.schemaRel f.nbytesTracked = true
      · -- left after the row was stored: then the cursor has been dropped — an append, for the frame
        have hd := (hP true f.schemaRel f.nbytesTracked).1 hs
        simp only [Impl.tag, Impl.step, Impl.rejectStores, Impl.rejectDrops, hb, hs, hd, if_true, step]
        exact ⟨trivial, hsize, by simp, by simp, by simp [storeOk, hstore]⟩
      · simp only [Impl.tag, Impl.step, Impl.rejectStores, Impl.rejectDrops, hb, hs, if_false, step, Bool.false_eq_true]
        refine ⟨trivial, hsize, by simp [hlive], ?_, by simp [storeOk, hstore]⟩
        intro hv
        simp only [Bool.and_eq_true] at hv
        simpa [hb] using hrest hv.1
    | lazy src =>
      by_cases hs : (rejectPoint st).stored false f.schemaRel f.nbytesTracked = true
      · have hd := (hP false f.schemaRel f.nbytesTracked).1 hs
        simp only [Impl.tag, Impl.step, Impl.rejectStores, Impl.rejectDrops, hb, hs, hd, if_true, step]
        exact ⟨trivial, hsize, by simp, by simp, by split <;> simp [storeOk]⟩
      · by_cases hm : (rejectPoint st).materialized false f.schemaRel f.nbytesTracked = true
        · -- the iterator has been run to its end outside the fetch calls: the cursor must be gone
          have hd := (hP false f.schemaRel f.nbytesTracked).2 hm
          simp only [Impl.tag, Impl.step, Impl.rejectStores, Impl.rejectDrops, hb, hs, hm, hd, if_true, if_false, step, Bool.false_eq_true]
          exact ⟨trivial, hsize, by simp, by simp, by simp [storeOk]⟩
        · simp only [Impl.tag, Impl.step, Impl.rejectStores, Impl.rejectDrops, hb, hs, hm, if_false, step, Bool.false_eq_true]
          refine ⟨trivial, hsize, by simp [hlive], ?_, by simp [storeOk]⟩
          intro hv
          simp only [Bool.and_eq_true] at hv
          simpa [hb] using hrest hv.1

theorem allowed_step (f : Frame α) (op : Op α) (h : f.backing.store.isSome = true) (G : GenFacts) :
    (Impl.step f op).1.backing.store.isSome = true := by
  cases hb : f.backing with
  | lazy src => simp [hb, Backing.store] at h
  | eager rows p =>
    cases op with
    | fetchone =>
      have := (Backing.next_spec G f.backing).2.2
      simp only [Impl.step]; split <;> simp_all [Backing.store]
    | fetchmany k =>
      have := (pull_spec G (fetchCount f.arraysize k) f.backing).2.2
      simp only [Impl.step]; split <;> simp_all [Backing.store]
    | fetchall =>
      have := (pull_spec G f.backing.fuel f.backing).2.2
      simp only [Impl.step]; split <;> simp_all [Backing.store]
    | setArraysize n => simp [Impl.step, hb, Backing.store]
    | observe k => cases k <;> simp [Impl.step, hb, Backing.store]
    | append r => simp [Impl.step, hb, Backing.store]
    | reject st d r => simp [Impl.step, hb, Backing.store]

theorem lazyOk_tag (f : Frame α) (op : Op α) : LazyOk (Impl.tag f op) = LazyOk op := by
  cases op with
  | reject st d r => by_cases h : Impl.rejectStores f st = true <;> simp [Impl.tag, LazyOk, h]
  | _ => rfl

theorem run_sim (G : GenFacts) (ops : List (Op α)) (f : Frame α) (s : State α) (h : Sim f s)
    (ha : f.backing.store.isSome = true ∨ ∀ op ∈ ops, LazyOk op = true) :
    (Impl.run f ops).2 = (run s (Impl.annot f ops)).2 ∧ Sim (Impl.run f ops).1 (run s (Impl.annot f ops)).1 := by
  induction ops generalizing f s with
  | nil => exact ⟨rfl, h⟩
  | cons op ops ih =>
    have hop : Allowed f op := by
      rcases ha with ha | ha
      · exact Or.inl ha
      · exact Or.inr (ha op (by simp))
    have h1 := step_sim G f s op h hop
    have ha' : (Impl.step f op).1.backing.store.isSome = true ∨ ∀ op ∈ ops, LazyOk op = true := by
      rcases ha with ha | ha
      · exact Or.inl (allowed_step f op ha G)
      · exact Or.inr (fun o ho => ha o (by simp [ho]))
    have h2 := ih (Impl.step f op).1 (step s (Impl.tag f op)).1 h1.2 ha'
    simp only [Impl.run, run, Impl.annot]
    exact ⟨by rw [h1.1, h2.1], h2.2⟩

theorem run_append (s : State α) (a b : List (Op α)) :
    run s (a ++ b) = ((run (run s a).1 b).1, (run s a).2 ++ (run (run s a).1 b).2) := by
  induction a generalizing s with
  | nil => simp [run]
  | cons op a ih => simp [run, ih]

theorem Impl.run_append (f : Frame α) (a b : List (Op α)) :
    Impl.run f (a ++ b) = ((Impl.run (Impl.run f a).1 b).1, (Impl.run f a).2 ++ (Impl.run (Impl.run f a).1 b).2) := by
  induction a generalizing f with
  | nil => simp [Impl.run]
  | cons op a ih => simp [Impl.run, ih]

/-- A state that cannot deliver any more: invalidated by an append, or at the end of its rows. -/
def Spent (s : State α) : Prop := s.valid = false ∨ s.rows.length ≤ s.pos

theorem spent_step (s : State α) (op : Op α) (h : Spent s) :
    fetched (step s op).2 = [] ∧ Spent (step s op).1 := by
  rcases h with h | h
  · cases op <;> simp [step, h, fetched, Spent]
  · have h1 : s.rows[s.pos]? = none := List.getElem?_eq_none_iff.mpr h
    have h2 : s.rows.drop s.pos = [] := List.drop_eq_nil_iff.mpr h
    cases op with
    | fetchone => by_cases hv : s.valid = true <;> simp [step, hv, h1, fetched, Spent, h]
    | fetchmany k => by_cases hv : s.valid = true <;> simp [step, hv, h2, fetched, Spent, h]
    | fetchall => by_cases hv : s.valid = true <;> simp [step, hv, h2, fetched, Spent, h]
    | setArraysize n => simp [step, fetched, Spent, h]
    | observe k => simp [step, fetched, Spent, h]
    | append r => simp [step, fetched, Spent]
    | reject st d r => simp [step, fetched, Spent, h]

theorem spent_run (ops : List (Op α)) (s : State α) (h : Spent s) : ∀ o ∈ (run s ops).2, fetched o = [] := by
  induction ops generalizing s with
  | nil => intro o ho; simp [run] at ho
  | cons op ops ih =>
    intro o ho
    simp only [run, List.mem_cons] at ho
    rcases ho with rfl | ho
    · exact (spent_step s op h).1
    · exact ih _ (spent_step s op h).2 o ho

/-! ### several frames -/

/-- Every derivation hands out a frame that owns its row list. -/
def AllOwn : Prop := ∀ h : Deriv, h.owns = true

theorem Sys.linked_nil (i : Nat) : Sys.linked ([] : List (Nat × Nat)) i = [] := rfl

theorem Sys.growAll_nil (r : α) (fs : List (Frame α)) : Sys.growAll r [] fs = fs := rfl

/-- One step of a system without shared lists, seen from frame `i`: an operation on `i` is that frame's own
step, anything else leaves it as it is; and no shared list arises. -/
theorem Sys.step_frame (own : AllOwn) (s : Sys α) (hl : s.links = []) (sop : SysOp α) (i : Nat) (f : Frame α)
    (hf : s.frames[i]? = some f) :
    (Sys.step s sop).1.links = [] ∧
    (match sop with
      | .on j op => if j = i then (Sys.step s sop).1.frames[i]? = some (Impl.step f op).1 ∧ (Sys.step s sop).2 = (Impl.step f op).2
                    else (Sys.step s sop).1.frames[i]? = some f
      | _ => (Sys.step s sop).1.frames[i]? = some f) := by
  have hi : i < s.frames.length := by
    rcases Nat.lt_or_ge i s.frames.length with h | h
    · exact h
    · rw [List.getElem?_eq_none h] at hf; cases hf
  cases sop with
  | on j op =>
    by_cases hji : j = i
    · subst hji
      simp only [Sys.step, hf, hl, Sys.linked_nil, Sys.growAll_nil, if_true]
      cases op <;> cases hb : f.backing <;> simp [hi]
    · simp only [hji, if_false]
      cases hj : s.frames[j]? with
      | none => simp [Sys.step, hj, hl, hf]
      | some g =>
        simp only [Sys.step, hj, hl, Sys.linked_nil, Sys.growAll_nil]
        cases op <;> cases hb : g.backing <;> simp [hf, List.getElem?_set_ne hji]
  | derive j how rows =>
    cases hj : s.frames[j]? with
    | none => simp [Sys.step, hj, hl, hf]
    | some g =>
      cases hb : g.backing with
      | lazy src => simp [Sys.step, hj, hb, hl, hf]
      | eager prows p => simp [Sys.step, hj, hb, hl, hf, own how, List.getElem?_append_left hi]
  | deriveLazy j tables =>
    cases hj : s.frames[j]? with
    | none => simp [Sys.step, hj, hl, hf]
    | some g =>
      cases hb : g.backing with
      | lazy src => simp [Sys.step, hj, hb, hl, hf]
      | eager prows p => simp [Sys.step, hj, hb, hl, hf, List.getElem?_append_left hi]

/-- **Frames do not interfere.**  In a system where no two frames hold one list, whatever the history does
to the other frames (fetches, appends, further derivations, on frames that exist or are made on the way),
frame `i` goes through its own history `proj i ops` and returns what it would return alone. -/
theorem Sys.run_frame (own : AllOwn) (ops : List (SysOp α)) (s : Sys α) (hl : s.links = []) (i : Nat) (f : Frame α)
    (hf : s.frames[i]? = some f) :
    (Sys.run s ops).1.links = [] ∧
    (Sys.run s ops).1.frames[i]? = some (Impl.run f (Sys.proj i ops)).1 ∧
    Sys.trace i ops (Sys.run s ops).2 = (Impl.run f (Sys.proj i ops)).2 := by
  induction ops generalizing s f with
  | nil => exact ⟨hl, hf, rfl⟩
  | cons sop ops ih =>
    have h1 := Sys.step_frame own s hl sop i f hf
    cases sop with
    | on j op =>
      by_cases hji : j = i
      · subst hji
        simp only [if_true] at h1
        have h2 := ih (Sys.step s (.on j op)).1 h1.1 (Impl.step f op).1 h1.2.1
        simp only [Sys.run, Sys.proj, Sys.trace, if_true, Impl.run]
        exact ⟨h2.1, h2.2.1, by rw [h1.2.2, h2.2.2]⟩
      · simp only [hji, if_false] at h1
        have h2 := ih (Sys.step s (.on j op)).1 h1.1 f h1.2
        simp only [Sys.run, Sys.proj, Sys.trace, hji, if_false]
        exact h2
    | derive j how rows =>
      have h2 := ih (Sys.step s (.derive j how rows)).1 h1.1 f h1.2
      simpa only [Sys.run, Sys.proj, Sys.trace] using h2
    | deriveLazy j tables =>
      have h2 := ih (Sys.step s (.deriveLazy j tables)).1 h1.1 f h1.2
      simpa only [Sys.run, Sys.proj, Sys.trace] using h2

end Cursor
