import OrsoVerif.Model.DictSchema
/-! Helper lemmas for the schema-object theorems of C02 (not property theorems). -/
namespace C02
open DictRow DictSession DictSchema Gen.DictCode

variable {α : Type}

/-- Reading the names never changes the columns, whatever is kept. -/
theorem columnNames_cols (cfg : Cfg) (s : Schema) : (columnNames cfg s).2.cols = s.cols := by
  unfold columnNames
  by_cases hk : cfg.namesKept = true
  · simp only [hk, if_true]
    cases hs : s.kept with
    | none => rfl
    | some k =>
      by_cases hv : cfg.keptValid k s.cols = true
      · simp only [hv, if_true]
      · simp only [hv]; rfl
  · simp only [hk]; rfl

theorem readVia_cols (cfg : Cfg) (v : Via) (s : Schema) : (readVia cfg v s).2.cols = s.cols := by
  cases v with
  | columns => rfl
  | columnNames => exact columnNames_cols cfg s
  | iter =>
    show (iterNames cfg s).2.cols = s.cols
    unfold iterNames
    cases cfg.iterVia with
    | columns => rfl
    | columnNames => exact columnNames_cols cfg s

/-- When a kept list is only handed out while it is the column names, `column_names` is the column names. -/
theorem columnNames_fresh (cfg : Cfg) (h : cfg.namesKept = true → ∀ k c, cfg.keptValid k c = true → k = c) (s : Schema) :
    (columnNames cfg s).1 = s.cols := by
  unfold columnNames
  by_cases hk : cfg.namesKept = true
  · simp only [hk, if_true]
    cases hs : s.kept with
    | none => rfl
    | some k =>
      by_cases hv : cfg.keptValid k s.cols = true
      · simp only [hv, if_true]; exact h hk k s.cols hv
      · simp only [hv]; rfl
  · simp only [hk]; rfl

/-- A fresh route yields the column names as they are now. -/
theorem readVia_fresh (cfg : Cfg) (v : Via) (h : RouteFresh cfg v) (s : Schema) : (readVia cfg v s).1 = s.cols := by
  rcases h with rfl | ⟨rfl, hi⟩ | hk
  · rfl
  · show (iterNames cfg s).1 = s.cols
    unfold iterNames; rw [hi]
  · cases v with
    | columns => rfl
    | columnNames => exact columnNames_fresh cfg hk s
    | iter =>
      show (iterNames cfg s).1 = s.cols
      unfold iterNames
      cases cfg.iterVia with
      | columns => rfl
      | columnNames => exact columnNames_fresh cfg hk s

theorem refreshed_safe (cfg : Cfg) (h : Safe cfg) (factory : List String) (s : Schema) :
    (refreshed cfg factory s).1 = s.cols ∧ (refreshed cfg factory s).2.cols = s.cols := by
  have a1 := readVia_fresh cfg cfg.refreshVia h.refreshFresh s
  have a2 := readVia_cols cfg cfg.refreshVia s
  have c1 := readVia_fresh cfg cfg.classVia h.classFresh (readVia cfg cfg.refreshVia s).2
  have c2 := readVia_cols cfg cfg.classVia (readVia cfg cfg.refreshVia s).2
  unfold refreshed
  simp only [h.refreshes, if_true]
  by_cases hne : (readVia cfg cfg.refreshVia s).1 ≠ factory
  · simp only [hne, if_true, ne_eq, not_false_eq_true]
    exact ⟨by rw [c1, a2], by rw [c2, a2]⟩
  · have he : factory = s.cols := by rw [← Decidable.of_not_not hne, a1]
    simp only [hne, if_false]
    exact ⟨he, a2⟩

/-- replacing a schema object by one with the same columns is invisible to the specification -/
theorem map_cols_set (l : List Schema) (i : Nat) (s s' : Schema) (hi : l[i]? = some s) (hc : s'.cols = s.cols) :
    (l.set i s').map (·.cols) = l.map (·.cols) := by
  rw [List.map_set]
  apply List.ext_getElem?
  intro j
  rw [List.getElem?_set]
  by_cases hj : i = j
  · subst hj
    obtain ⟨hlt, hg⟩ := List.getElem?_eq_some_iff.mp hi
    simp [hlt, hc, hg]
  · simp [hj]

theorem mod_none_iff {β : Type} (l : List β) (i : Nat) : l[i % l.length]? = none ↔ l.length = 0 := by
  constructor
  · intro h
    rw [List.getElem?_eq_none_iff] at h
    by_cases h0 : l.length = 0
    · exact h0
    · have := Nat.mod_lt i (Nat.pos_of_ne_zero h0); omega
  · intro h
    rw [List.getElem?_eq_none_iff]; omega

end C02
