import OrsoVerif.Model.FrameProg
import OrsoVerif.Lemmas.Frame
/-!
# C03 — the simulation between the lazy-state machine and the list specification

`Rel` relates a register of the implementation state to the register of the list specification it
stands for; `Sim` is `Rel` position by position.  The lemmas here are the bookkeeping of the
program-level theorems of `Props/C03.lean`.
-/
namespace Frame

variable {α : Type}

/-- An implementation register stands for a specification register: a frame (lazily backed or not)
for the frame with the same schema and listing; a *spent* frame for any frame (nothing is claimed
about it); values, errors and list iterators for themselves. -/
theorem lt_of_get {β : Type} {l : List β} {i : Nat} {a : β} (h : l[i]? = some a) : i < l.length := by
  rcases Nat.lt_or_ge i l.length with h1 | h1
  · exact h1
  · rw [List.getElem?_eq_none_iff.mpr h1] at h; cases h

inductive Rel : IReg α → SReg α → Prop
  | frame (sch : Schema) (l : Bool) (rows : List (List α)) : Rel (.frame sch l rows) (.frame sch rows)
  | defer (src : Nat) (sch : Schema) (rows : List (List α)) : Rel (.defer src sch rows) (.frame sch rows)
  | spent (sch : Schema) (rows : List (List α)) : Rel .spent (.frame sch rows)
  | val (v : Val α) : Rel (.val v) (.val v)
  | err (c : String) : Rel (.err c) (.err c)
  | iter (rows : List (List α)) (pos : Nat) : Rel (.iter rows pos) (.iter rows pos)

def Sim (st : List (IReg α)) (sp : List (SReg α)) : Prop :=
  st.length = sp.length ∧ ∀ (i : Nat) (a : IReg α) (b : SReg α), st[i]? = some a → sp[i]? = some b → Rel a b

theorem Sim.get {st : List (IReg α)} {sp : List (SReg α)} (h : Sim st sp) {i : Nat} {a : IReg α}
    (ha : st[i]? = some a) : ∃ b, sp[i]? = some b ∧ Rel a b := by
  have hi : i < st.length := by
    rcases Nat.lt_or_ge i st.length with h1 | h1
    · exact h1
    · rw [List.getElem?_eq_none_iff.mpr h1] at ha; cases ha
  have hi' : i < sp.length := h.1 ▸ hi
  exact ⟨sp[i], List.getElem?_eq_getElem hi', h.2 i a _ ha (List.getElem?_eq_getElem hi')⟩

theorem Sim.frame_of {st : List (IReg α)} {sp : List (SReg α)} (h : Sim st sp) {s : Nat} {sch : Schema}
    {l : Bool} {rows : List (List α)} (hs : st[s]? = some (.frame sch l rows)) :
    sp[s]? = some (.frame sch rows) := by
  obtain ⟨b, hb, hr⟩ := h.get hs
  cases hr; exact hb

theorem Sim.iter_of {st : List (IReg α)} {sp : List (SReg α)} (h : Sim st sp) {s : Nat}
    {rows : List (List α)} {pos : Nat} (hs : st[s]? = some (.iter rows pos)) :
    sp[s]? = some (.iter rows pos) := by
  obtain ⟨b, hb, hr⟩ := h.get hs
  cases hr; exact hb

theorem Sim.defer_of {st : List (IReg α)} {sp : List (SReg α)} (h : Sim st sp) {s src : Nat} {sch : Schema}
    {rows : List (List α)} (hs : st[s]? = some (.defer src sch rows)) :
    sp[s]? = some (.frame sch rows) := by
  obtain ⟨b, hb, hr⟩ := h.get hs
  cases hr; exact hb

theorem frameOf_cases {st : List (IReg α)} {s : Nat} {sch : Schema} {rows : List (List α)}
    (h : frameOf st s = some (sch, rows)) :
    (∃ l, st[s]? = some (.frame sch l rows)) ∨ (∃ src, st[s]? = some (.defer src sch rows)) := by
  unfold frameOf at h
  cases hs : st[s]? with
  | none => rw [hs] at h; cases h
  | some r =>
    rw [hs] at h
    cases r with
    | frame sch2 l2 rows2 => simp only [Option.some.injEq, Prod.mk.injEq] at h; obtain ⟨rfl, rfl⟩ := h; exact Or.inl ⟨l2, rfl⟩
    | defer src sch2 rows2 => simp only [Option.some.injEq, Prod.mk.injEq] at h; obtain ⟨rfl, rfl⟩ := h; exact Or.inr ⟨src, rfl⟩
    | spent => cases h
    | val v => cases h
    | err c => cases h
    | iter r p => cases h
    | giter g => cases h

theorem Sim.frameOf_of {st : List (IReg α)} {sp : List (SReg α)} (h : Sim st sp) {s : Nat} {sch : Schema}
    {rows : List (List α)} (hs : frameOf st s = some (sch, rows)) : sp[s]? = some (.frame sch rows) := by
  rcases frameOf_cases hs with ⟨l, h1⟩ | ⟨src, h1⟩
  · exact h.frame_of h1
  · exact h.defer_of h1

theorem Sim.push {st : List (IReg α)} {sp : List (SReg α)} (h : Sim st sp) {a : IReg α} {b : SReg α}
    (hr : Rel a b) : Sim (st ++ [a]) (sp ++ [b]) := by
  refine ⟨by simp [h.1], ?_⟩
  intro i x y hx hy
  rw [List.getElem?_append] at hx hy
  by_cases hi : i < st.length
  · have hi' : i < sp.length := h.1 ▸ hi
    rw [if_pos hi] at hx; rw [if_pos hi'] at hy
    exact h.2 i x y hx hy
  · have hi' : ¬ i < sp.length := h.1 ▸ hi
    rw [if_neg hi] at hx; rw [if_neg hi'] at hy
    have e : i - st.length = i - sp.length := by rw [h.1]
    rw [e] at hx
    cases hk : i - sp.length with
    | zero =>
      rw [hk] at hx hy
      simp only [List.getElem?_cons_zero, Option.some.injEq] at hx hy
      subst hx; subst hy; exact hr
    | succ k => simp [hk] at hx

/-- Replacing an implementation register by another one that stands for the same specification
register (materialising, spending). -/
theorem Sim.setL {st : List (IReg α)} {sp : List (SReg α)} (h : Sim st sp) (s : Nat) (a' : IReg α)
    (hr : ∀ b, sp[s]? = some b → Rel a' b) : Sim (st.set s a') sp := by
  refine ⟨by simp [h.1], ?_⟩
  intro i x y hx hy
  rw [List.getElem?_set] at hx
  by_cases hi : s = i
  · subst hi
    rw [if_pos rfl] at hx
    by_cases hl : s < st.length
    · rw [if_pos hl] at hx
      cases hx
      exact hr y hy
    · simp [hl] at hx
  · rw [if_neg hi] at hx
    exact h.2 i x y hx hy

/-- Replacing both sides (append to a frame, advancing an iterator). -/
theorem Sim.set2 {st : List (IReg α)} {sp : List (SReg α)} (h : Sim st sp) (s : Nat) {a' : IReg α} {b' : SReg α}
    (hr : Rel a' b') : Sim (st.set s a') (sp.set s b') := by
  refine ⟨by simp [h.1], ?_⟩
  intro i x y hx hy
  rw [List.getElem?_set] at hx hy
  by_cases hi : s = i
  · subst hi
    rw [if_pos rfl] at hx hy
    by_cases hl : s < st.length
    · have hl' : s < sp.length := h.1 ▸ hl
      rw [if_pos hl] at hx; rw [if_pos hl'] at hy
      cases hx; cases hy; exact hr
    · simp [hl] at hx
  · rw [if_neg hi] at hx hy
    exact h.2 i x y hx hy

theorem rel_ofSpec (l : Bool) (x : SReg α) : Rel (ofSpec l x) x := by
  cases x <;> simp only [ofSpec] <;> constructor

/-! ### registers that lose their rows -/

theorem spendSet_get (D : List Nat) (st : List (IReg α)) (i : Nat) (a : IReg α) (h : st[i]? = some a) :
    (spendSet D st)[i]? = some (if spendable a && D.contains i then .spent else a) := by
  unfold spendSet
  rw [List.getElem?_mapIdx, h]; rfl

@[simp] theorem spendSet_length (D : List Nat) (st : List (IReg α)) : (spendSet D st).length = st.length := by
  unfold spendSet; simp

/-- A register that holds no unread generator (a materialised frame, a value, an iterator) keeps what it holds. -/
theorem spendSet_other (D : List Nat) (st : List (IReg α)) (i : Nat) (a : IReg α) (h : st[i]? = some a)
    (hn : spendable a = false) : (spendSet D st)[i]? = some a := by
  rw [spendSet_get D st i a h]; simp [hn]

theorem Sim.spendSet {st : List (IReg α)} {sp : List (SReg α)} (h : Sim st sp) (D : List Nat) :
    Sim (spendSet D st) sp := by
  refine ⟨by rw [spendSet_length]; exact h.1, ?_⟩
  intro i x y hx hy
  have hi : i < st.length := by have := lt_of_get hx; rwa [spendSet_length] at this
  have ha : st[i]? = some st[i] := List.getElem?_eq_getElem hi
  rw [spendSet_get D st i _ ha] at hx
  have hr := h.2 i _ y ha hy
  simp only [Option.some.injEq] at hx
  subst hx
  split
  · rename_i hc
    simp only [Bool.and_eq_true] at hc
    generalize st[i] = a at hr hc
    cases hr <;> first | exact Rel.spent _ _ | (simp [spendable] at hc)
  · exact hr

@[simp] theorem handOver_length (st : List (IReg α)) (s : Nat) : (handOver st s).length = st.length := by
  unfold handOver; simp

@[simp] theorem drain_length (st : List (IReg α)) (s : Nat) : (drain st s).length = st.length := by
  unfold drain; simp

theorem handOver_other (st : List (IReg α)) (s i : Nat) (a : IReg α) (h : st[i]? = some a)
    (hn : spendable a = false) : (handOver st s)[i]? = some a := spendSet_other _ st i a h hn

theorem drain_other (st : List (IReg α)) (s i : Nat) (a : IReg α) (h : st[i]? = some a)
    (hn : spendable a = false) : (drain st s)[i]? = some a := spendSet_other _ st i a h hn

theorem Sim.handOver {st : List (IReg α)} {sp : List (SReg α)} (h : Sim st sp) (s : Nat) : Sim (handOver st s) sp :=
  h.spendSet _

theorem Sim.drain {st : List (IReg α)} {sp : List (SReg α)} (h : Sim st sp) (s : Nat) : Sim (drain st s) sp :=
  h.spendSet _

/-! ### `materialise` -/

/-- `materialise` never changes a register that holds no unread generator. -/
theorem materialise_other (st : List (IReg α)) (s i : Nat) (a : IReg α) (h : st[i]? = some a)
    (hn : spendable a = false) : (materialise st s)[i]? = some a := by
  unfold materialise
  cases hs : st[s]? with
  | none => exact h
  | some r =>
    cases r with
    | frame sch2 l2 rows2 =>
      simp only
      by_cases e : s = i
      · subst e
        rw [h] at hs; cases hs
        rw [List.getElem?_set_self (lt_of_get h)]
        cases l2 with
        | false => rfl
        | true => simp [spendable] at hn
      · rw [List.getElem?_set_ne e]; exact h
    | defer src sch2 rows2 =>
      simp only
      by_cases e : s = i
      · subst e
        rw [h] at hs; cases hs; simp [spendable] at hn
      · rw [List.getElem?_set_ne e]; exact spendSet_other _ st i a h hn
    | spent => exact h
    | val v => exact h
    | err c => exact h
    | iter r p => exact h
    | giter g => exact h

/-- Materialising a live register leaves it as a materialised frame with the rows it stood for. -/
theorem materialise_self (st : List (IReg α)) (s : Nat) (sch : Schema) (rows : List (List α))
    (h : frameOf st s = some (sch, rows)) : (materialise st s)[s]? = some (.frame sch false rows) := by
  unfold materialise
  rcases frameOf_cases h with ⟨l, h1⟩ | ⟨src, h1⟩
  · rw [h1]; simp only
    rw [List.getElem?_set_self (lt_of_get h1)]
  · rw [h1]; simp only
    rw [List.getElem?_set_self (by rw [spendSet_length]; exact lt_of_get h1)]

@[simp] theorem materialise_length (st : List (IReg α)) (s : Nat) : (materialise st s).length = st.length := by
  unfold materialise
  split <;> simp

theorem Sim.materialise {st : List (IReg α)} {sp : List (SReg α)} (h : Sim st sp) (s : Nat) :
    Sim (materialise st s) sp := by
  unfold Frame.materialise
  cases hs : st[s]? with
  | none => exact h
  | some r =>
    cases r with
    | frame sch l rows =>
      simp only
      apply h.setL
      intro b hb
      rw [h.frame_of hs] at hb
      cases hb
      constructor
    | defer src sch rows =>
      simp only
      apply (h.spendSet _).setL
      intro b hb
      rw [h.defer_of hs] at hb
      cases hb
      constructor
    | spent => exact h
    | val v => exact h
    | err c => exact h
    | iter r p => exact h
    | giter g => exact h

theorem frameOf_eager (st : List (IReg α)) (s : Nat) (sch : Schema) (rows : List (List α))
    (h : st[s]? = some (.frame sch false rows)) : frameOf st s = some (sch, rows) := by
  simp [frameOf, h]

theorem rowsNow_eager (st : List (IReg α)) (s : Nat) (sch : Schema) (rows rows' : List (List α))
    (h : st[s]? = some (.frame sch false rows)) : rowsNow st s rows' = rows' := by
  simp [rowsNow, h]

theorem isLazy_false_of (st : List (IReg α)) (s : Nat) (sch : Schema) (rows : List (List α))
    (h : st[s]? = some (.frame sch false rows)) : isLazy st s = false := by
  simp [isLazy, h]

/-- Methods that need a list call `self.materialize()` first — given that the generated table says so
(`MatTable`, proved from the table in `Props/C03.lean`: `C03.methods_materialise_first`). -/
theorem method_materialises (hm : MatTable) (u : UnOp α) (h : u.iterates = false) :
    Gen.Frame.materialisesFirst u.method = true := by
  obtain ⟨h1, h2, h3, h4, h5, h6, _, _, _⟩ := hm
  cases u with
  | head k => exact h1
  | tail k => exact h1
  | slice o l => exact h1
  | filter m => cases h
  | take ix => cases h
  | query p => cases h
  | select a => cases h
  | distinct => cases h
  | batches n => exact h6
  | collect c l => exact h5
  | row i => exact h2
  | len how => cases how <;> first | exact h3 | exact h4
  | hash => cases h

/-! ### iteration in chunks -/

/-- Two successive `next` calls yield what one call for the sum would have yielded. -/
theorem next_chunks (rows : List α) (pos k k' : Nat) :
    (rows.drop pos).take k ++ (rows.drop (pos + ((rows.drop pos).take k).length)).take k'
      = (rows.drop pos).take (k + k') := by
  rw [List.take_add, List.drop_drop]
  congr 2
  simp only [List.length_take, List.length_drop]
  by_cases h : k ≤ rows.length - pos
  · rw [Nat.min_eq_left h]
  · have h' : rows.length - pos ≤ k := by omega
    rw [Nat.min_eq_right h']
    rw [List.drop_eq_nil_iff.mpr (by omega : rows.length ≤ pos + (rows.length - pos)),
        List.drop_eq_nil_iff.mpr (by omega : rows.length ≤ pos + k)]

/-! ### a materialised frame is never altered -/
section
variable [DecidableEq α]

theorem get_push {β : Type} (l : List β) (x : β) (i : Nat) (h : i < l.length) : (l ++ [x])[i]? = l[i]? :=
  List.getElem?_append_left h

/-- One step never changes a materialised frame, except `append` to that very frame. -/
theorem implStep_materialised (st st' : List (IReg α)) (op : Op α) (h : implStep st op = some st')
    (i : Nat) (sch : Schema) (rows : List (List α)) (hi : st[i]? = some (.frame sch false rows)) :
    st'[i]? = some (.frame sch false (rows ++ appended i [op])) := by
  have hlt := lt_of_get hi
  have hnl : spendable (IReg.frame sch false rows : IReg α) = false := rfl
  have hm : ∀ (st0 : List (IReg α)) s, st0[i]? = some (.frame sch false rows) →
      (materialise st0 s)[i]? = some (.frame sch false rows) := fun st0 s h0 => materialise_other st0 s i _ h0 hnl
  have hd : ∀ (st0 : List (IReg α)) s, st0[i]? = some (.frame sch false rows) →
      (drain st0 s)[i]? = some (.frame sch false rows) := fun st0 s h0 => drain_other st0 s i _ h0 hnl
  have hh : ∀ (st0 : List (IReg α)) s, st0[i]? = some (.frame sch false rows) →
      (handOver st0 s)[i]? = some (.frame sch false rows) := fun st0 s h0 => handOver_other st0 s i _ h0 hnl
  cases op with
  | un u s =>
    simp only [appended, List.append_nil]
    simp only [implStep] at h
    split at h
    · split at h
      · cases h; rw [get_push _ _ _ hlt]; exact hi
      · split at h
        · cases h; rw [get_push _ _ _ (by simp; exact hlt)]; exact hm st s hi
        · split at h
          · cases h; rw [get_push _ _ _ hlt]; exact hi
          · split at h
            · cases h; rw [get_push _ _ _ (by simp; exact hlt)]; exact hh st s hi
            · cases h; rw [get_push _ _ _ hlt]; exact hi
    · split at h
      · cases h; rw [get_push _ _ _ (by simp; exact hlt)]; exact hm st s hi
      · split at h
        · cases h; rw [get_push _ _ _ hlt]; exact hi
        · split at h
          · cases h; rw [get_push _ _ _ (by simp; exact hlt)]; exact hh st s hi
          · split at h
            · cases h; rw [get_push _ _ _ (by simp; exact hlt)]; exact hd st s hi
            · cases h; rw [get_push _ _ _ hlt]; exact hi
    · cases h
  | add s t =>
    simp only [appended, List.append_nil]
    simp only [implStep] at h
    split at h
    · split at h
      · cases h; rw [get_push _ _ _ hlt]; exact hi
      · -- whatever the table says: each operand is materialised or left alone
        generalize Gen.Frame.materialisesFirst "__add__" = b1 at h
        generalize Gen.Frame.materialisesFirst "__add__.other" = b2 at h
        cases b1 <;> cases b2 <;> simp only [if_true, if_false, Bool.false_eq_true] at h <;>
          (split at h <;>
            (cases h
             rw [get_push _ _ _ (by first | exact hlt | (simp only [materialise_length]; exact hlt))]
             first | exact hi | exact hm _ _ hi | exact hm _ _ (hm _ _ hi)))
    · cases h
  | append s r =>
    simp only [implStep] at h
    split at h
    · rename_i sch2 l2 rows2 hs
      split at h
      · cases h
      · split at h
        · cases h
          simp only [appended]
          by_cases e : s = i
          · subst e; rw [hi] at hs; cases hs; simp at *
          · simp only [e, if_false, List.append_nil]; rw [get_push _ _ _ hlt]; exact hi
        · cases h
          rw [get_push _ _ _ (by rw [List.length_set]; exact hlt)]
          simp only [appended]
          by_cases e : s = i
          · subst e; rw [hi] at hs; cases hs
            simp only [if_true]
            rw [List.getElem?_set_self hlt]
          · simp only [e, if_false, List.append_nil]
            rw [List.getElem?_set_ne e]; exact hi
    · cases h
  | iter s =>
    simp only [appended, List.append_nil]
    simp only [implStep] at h
    split at h
    · generalize Gen.Frame.materialisesFirst "__iter__" = b at h
      cases b
      · simp only [Bool.false_eq_true, if_false] at h
        split at h <;> (cases h; rw [get_push _ _ _ hlt]; exact hi)
      · simp only [if_true] at h
        cases h; rw [get_push _ _ _ (by simp; exact hlt)]; exact hm st s hi
    · generalize Gen.Frame.materialisesFirst "__iter__" = b at h
      cases b
      · simp only [Bool.false_eq_true, if_false] at h
        cases h; rw [get_push _ _ _ hlt]; exact hi
      · simp only [if_true] at h
        cases h; rw [get_push _ _ _ (by simp; exact hlt)]; exact hm st s hi
    · cases h
  | next it k =>
    simp only [appended, List.append_nil]
    simp only [implStep] at h
    split at h
    · rename_i rows2 pos2 hs
      cases h
      rw [get_push _ _ _ (by rw [List.length_set]; exact hlt)]
      have : it ≠ i := by intro e; subst e; rw [hi] at hs; cases hs
      rw [List.getElem?_set_ne this]; exact hi
    · rename_i src hs
      split at h
      · rename_i sch2 rows2 hs2
        cases h
        rw [get_push _ _ _ (by rw [List.length_set]; exact hlt)]
        have : src ≠ i := by intro e; subst e; rw [hi] at hs2; cases hs2
        rw [List.getElem?_set_ne this]; exact hi
      · cases h; rw [get_push _ _ _ hlt]; exact hi
    · cases h
  | zip s t =>
    simp only [appended, List.append_nil]
    simp only [implStep] at h
    split at h
    · generalize Gen.Frame.materialisesFirst "__iter__" = b at h
      have key : ∀ (st0 : List (IReg α)) (c : Bool) (x : Nat), st0[i]? = some (.frame sch false rows) →
          (if c = true then drain st0 x else st0)[i]? = some (.frame sch false rows) := by
        intro st0 c x h0
        cases c
        · simpa using h0
        · simpa using hd st0 x h0
      have klen : ∀ (st0 : List (IReg α)) (c : Bool) (x : Nat), (if c = true then drain st0 x else st0).length = st0.length := by
        intro st0 c x; cases c <;> simp
      cases b
      · simp only [Bool.false_eq_true, if_false] at h
        cases h
        rw [get_push _ _ _ (by rw [klen, klen]; exact hlt)]
        exact key _ _ _ (key _ _ _ hi)
      · simp only [if_true] at h
        cases h
        rw [get_push _ _ _ (by simp; exact hlt)]
        exact hm _ _ (hm _ _ hi)
    · cases h

/-! ### whole programs: appended rows, iterators -/
set_option linter.unusedSectionVars false

theorem appended_cons (i : Nat) (op : Op α) (ops : List (Op α)) :
    appended i (op :: ops) = appended i [op] ++ appended i ops := by
  cases op <;> simp [appended]
  split <;> simp

theorem implEval_materialised (prog : List (Op α)) (st st' : List (IReg α)) (h : implEval st prog = some st')
    (i : Nat) (sch : Schema) (rows : List (List α)) (hi : st[i]? = some (.frame sch false rows)) :
    st'[i]? = some (.frame sch false (rows ++ appended i prog)) := by
  induction prog generalizing st rows with
  | nil => simp only [implEval, Option.some.injEq] at h; subst h; simpa [appended] using hi
  | cons op ops ih =>
    simp only [implEval] at h
    cases h1 : implStep st op with
    | none => rw [h1] at h; cases h
    | some st1 =>
      rw [h1] at h
      have := implStep_materialised st st1 op h1 i sch rows hi
      have := ih st1 h _ this
      rw [appended_cons, ← List.append_assoc]; exact this

/-- One step of the specification moves an iterator register only by its own `next`. -/
theorem specStep_iter (sp sp' : List (SReg α)) (op : Op α) (h : specStep sp op = some sp')
    (it : Nat) (rows : List (List α)) (pos : Nat) (hi : sp[it]? = some (.iter rows pos)) :
    sp'[it]? = some (.iter rows (handed it rows pos [op]).2) := by
  have hlt := lt_of_get hi
  cases op with
  | un u s =>
    simp only [specStep] at h
    split at h
    · cases h; rw [get_push _ _ _ hlt]; exact hi
    · cases h
  | add s t =>
    simp only [specStep] at h
    split at h
    · cases h; rw [get_push _ _ _ hlt]; exact hi
    · cases h
  | append s r =>
    simp only [specStep] at h
    split at h
    · rename_i sch rows2 hs
      split at h
      · cases h
      · cases h
        rw [get_push _ _ _ (by rw [List.length_set]; exact hlt)]
        have : s ≠ it := by intro e; subst e; rw [hi] at hs; cases hs
        rw [List.getElem?_set_ne this]; exact hi
    · cases h
  | iter s =>
    simp only [specStep] at h
    split at h
    · cases h; rw [get_push _ _ _ hlt]; exact hi
    · cases h
  | next j k =>
    simp only [specStep] at h
    split at h
    · rename_i rows2 pos2 hs
      cases h
      rw [get_push _ _ _ (by rw [List.length_set]; exact hlt)]
      by_cases e : j = it
      · subst e
        rw [hi] at hs; cases hs
        rw [List.getElem?_set_self hlt]
        simp [handed]
      · rw [List.getElem?_set_ne e]
        simp [handed, e, hi]
    · cases h
  | zip s t =>
    simp only [specStep] at h
    split at h
    · cases h; rw [get_push _ _ _ hlt]; exact hi
    · cases h

theorem handed_cons (it : Nat) (rows : List (List α)) (pos : Nat) (op : Op α) (ops : List (Op α)) :
    handed it rows pos (op :: ops) =
      ((handed it rows pos [op]).1 ++ (handed it rows (handed it rows pos [op]).2 ops).1,
       (handed it rows (handed it rows pos [op]).2 ops).2) := by
  cases op <;> simp [handed]
  split <;> simp

theorem specEval_iter (prog : List (Op α)) (sp sp' : List (SReg α)) (h : specEval sp prog = some sp')
    (it : Nat) (rows : List (List α)) (pos : Nat) (hi : sp[it]? = some (.iter rows pos)) :
    sp'[it]? = some (.iter rows (handed it rows pos prog).2) := by
  induction prog generalizing sp pos with
  | nil => simp only [specEval, Option.some.injEq] at h; subst h; simpa [handed] using hi
  | cons op ops ih =>
    simp only [specEval] at h
    cases h1 : specStep sp op with
    | none => rw [h1] at h; cases h
    | some sp1 =>
      rw [h1] at h
      have := specStep_iter sp sp1 op h1 it rows pos hi
      have := ih sp1 h _ this
      rw [handed_cons]; exact this

/-- The chunks are consecutive pieces of the listing: concatenated they are the window from the
start position to the end position, which never passes the end of the listing by more than it
already had. -/
theorem handed_window (it : Nat) (rows : List (List α)) (pos : Nat) (prog : List (Op α)) :
    pos ≤ (handed it rows pos prog).2
    ∧ (handed it rows pos prog).2 ≤ max pos rows.length
    ∧ (handed it rows pos prog).1.flatten = (rows.drop pos).take ((handed it rows pos prog).2 - pos) := by
  induction prog generalizing pos with
  | nil => simp [handed]; omega
  | cons op ops ih =>
    have key : ∀ j k, (handed it rows pos (Op.next j k :: ops)) =
        if j = it then
          ((rows.drop pos).take k :: (handed it rows (pos + ((rows.drop pos).take k).length) ops).1,
           (handed it rows (pos + ((rows.drop pos).take k).length) ops).2)
        else handed it rows pos ops := by
      intro j k; simp only [handed]
    cases op with
    | next j k =>
      rw [key]
      by_cases e : j = it
      · simp only [e, if_true, List.flatten_cons]
        obtain ⟨h1, h2, h3⟩ := ih (pos + ((rows.drop pos).take k).length)
        have hl : ((rows.drop pos).take k).length ≤ rows.length - pos := by
          simp only [List.length_take, List.length_drop]; omega
        refine ⟨by omega, by omega, ?_⟩
        rw [h3]
        generalize hq : (handed it rows (pos + ((rows.drop pos).take k).length) ops).2 = q at h1 h2 ⊢
        by_cases hk : k ≤ rows.length - pos
        · have hlen : ((rows.drop pos).take k).length = k := by
            simp only [List.length_take, List.length_drop]; omega
          rw [hlen] at h1 ⊢
          have : q - pos = k + (q - (pos + k)) := by omega
          rw [this, List.take_add, List.drop_drop]
        · have hlen : ((rows.drop pos).take k).length = rows.length - pos := by
            simp only [List.length_take, List.length_drop]; omega
          rw [hlen] at h1 ⊢
          have e1 : rows.drop (pos + (rows.length - pos)) = [] := List.drop_eq_nil_iff.mpr (by omega)
          rw [e1]
          simp only [List.take_nil, List.append_nil]
          rw [List.take_of_length_le (by simp only [List.length_drop]; omega),
              List.take_of_length_le (by simp only [List.length_drop]; omega)]
      · simp only [e, if_false]; exact ih pos
    | un u s => simpa [handed] using ih pos
    | add s t => simpa [handed] using ih pos
    | append s r => simpa [handed] using ih pos
    | iter s => simpa [handed] using ih pos
    | zip s t => simpa [handed] using ih pos

end

/-! ### the executable well-formedness check is sound -/

theorem liveB_sound (st : List (IReg α)) (s : Nat) (h : liveB st s = true) : live st s := by
  unfold liveB at h
  obtain ⟨⟨sch, rows⟩, hx⟩ := Option.isSome_iff_exists.mp h
  exact ⟨sch, rows, hx⟩

theorem wfOpB_sound (st : List (IReg α)) (op : Op α) (h : wfOpB st op = true) : wfOp st op := by
  cases op with
  | un u s => exact liveB_sound st s h
  | add s t =>
    simp only [wfOpB, Bool.and_eq_true] at h
    exact ⟨liveB_sound st s h.1, liveB_sound _ t h.2⟩
  | append s r =>
    simp only [wfOpB, Bool.and_eq_true, Bool.not_eq_true'] at h
    obtain ⟨h1, h2⟩ := h
    refine ⟨?_, h2⟩
    split at h1
    · rename_i sch rows hs
      exact ⟨sch, rows, hs, by simpa using h1⟩
    · cases h1
  | iter s => exact liveB_sound st s h
  | next it k =>
    simp only [wfOpB] at h
    split at h
    · rename_i rows pos hs; exact ⟨rows, pos, hs⟩
    · cases h
  | zip s t =>
    simp only [wfOpB, Bool.and_eq_true] at h
    exact ⟨liveB_sound st s h.1, liveB_sound _ t h.2⟩

theorem wfProgB_sound' [DecidableEq α] (prog : List (Op α)) (st : List (IReg α)) (h : wfProgB st prog = true) :
    wfProg st prog := by
  induction prog generalizing st with
  | nil => trivial
  | cons op ops ih =>
    simp only [wfProgB, Bool.and_eq_true] at h
    refine ⟨wfOpB_sound st op h.1, ?_⟩
    intro st' hst
    have h2 := h.2
    rw [hst] at h2
    exact ih st' h2
end Frame
