import OrsoVerif.Model.RowStream
import OrsoVerif.Lemmas.RowBytes
/-!
# Lemmas about records one after another (helper lemmas for `Props/C01.lean`)
-/
namespace RowStream
open RowBytes RowCodec

/-- The decoder's length field of anything that starts with an emitted header is the emitted length. -/
theorem recordSize_header (len ts : Nat) (body : Bytes) (h : len < 2147483648) :
    recordSize (header len ts ++ body) = (len : Int) := by
  rw [header_eq]
  simp only [List.cons_append, List.nil_append]
  rw [recordSize_cons, len4_be len (by omega)]
  simp [wrap32]; omega

/-- The reader cuts an emitted record off the front of anything, exactly. -/
theorem nextRecord_emitted {ts : Nat} {payload r : Bytes} (h : encodeFrame ts payload = .ok r)
    (rest : Bytes) : nextRecord (r ++ rest) = .ok (r, rest) := by
  obtain ⟨hl, rfl⟩ := encodeFrame_ok h
  have hh := header_length payload.length ts
  have hrs : recordSize (header payload.length ts ++ payload ++ rest) = (payload.length : Int) := by
    rw [List.append_assoc]; exact recordSize_header _ _ _ (by omega)
  have hlen : (header payload.length ts ++ payload ++ rest).length = 14 + payload.length + rest.length := by
    simp only [List.length_append, hh]
  have htake : (header payload.length ts ++ payload ++ rest).take (14 + payload.length)
      = header payload.length ts ++ payload := by
    rw [List.take_append_of_le_length (by simp only [List.length_append, hh]; omega)]
    exact List.take_of_length_le (by simp only [List.length_append, hh]; omega)
  have hdrop : (header payload.length ts ++ payload ++ rest).drop (14 + payload.length) = rest := by
    have : 14 + payload.length = (header payload.length ts ++ payload).length := by
      simp only [List.length_append, hh]
    rw [this, List.drop_left]
  have hcf : checkFrame (header payload.length ts ++ payload) = .ok payload := by
    rw [checkFrame_header _ _ _ (by omega)]; simp
  unfold nextRecord
  simp only [hrs, hlen, Gen.Row.decHeaderSize, Int.toNat_natCast]
  rw [if_neg (by omega), if_neg (by omega), if_neg (by omega), htake, hcf, hdrop]

theorem emitted_length {ts : Nat} {payload r : Bytes} (h : encodeFrame ts payload = .ok r) :
    r.length = 14 + payload.length := by
  obtain ⟨_, rfl⟩ := encodeFrame_ok h
  simp only [List.length_append, header_length]

/-- What a record the encoder emitted is (for some clock and payload). -/
def Emitted (r : Bytes) : Prop := ∃ ts payload, encodeFrame ts payload = .ok r

theorem Emitted.ne_nil {r : Bytes} (h : Emitted r) : r ≠ [] := by
  obtain ⟨ts, p, h⟩ := h
  have := emitted_length h
  intro hr; rw [hr] at this; simp only [List.length_nil] at this; omega

/-- With one unit of fuel per record the reader gives back the records. -/
theorem splitFuel_flatten (rs : List Bytes) (hrs : ∀ r ∈ rs, Emitted r) (fuel : Nat) (hf : rs.length ≤ fuel) :
    splitFuel fuel rs.flatten = .ok rs := by
  induction rs generalizing fuel with
  | nil => cases fuel <;> rfl
  | cons r rs ih =>
    have hr := hrs r (by simp)
    obtain ⟨ts, p, he⟩ := hr
    have hne : r ≠ [] := Emitted.ne_nil ⟨ts, p, he⟩
    cases fuel with
    | zero => simp at hf
    | succ fuel =>
      rw [List.flatten_cons]
      obtain ⟨b, bs, hb⟩ : ∃ b bs, r ++ rs.flatten = b :: bs := by
        cases r with
        | nil => exact absurd rfl hne
        | cons b t => exact ⟨b, t ++ rs.flatten, rfl⟩
      rw [hb]
      unfold splitFuel
      rw [← hb, nextRecord_emitted he]
      simp only []
      rw [ih (fun x hx => hrs x (by simp [hx])) fuel (by simp at hf; omega)]

theorem length_le_flatten (rs : List Bytes) (hrs : ∀ r ∈ rs, r ≠ []) : rs.length ≤ rs.flatten.length := by
  induction rs with
  | nil => simp
  | cons r rs ih =>
    have h1 : 0 < r.length := List.length_pos_iff.mpr (hrs r (by simp))
    have h2 := ih (fun x hx => hrs x (by simp [hx]))
    simp only [List.flatten_cons, List.length_append, List.length_cons]; omega

theorem decodeAllWith_map {α β : Type} (dec : Bytes → Except DecErr α) (xs : List β) (f : β → Bytes) (g : β → α)
    (h : ∀ x ∈ xs, dec (f x) = .ok (g x)) : decodeAllWith dec (xs.map f) = .ok (xs.map g) := by
  induction xs with
  | nil => rfl
  | cons x xs ih =>
    simp only [List.map_cons, decodeAllWith]
    rw [h x (by simp), ih (fun y hy => h y (by simp [hy]))]

/-- A strict, non-empty prefix of an emitted record at the front of a buffer that ends there is a
data error for the reader: too short for a header, or shorter than its length field announces. -/
theorem nextRecord_torn {ts : Nat} {payload r : Bytes} (h : encodeFrame ts payload = .ok r)
    (k : Nat) (hk : k < r.length) :
    ∃ e, nextRecord (r.take k) = .error e ∧ e.isDataError = true := by
  obtain ⟨hl, rfl⟩ := encodeFrame_ok h
  have hh := header_length payload.length ts
  simp only [List.length_append, hh] at hk
  by_cases hk14 : k < 14
  · refine ⟨.malformed, ?_, rfl⟩
    unfold nextRecord
    rw [if_pos (by simp only [List.length_take, Gen.Row.decHeaderSize, List.length_append, hh]; omega)]
  · refine ⟨.badLength, ?_, rfl⟩
    have ht : (header payload.length ts ++ payload).take k
        = header payload.length ts ++ payload.take (k - 14) := by
      rw [List.take_append, hh, List.take_of_length_le (by omega)]
    have hrs : recordSize (header payload.length ts ++ payload.take (k - 14)) = (payload.length : Int) :=
      recordSize_header _ _ _ (by omega)
    have hlen : (header payload.length ts ++ payload.take (k - 14)).length = k := by
      simp only [List.length_append, hh, List.length_take]; omega
    unfold nextRecord
    rw [ht]
    simp only [hrs, hlen, Gen.Row.decHeaderSize, Int.toNat_natCast]
    rw [if_neg (by omega), if_neg (by omega), if_pos (by omega)]

/-- Complete records followed by a torn one: the reader reports a data error (it never returns
the complete records as if the buffer ended cleanly, and never invents a record). -/
theorem splitFuel_torn (rs : List Bytes) (hrs : ∀ r ∈ rs, Emitted r) (t : Bytes) (ht : t ≠ [])
    (e : DecErr) (he : nextRecord t = .error e) (fuel : Nat) (hf : rs.length + 1 ≤ fuel) :
    splitFuel fuel (rs.flatten ++ t) = .error e := by
  induction rs generalizing fuel with
  | nil =>
    cases fuel with
    | zero => simp at hf
    | succ fuel =>
      cases t with
      | nil => exact absurd rfl ht
      | cons b bs =>
        simp only [List.flatten_nil, List.nil_append]
        unfold splitFuel
        rw [he]
  | cons r rs ih =>
    obtain ⟨ts, p, hr⟩ := hrs r (by simp)
    have hne : r ≠ [] := Emitted.ne_nil ⟨ts, p, hr⟩
    cases fuel with
    | zero => simp at hf
    | succ fuel =>
      rw [List.flatten_cons, List.append_assoc]
      obtain ⟨b, bs, hb⟩ : ∃ b bs, r ++ (rs.flatten ++ t) = b :: bs := by
        cases r with
        | nil => exact absurd rfl hne
        | cons b u => exact ⟨b, u ++ (rs.flatten ++ t), rfl⟩
      rw [hb]
      unfold splitFuel
      rw [← hb, nextRecord_emitted hr]
      simp only []
      rw [ih (fun x hx => hrs x (by simp [hx])) fuel (by simp at hf; omega)]

end RowStream
