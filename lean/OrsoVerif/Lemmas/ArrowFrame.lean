import OrsoVerif.Lemmas.Arrow
import OrsoVerif.Model.ArrowFrame
/-!
Helper lemmas for C11 (one frame used more than once): `takeWith next k` delivers the first `k` of the
rows the iterator still holds and leaves the others; `drain` is `takeWith` run to the end; what each
call does to the list a frame materialises to.  Everything is parametric in `NextFacts` (the facts
about the generated `__next__` expressions proved in `Props/C11.lean`).
-/
namespace Arrow

variable {α : Type}

/-- The rows an iterator will still deliver: what is left, cut to what the size limit lets through. -/
def It.rowsLeft (s : It α) : List α := s.remaining.take s.room

theorem drain_eq_rowsLeft (N : NextFacts) (s : It α) : drain s = s.rowsLeft := drain_eq N s

theorem drainWith_eq_takeWith (step : It α → Option α × It α) :
    ∀ (f : Nat) (s : It α), drainWith step f s = (takeWith step f s).1 := by
  intro f
  induction f with
  | zero => intro s; rfl
  | succ f ih =>
    intro s
    simp only [drainWith, takeWith]
    cases hn : step s with
    | mk o s' =>
      cases o with
      | none => rfl
      | some r => simp only [ih s']

theorem rowsLeft_of_full (N : NextFacts) (s : It α) (h : s.full = true) : s.rowsLeft = [] := by
  unfold It.rowsLeft
  cases hr : s.remaining with
  | nil => exact List.take_nil
  | cons r rest =>
    have hne : s.remaining ≠ [] := by rw [hr]; exact List.cons_ne_nil _ _
    rw [← hr, (full_iff_room N s hne).mp h, List.take_zero]

theorem next_empty_state (s : It α) (hf : s.full = false) (h : s.remaining = []) :
    (next s).1 = none ∧ (next s).2.rowsLeft = [] := by
  rw [remaining_eq] at h
  have h1 : s.current = [] := (List.append_eq_nil_iff.mp h).1
  have h2 : pending s.batch s.tables = [] := (List.append_eq_nil_iff.mp h).2
  refine ⟨by simp [next, hf, h1, fetch_none _ _ h2], ?_⟩
  simp [next, hf, h1, fetch_none _ _ h2, It.rowsLeft, It.remaining]

theorem rowsLeft_cons (N : NextFacts) (s s' : It α) (hf : s.full = false) (r : α) (rest : List α)
    (hr : s.remaining = r :: rest) (h2 : s'.remaining = rest) (h3 : s'.processed = s.processed + 1)
    (h4 : s'.maxSize = s.maxSize) : s.rowsLeft = r :: s'.rowsLeft := by
  have hne : s.remaining ≠ [] := by rw [hr]; exact List.cons_ne_nil _ _
  have hnz : s.room ≠ 0 := fun h0 => by
    have := (full_iff_room N s hne).mpr h0
    rw [hf] at this; exact Bool.noConfusion this
  have hroom : s.room = s'.room + 1 := by
    unfold It.room at *
    rw [h4, h2, h3]
    rw [hr] at hnz ⊢
    cases hm : s.maxSize with
    | none => simp
    | some m => rw [hm] at hnz; simp only at hnz ⊢; omega
  unfold It.rowsLeft
  rw [hroom, hr, h2, List.take_succ_cons]

/-- `k` calls of `__next__` deliver the first `k` of the rows still to come and leave the others. -/
theorem takeWith_next (N : NextFacts) : ∀ (k : Nat) (s : It α),
    (takeWith next k s).1 = s.rowsLeft.take k ∧ (takeWith next k s).2.rowsLeft = s.rowsLeft.drop k := by
  intro k
  induction k with
  | zero => intro s; simp [takeWith]
  | succ k ih =>
    intro s
    cases hfull : s.full with
    | true =>
      simp only [takeWith, next_full s hfull, rowsLeft_of_full N s hfull, List.take_nil, List.drop_nil,
        and_self]
    | false =>
      cases hr : s.remaining with
      | nil =>
        obtain ⟨e1, e2⟩ := next_empty_state s hfull hr
        have hl : s.rowsLeft = [] := by unfold It.rowsLeft; rw [hr]; exact List.take_nil
        cases hn : next s with
        | mk o s' =>
          rw [hn] at e1 e2
          simp only at e1 e2
          subst e1
          simp only [takeWith, hn, hl, List.take_nil, List.drop_nil, e2, and_self]
      | cons r rest =>
        obtain ⟨s', h1, h2, h3, h4, _⟩ := next_some N s hfull r rest hr
        have hc := rowsLeft_cons N s s' hfull r rest hr h2 h3 h4
        obtain ⟨i1, i2⟩ := ih s'
        simp only [takeWith, h1, hc, List.take_succ_cons, List.drop_succ_cons, i1, i2, and_self]

theorem rowsLeft_length_le (s : It α) : s.rowsLeft.length ≤ s.remaining.length := by
  unfold It.rowsLeft
  rw [List.length_take]
  exact Nat.min_le_right _ _

/-! ## frames -/

theorem materialize_listRows {ρ : Type} (f : Fr ρ) : f.materialize.listRows = f.listRows := by
  cases f <;> rfl

theorem materialize_not_lazy {ρ : Type} (f : Fr ρ) : f.materialize.isLazy = false := by
  cases f <;> rfl

/-- What a call does to the rows a frame holds, as a function of those rows alone: a fetch on a frame
that is still lazy takes its rows out of the frame (the cursor *is* the row source), `append` adds a
row (a lazy frame is materialised first), nothing else changes them. -/
def rowsAfter {ρ : Type} (wasLazy : Bool) (rows : List ρ) : Op ρ → List ρ
  | .fetch (some k) => if wasLazy then rows.drop k else rows
  | .fetch none => if wasLazy then [] else rows
  | .append r => rows ++ [r]
  | _ => rows

theorem step_listRows (N : NextFacts) (names : List String) (f : Fr (List α)) (op : Op (List α)) :
    (step names f op).1.listRows = rowsAfter f.isLazy f.listRows op := by
  cases op with
  | arrow size => exact materialize_listRows f
  | observe => exact materialize_listRows f
  | head k => exact materialize_listRows f
  | append r =>
    cases f with
    | lazy s => rfl
    | eager rows c => rfl
  | fetch k =>
    cases f with
    | eager rows c =>
      cases c with
      | none => cases k <;> rfl
      | some rest => cases k <;> rfl
    | lazy s =>
      simp only [step, Fr.listRows, Fr.isLazy]
      rw [drain_eq_rowsLeft N, drain_eq_rowsLeft N, (takeWith_next N _ s).2]
      cases k with
      | some k => simp [rowsAfter]
      | none =>
        simp only [rowsAfter, Option.getD_none, if_true]
        apply List.drop_eq_nil_iff.mpr
        have := rowsLeft_length_le s
        omega

/-- A call that is not a fetch on a still-lazy frame and not an `append`. -/
def quietOp {ρ : Type} (f : Fr ρ) : Op ρ → Prop
  | .fetch _ => f.isLazy = false
  | .append _ => False
  | _ => True

/-- A history all of whose calls are quiet at the time they are made. -/
def Quiet (names : List String) : Fr (List α) → List (Op (List α)) → Prop
  | _, [] => True
  | f, op :: ops => quietOp f op ∧ Quiet names (step names f op).1 ops

theorem step_quiet_rows (N : NextFacts) (names : List String) (f : Fr (List α)) (op : Op (List α))
    (h : quietOp f op) : (step names f op).1.listRows = f.listRows := by
  rw [step_listRows N]
  cases op with
  | fetch k =>
    simp only [quietOp] at h
    cases k <;> simp [rowsAfter, h]
  | append r => exact absurd h (by simp [quietOp])
  | arrow size => rfl
  | observe => rfl
  | head k => rfl

end Arrow
