import OrsoVerif.Lemmas.DisplayCell
/-! Helper lemmas for C18, part 6: the Markdown renderer. -/
namespace Display

theorem length_joinWith3 {sep : Str} (hsep : sep.length = 3) (xs : List Str) :
    (joinWith sep xs).length = totalW (xs.map List.length) + 3 * (xs.length - 1) := by
  induction xs with
  | nil => simp [joinWith, totalW]
  | cons x rest ih =>
    cases rest with
    | nil => simp [joinWith, totalW]
    | cons y rest =>
      simp only [joinWith, List.length_append, ih, hsep, List.map_cons, totalW, List.length_cons]
      omega

theorem zipWithTrunc_lengths {β : Type} (f : β → Nat → Str) (hf : ∀ b w, (f b w).length = w) :
    ∀ (bs : List β) (ws : List Nat), bs.length = ws.length →
      (zipWithTrunc f bs ws).map List.length = ws ∧ (zipWithTrunc f bs ws).length = ws.length
  | [], [], _ => by simp [zipWithTrunc]
  | b :: bs, w :: ws, h => by
    have ih := zipWithTrunc_lengths f hf bs ws (by simpa using h)
    simp [zipWithTrunc, hf, ih.1, ih.2]
  | [], _ :: _, h => by simp at h
  | _ :: _, [], h => by simp at h

theorem length_take_rjust (w : Nat) (s : Str) : ((rjust w s).take w).length = w := by
  rw [List.length_take, length_rjust]; omega
theorem length_take_ljust (w : Nat) (s : Str) : ((ljust w s).take w).length = w := by
  rw [List.length_take, length_ljust]; omega

theorem mdColWidthsGo_length (A : Arith) (maxCol : Nat) (t : List (List MdCell)) :
    ∀ (i : Nat) (ns : List Str), (mdColWidthsGo A maxCol t i ns).length = ns.length
  | _, [] => rfl
  | i, n :: ns => by simp [mdColWidthsGo, mdColWidthsGo_length A maxCol t (i + 1) ns]

/-- width of the columns part of every Markdown line -/
def mdColsWidth (ws : List Nat) : Nat := totalW ws + 3 * (ws.length - 1) + 2

theorem mdRowsGo_cols (A : Arith) (iw : Nat) (ws : List Nat) :
    ∀ (i : Nat) (rows : List (List MdCell)), (∀ r ∈ rows, r.length = ws.length) →
      ∀ l ∈ mdRowsGo A iw ws i rows, l.cols.length = mdColsWidth ws
  | _, [], _ => by simp [mdRowsGo]
  | i, row :: rest, h => by
    intro l hl
    simp only [mdRowsGo, List.mem_cons] at hl
    rcases hl with rfl | hl
    · have hz := zipWithTrunc_lengths (fun (c : MdCell) w => (rjust w c.text).take w)
        (fun c w => length_take_rjust w c.text) row ws (h row (by simp))
      simp only [List.length_append, length_joinWith3 (sep := [' ', '|', ' ']) rfl, hz.1, hz.2, mdColsWidth]
      rfl
    · exact mdRowsGo_cols A iw ws (i + 1) rest (fun r hr => h r (by simp [hr])) l hl

theorem mdRowsGo_length (A : Arith) (iw : Nat) (ws : List Nat) :
    ∀ (i : Nat) (rows : List (List MdCell)), (mdRowsGo A iw ws i rows).length = rows.length
  | _, [] => rfl
  | i, _ :: rest => by simp [mdRowsGo, mdRowsGo_length A iw ws (i + 1) rest]

/-- the `k`-th data line is labelled `A.mdLabel (i + k)` -/
theorem mdRowsGo_idx (A : Arith) (iw : Nat) (ws : List Nat) :
    ∀ (i : Nat) (rows : List (List MdCell)) (k : Nat) (l : MdLine), (mdRowsGo A iw ws i rows)[k]? = some l →
      l.idx = ['|'] ++ rjust (A.mdLabelPad iw) (natStr (A.mdLabel (i + k))) ++ [' ', '|', ' ']
  | _, [], k, l, h => by simp [mdRowsGo] at h
  | i, row :: rest, 0, l, h => by
    simp only [mdRowsGo, List.getElem?_cons_zero, Option.some.injEq] at h
    rw [← h]; rfl
  | i, row :: rest, k + 1, l, h => by
    simp only [mdRowsGo, List.getElem?_cons_succ] at h
    have := mdRowsGo_idx A iw ws (i + 1) rest k l h
    have e : i + 1 + k = i + (k + 1) := by omega
    rw [this, e]

theorem dfSlice_head (rows : List α) (limit : Nat) (h : 0 < limit) : dfSlice rows 0 (some limit) = rows.take limit := by
  have h0 : limit ≠ 0 := by omega
  have h1 : ¬ ((limit : Int) < 0) := by omega
  simp [dfSlice, pySlice, pyIdx, h0, h1]

end Display

namespace Display
theorem map_length_replicate (c : Char) (ws : List Nat) :
    (ws.map (fun w => List.replicate w c)).map List.length = ws := by
  induction ws with
  | nil => rfl
  | cons w ws ih => simp [ih]
end Display
