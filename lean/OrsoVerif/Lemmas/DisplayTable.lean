import OrsoVerif.Lemmas.DisplayCell
import OrsoVerif.Lemmas.DisplaySel
/-! Helper lemmas for C18, part 4: every box line has the table's printed width. -/
namespace Display

theorem utf8Go_total (fuel : Nat) (b : List UInt8) : ∃ s, utf8Go false fuel b = .ok s := by
  induction fuel generalizing b with
  | zero => exact ⟨[], by simp [utf8Go]⟩
  | succ fuel ih =>
    cases b with
    | nil => exact ⟨[], by simp [utf8Go]⟩
    | cons b0 rest =>
      have key : ∀ (c : Char) (r : List UInt8), ∃ s, consOk c (utf8Go false fuel r) = .ok s := by
        intro c r; obtain ⟨s, hs⟩ := ih r; exact ⟨c :: s, by rw [hs]; rfl⟩
      simp only [utf8Go, Bool.false_eq_true, if_false]
      repeat' split
      all_goals exact key _ _

/-- the pieces `xs` print, one by one, the widths `ws` -/
inductive Cols : List Str → List Nat → Prop where
  | nil : Cols [] []
  | cons {x : Str} {w : Nat} {xs : List Str} {ws : List Nat} : W x w → Cols xs ws → Cols (x :: xs) (w :: ws)

/-- pieces joined by a separator printing 3 characters -/
theorem W_joinWith {sep : Str} (hsep : W sep 3) {xs : List Str} {ws : List Nat}
    (h : Cols xs ws) : W (joinWith sep xs) (totalW ws + 3 * (ws.length - 1)) := by
  induction h with
  | nil => simpa [joinWith, totalW] using W_nil
  | @cons x w xs' ws' hx hrest ih =>
    cases hrest with
    | nil => simpa [joinWith, totalW] using hx
    | @cons y v ys vs hy hys =>
      simp only [joinWith]
      have := W_append (W_append hx hsep) ih
      have e : w + 3 + (totalW (v :: vs) + 3 * ((v :: vs).length - 1))
          = totalW (w :: v :: vs) + 3 * ((w :: v :: vs).length - 1) := by
        simp only [totalW, List.length_cons]; omega
      rw [e] at this
      exact this

theorem okStr_forall_joinWith {sep : Str} (hs : OkStr sep) {xs : List Str} (hx : ∀ x ∈ xs, OkStr x) :
    OkStr (joinWith sep xs) := okStr_joinWith hs hx

theorem W_lit {s : Str} (h : ∀ c ∈ s, isEsc c = false) {n : Nat} (hn : s.length = n) : W s n := by
  rw [← hn]; exact W_noesc s h

theorem sep_W : W [' ', '│', ' '] 3 := by unfold W; decide
theorem sep_ok : OkStr [' ', '│', ' '] := by unfold OkStr Ok Printable boxChars; decide

/-- the three border lines -/
theorem border_width (l m r fill : Char) (iw : Nat) (ws : List Nat)
    (hl : isEsc l = false) (hm : isEsc m = false) (hr : isEsc r = false) (hf : isEsc fill = false) :
    W (border l m r fill iw ws) (tableWidth iw ws) := by
  unfold border tableWidth
  have h1 : W ([l] ++ List.replicate iw fill ++ [m, fill]) (1 + iw + 2) :=
    W_lit (by intro c hc; simp at hc; rcases hc with rfl | ⟨_, rfl⟩ | rfl | rfl <;> assumption) (by simp; omega)
  have hsep : W [fill, m, fill] 3 :=
    W_lit (by intro c hc; simp at hc; rcases hc with rfl | rfl | rfl <;> assumption) rfl
  have h2 : Cols (ws.map fun w => List.replicate w fill) ws := by
    induction ws with
    | nil => exact .nil
    | cons w ws ih =>
      exact .cons (W_lit (by intro c hc; simp at hc; rw [hc.2]; exact hf) (by simp)) ih
  have h3 : W [fill, r] 2 :=
    W_lit (by intro c hc; simp at hc; rcases hc with rfl | rfl <;> assumption) rfl
  exact W_append (W_append h1 (W_joinWith hsep h2)) h3

theorem border_ok (l m r fill : Char) (iw : Nat) (ws : List Nat)
    (hl : Ok l) (hm : Ok m) (hr : Ok r) (hf : Ok fill) : OkStr (border l m r fill iw ws) := by
  unfold border
  have rep : ∀ n, OkStr (List.replicate n fill) := fun n c hc => by simp at hc; rw [hc.2]; exact hf
  refine okStr_append (okStr_append (okStr_append (okStr_append ?_ (rep _)) ?_) ?_) ?_
  · intro c hc; simp at hc; rw [hc]; exact hl
  · intro c hc; simp at hc; rcases hc with rfl | rfl <;> assumption
  · apply okStr_joinWith
    · intro c hc; simp at hc; rcases hc with rfl | rfl | rfl <;> assumption
    · intro x hx; simp only [List.mem_map] at hx; obtain ⟨w, _, rfl⟩ := hx; exact rep _
  · intro c hc; simp at hc; rcases hc with rfl | rfl <;> assumption

/-- header / type line -/
theorem headCells (token : Str) (ht : token ∈ usedTokens) :
    ∀ (vs : List Str) (ws : List Nat), (∀ v ∈ vs, PStr v) → vs.length = ws.length →
      Cols (zipWithTrunc (headCell token) vs ws) ws
      ∧ ∀ x ∈ zipWithTrunc (headCell token) vs ws, OkStr x
  | [], [], _, _ => ⟨.nil, by simp [zipWithTrunc]⟩
  | v :: vs, w :: ws, hv, hlen => by
    have ih := headCells token ht vs ws (fun x hx => hv x (by simp [hx])) (by simpa using hlen)
    have hp := pstr_center w (hv v (by simp))
    constructor
    · exact .cons (W_fixed w ht hp (by rw [length_center]; omega)) ih.1
    · intro x hx
      simp only [zipWithTrunc, List.mem_cons] at hx
      rcases hx with rfl | hx
      · exact okStr_fixed w ht hp
      · exact ih.2 x hx
  | [], _ :: _, _, h => by simp at h
  | _ :: _, [], _, h => by simp at h

theorem headerLine_width (token : Str) (ht : token ∈ usedTokens) (iw : Nat) (vs : List Str) (ws : List Nat)
    (hv : ∀ v ∈ vs, PStr v) (hlen : vs.length = ws.length) :
    W (headerLine token iw vs ws) (tableWidth iw ws) ∧ OkStr (headerLine token iw vs ws) := by
  unfold headerLine tableWidth
  have hc := headCells token ht vs ws hv hlen
  have h1 : W (['│'] ++ spaces iw ++ ['│', ' ']) (1 + iw + 2) :=
    W_lit (by intro c hc; simp [spaces] at hc; rcases hc with rfl | ⟨_, rfl⟩ | rfl | rfl <;> decide)
      (by simp [spaces]; omega)
  have h3 : W [' ', '│'] 2 := by unfold W; decide
  refine ⟨W_append (W_append h1 (W_joinWith sep_W hc.1)) h3, ?_⟩
  refine okStr_append (okStr_append (okStr_append (okStr_append ?_ (okStr_of_pstr (pstr_spaces _))) ?_)
    (okStr_joinWith sep_ok hc.2)) ?_
  all_goals (unfold OkStr Ok Printable boxChars; decide)

/-- formatted cells of one row -/
theorem formatRow_width (cw : Char → Nat) (hcw : ∀ c, Printable c → cw c = 1) (hbox : ∀ c ∈ boxChars, cw c = 1)
    (strict : Bool) :
    ∀ (row : List Cell) (ws : List Nat), (∀ c ∈ row, CellAscii c) → (∀ w ∈ ws, 1 ≤ w) → row.length = ws.length →
      ∃ cells, formatRow specArith cw strict row ws = .ok cells ∧ Cols cells ws ∧ ∀ x ∈ cells, OkStr x
  | [], [], _, _, _ => ⟨[], rfl, .nil, by simp⟩
  | c :: cs, w :: ws, hc, hw, hlen => by
    obtain ⟨s, hs, hW, hO⟩ := formatCell_width cw hcw hbox strict c w (hc c (by simp)) (hw w (by simp))
    obtain ⟨rest, hr, hF, hOk⟩ := formatRow_width cw hcw hbox strict cs ws (fun x hx => hc x (by simp [hx]))
      (fun x hx => hw x (by simp [hx])) (by simpa using hlen)
    refine ⟨s :: rest, by simp [formatRow, hs, hr], .cons hW hF, ?_⟩
    intro x hx
    rcases List.mem_cons.mp hx with rfl | hx
    · exact hO
    · exact hOk x hx
  | [], _ :: _, _, _, h => by simp at h
  | _ :: _, [], _, _, h => by simp at h

/-- a data line whose label fits the index column -/
theorem dataLine_width (iw label : Nat) (cells : List Str) (ws : List Nat) (hF : Cols cells ws)
    (hO : ∀ x ∈ cells, OkStr x) (hlab : (natStr label).length + 1 ≤ iw) :
    W (dataLine specArith iw label cells) (tableWidth iw ws) ∧ OkStr (dataLine specArith iw label cells) := by
  unfold dataLine tableWidth
  simp only [spec_labelPad]
  have hT : W T_TYPE 0 := W_tok (by simp [usedTokens])
  have hOff : W T_OFF 0 := W_tok (by simp [usedTokens])
  have hlabel : W (rjust (iw - 1) (natStr label)) (iw - 1) := by
    have := W_pstr (pstr_rjust (iw - 1) (pstr_natStr label))
    rw [length_rjust, Nat.max_eq_left (by omega)] at this
    exact this
  have h0 : W ['│'] 1 := by unfold W; decide
  have h3 : W [' ', '│'] 2 := by unfold W; decide
  have := W_append (W_append (W_append (W_append (W_append (W_append h0 hT) hlabel) hOff) sep_W)
    (W_joinWith sep_W hF)) h3
  constructor
  · have e : 1 + 0 + (iw - 1) + 0 + 3 + (totalW ws + 3 * (ws.length - 1)) + 2
        = 1 + iw + 2 + (totalW ws + 3 * (ws.length - 1)) + 2 := by omega
    rw [e] at this; exact this
  · refine okStr_append (okStr_append (okStr_append (okStr_append (okStr_append (okStr_append ?_
      (okStr_tok (by simp [usedTokens]))) (okStr_of_pstr (pstr_rjust _ (pstr_natStr label))))
      (okStr_tok (by simp [usedTokens]))) sep_ok) (okStr_joinWith sep_ok hO)) ?_
    all_goals (unfold OkStr Ok Printable boxChars; decide)

end Display

namespace Display
variable {α : Type}

theorem visibleRows_closed (rows : List α) (limit : Nat) (tt lazy : Bool) (hl : 0 < limit) :
    visibleRows specArith rows limit tt lazy =
      if tt = true then
        (if 2 * limit < rows.length then
          labelFrom 1 (rows.take limit) ++ [Line.ellipsis]
            ++ labelFrom (rows.length - limit + 1) (rows.drop (rows.length - limit))
        else labelFrom 1 rows)
      else labelFrom 1 (rows.take limit) := by
  cases tt with
  | false =>
    cases lazy with
    | false => simpa [visibleRows] using eagerLines_head rows limit hl
    | true => simpa [visibleRows] using lazyLines_head rows limit hl
  | true =>
    cases lazy with
    | true => simpa [visibleRows] using lazyLines_tt rows limit hl
    | false =>
      by_cases hn : 2 * limit < rows.length
      · have h := eagerLines_split rows limit hl hn
        have e : limit + (rows.length - 2 * limit) + 1 = rows.length - limit + 1 := by omega
        rw [e] at h
        simpa [visibleRows, hn] using h
      · simpa [visibleRows, hn] using eagerLines_small rows limit hl (by omega)

/-- every data line shows a row of the frame under a label between 1 and `n` (and at most
`min limit n` in head-only mode) -/
theorem visibleRows_data (rows : List α) (limit : Nat) (tt lazy : Bool) (hl : 0 < limit) (label : Nat) (row : α)
    (h : Line.data label row ∈ visibleRows specArith rows limit tt lazy) :
    row ∈ rows ∧ label ≤ rows.length ∧ (tt = false → label ≤ min limit rows.length) := by
  rw [visibleRows_closed rows limit tt lazy hl] at h
  cases tt with
  | false =>
    simp only [Bool.false_eq_true, if_false, mem_labelFrom] at h
    obtain ⟨i, hi, rfl⟩ := h
    have hm := List.mem_of_getElem? hi
    obtain ⟨hlt, _⟩ := List.getElem?_eq_some_iff.mp hi
    simp only [List.length_take] at hlt
    exact ⟨List.mem_of_mem_take hm, by omega, fun _ => by omega⟩
  | true =>
    simp only [if_true] at h
    refine (?_ : row ∈ rows ∧ label ≤ rows.length) |> fun x => ⟨x.1, x.2, by simp⟩
    split at h
    · simp only [List.mem_append, List.mem_singleton, reduceCtorEq, or_false, mem_labelFrom] at h
      rcases h with ⟨i, hi, rfl⟩ | ⟨i, hi, rfl⟩
      · have hm := List.mem_of_getElem? hi
        obtain ⟨hlt, _⟩ := List.getElem?_eq_some_iff.mp hi
        simp only [List.length_take] at hlt
        exact ⟨List.mem_of_mem_take hm, by omega⟩
      · have hm := List.mem_of_getElem? hi
        obtain ⟨hlt, _⟩ := List.getElem?_eq_some_iff.mp hi
        simp only [List.length_drop] at hlt
        exact ⟨List.mem_of_mem_drop hm, by omega⟩
    · rw [mem_labelFrom] at h
      obtain ⟨i, hi, rfl⟩ := h
      obtain ⟨hlt, _⟩ := List.getElem?_eq_some_iff.mp hi
      exact ⟨List.mem_of_getElem? hi, by omega⟩

theorem natStr_len_mono {a b : Nat} (h : a ≤ b) : (natStr a).length ≤ (natStr b).length := by
  unfold natStr
  have hb : 0 < (Nat.toDigits 10 b).length := Nat.length_toDigits_pos
  rw [Nat.length_toDigits_le_iff (by decide) hb]
  have := (Nat.length_toDigits_le_iff (b := 10) (n := b) (k := (Nat.toDigits 10 b).length) (by decide) hb).mp (Nat.le_refl _)
  omega

/-- the label of every data line fits the index column -/
theorem label_fits (rows : List α) (limit : Nat) (tt lazy : Bool) (hl : 0 < limit) (label : Nat) (row : α)
    (h : Line.data label row ∈ visibleRows specArith rows limit tt lazy) :
    (natStr label).length + 1 ≤ indexWidth specArith rows.length limit tt lazy rows := by
  obtain ⟨_, hle, hhead⟩ := visibleRows_data rows limit tt lazy hl label row h
  unfold indexWidth
  cases lazy with
  | false => simp only [Bool.false_eq_true, if_false, spec_idxEager]; have := natStr_len_mono hle; omega
  | true =>
    simp only [if_true, spec_idxLazy]
    suffices hb : label ≤ (lazySelect specArith rows limit tt).2 + 1 by have := natStr_len_mono hb; omega
    cases tt with
    | false =>
      have := hhead rfl
      simp only [lazySelect, spec_lazyHeadOnlyTake, spec_lazyHeadTake, spec_dequeMax]
      rw [if_pos ⟨hl, trivial⟩]
      simp only [List.length_take, spec_lazyHeadOnly]; omega
    | true =>
      rw [lazySelect_tt rows limit hl]
      simp only [List.length_drop, List.length_take]
      omega

theorem dataWidth_ge (col : List Cell) : 4 ≤ dataWidth col := by
  unfold dataWidth
  suffices h : ∀ (m : Nat), 4 ≤ m → 4 ≤ col.foldl (fun m c => max m (cellSlen c)) m from h 4 (Nat.le_refl _)
  induction col with
  | nil => intro m hm; simpa using hm
  | cons c cs ih => intro m hm; simp only [List.foldl_cons]; exact ih _ (by omega)

theorem colWidthsGo_spec (showTypes : Bool) (maxCol : Nat) (t : List (List Cell)) (hm : 1 ≤ maxCol) :
    ∀ (i : Nat) (ns tys : List Str), ns.length = tys.length →
      (colWidthsGo specArith showTypes maxCol t i ns tys).length = ns.length
      ∧ ∀ w ∈ colWidthsGo specArith showTypes maxCol t i ns tys, 1 ≤ w
  | _, [], [], _ => by simp [colWidthsGo]
  | i, n :: ns, ty :: tys, h => by
    have ih := colWidthsGo_spec showTypes maxCol t hm (i + 1) ns tys (by simpa using h)
    simp only [colWidthsGo, spec_colWidth, List.length_cons, ih.1, List.mem_cons, true_and]
    rintro w (rfl | hw)
    · have := dataWidth_ge (column t i); omega
    · exact ih.2 w hw
  | _, [], _ :: _, h => by simp at h
  | _, _ :: _, [], h => by simp at h

theorem bodyLines_width (cw : Char → Nat) (hcw : ∀ c, Printable c → cw c = 1) (hbox : ∀ c ∈ boxChars, cw c = 1)
    (p : Params) (iw : Nat) (ws : List Nat) (hws : ∀ w ∈ ws, 1 ≤ w) :
    ∀ (ls : List (Line (List Cell))),
      (∀ label row, Line.data label row ∈ ls →
        (natStr label).length + 1 ≤ iw ∧ row.length = ws.length ∧ ∀ c ∈ row, CellAscii c) →
      ∃ out, bodyLines specArith cw p iw ws ls = .ok out
        ∧ ∀ l ∈ out, l.1 = true → W l.2 (tableWidth iw ws) ∧ OkStr l.2
  | [], _ => ⟨[], rfl, by simp⟩
  | .ellipsis :: rest, h => by
    obtain ⟨out, ho, hW⟩ := bodyLines_width cw hcw hbox p iw ws hws rest (fun l r hm => h l r (by simp [hm]))
    refine ⟨(false, ellipsisLine p.lazy) :: out, by simp [bodyLines, ho], ?_⟩
    intro l hl hb
    rcases List.mem_cons.mp hl with rfl | hl
    · simp at hb
    · exact hW l hl hb
  | .data label row :: rest, h => by
    obtain ⟨out, ho, hW⟩ := bodyLines_width cw hcw hbox p iw ws hws rest (fun l r hm => h l r (by simp [hm]))
    obtain ⟨hlab, hlen, hcells⟩ := h label row (by simp)
    obtain ⟨cells, hc, hF, hO⟩ := formatRow_width cw hcw hbox p.strict row ws hcells hws hlen
    refine ⟨(true, dataLine specArith iw label cells) :: out, by simp [bodyLines, ho, hc], ?_⟩
    intro l hl hb
    rcases List.mem_cons.mp hl with rfl | hl
    · exact dataLine_width iw label cells ws hF hO hlab
    · exact hW l hl hb

end Display

namespace Display



/-- A frame with printable-ASCII content: as many type names as column names, rectangular rows,
every name, type name, text parameter and byte printable ASCII (0x20–0x7E). -/
structure FrameAscii (f : Frame) : Prop where
  types_len : f.names.length = f.types.length
  rect : ∀ r ∈ f.rows, r.length = f.names.length
  names : ∀ s ∈ f.names, PStr s
  types : ∀ s ∈ f.types, PStr s
  cells : ∀ r ∈ f.rows, ∀ c ∈ r, CellAscii c

/-- **All box lines have equal printed width.**  For printable-ASCII content, `limit ≥ 1`,
`max_column_width ≥ 1`, any width table `cw` that gives printable ASCII and the box characters
width 1: rendering succeeds (either decode mode) and every box line yielded by `_inner()` — borders,
header, type row, every data row of either mode, eager or lazy — prints exactly
`tableWidth = 1 + index width + 2 + Σ column widths + 3·(columns−1) + 2` characters, with no colour
token or escape left open.  (`pwidth` counts characters outside `\x01…m` / `\x1b…m`.) -/
theorem box_lines_equal_width_spec (cw : Char → Nat) (hcw : ∀ c, Printable c → cw c = 1)
    (hbox : ∀ c ∈ boxChars, cw c = 1) (p : Params) (f : Frame) (hf : FrameAscii f)
    (hl : 1 ≤ p.limit) (hm : 1 ≤ p.maxCol) :
    ∃ lines, rawLines specArith cw p f = .ok lines
      ∧ ∀ l ∈ lines, l.1 = true →
          pwidth l.2 = tableWidth (idxWidth specArith p f) (colWidths specArith p f) ∧ scan false l.2 = (pwidth l.2, false)
            ∧ OkStr l.2 := by
  have hcw' := colWidthsGo_spec p.showTypes p.maxCol (measuredRows specArith p f) hm 0 f.names f.types
    hf.types_len
  have hwlen : (colWidths specArith p f).length = f.names.length := hcw'.1
  have hws : ∀ w ∈ colWidths specArith p f, 1 ≤ w := hcw'.2
  obtain ⟨body, hb, hW⟩ := bodyLines_width cw hcw hbox p (idxWidth specArith p f) (colWidths specArith p f) hws
    (visibleRows specArith f.rows p.limit p.tt p.lazy) (by
      intro label row hmem
      obtain ⟨hrow, _, _⟩ := visibleRows_data f.rows p.limit p.tt p.lazy hl label row hmem
      exact ⟨label_fits f.rows p.limit p.tt p.lazy hl label row hmem, by rw [hf.rect row hrow, hwlen],
        hf.cells row hrow⟩)
  have conv : ∀ {s : Str} {w : Nat}, W s w → OkStr s →
      pwidth s = w ∧ scan false s = (pwidth s, false) ∧ OkStr s := by
    intro s w h ho
    unfold W at h
    exact ⟨by simp [pwidth, h], by simp [pwidth, h], ho⟩
  have okb : ∀ c ∈ boxChars, Ok c := fun c hc => Or.inr (Or.inr hc)
  have hbord : ∀ (l m r fill : Char), l ∈ boxChars → m ∈ boxChars → r ∈ boxChars → fill ∈ boxChars →
      W (border l m r fill (idxWidth specArith p f) (colWidths specArith p f)) (tableWidth (idxWidth specArith p f) (colWidths specArith p f))
      ∧ OkStr (border l m r fill (idxWidth specArith p f) (colWidths specArith p f)) := by
    intro l m r fill h1 h2 h3 h4
    exact ⟨border_width l m r fill _ _ (box_facts l h1).1 (box_facts m h2).1 (box_facts r h3).1 (box_facts fill h4).1,
      border_ok l m r fill _ _ (okb l h1) (okb m h2) (okb r h3) (okb fill h4)⟩
  have hhead := headerLine_width T_HEAD (by simp [usedTokens]) (idxWidth specArith p f) f.names (colWidths specArith p f) hf.names
    hwlen.symm
  have htype := headerLine_width T_TYPE (by simp [usedTokens]) (idxWidth specArith p f) f.types (colWidths specArith p f) hf.types
    (by rw [hwlen, hf.types_len])
  refine ⟨_, by simp only [rawLines, hb]; rfl, ?_⟩
  intro l hl hbx
  simp only [List.mem_append, List.mem_cons, List.not_mem_nil, or_false] at hl
  rcases hl with ((((rfl | rfl) | hl) | rfl) | hl) | rfl
  · have := hbord '┌' '┬' '┐' '─' (by decide) (by decide) (by decide) (by decide); exact conv this.1 this.2
  · exact conv hhead.1 hhead.2
  · split at hl
    · simp only [List.mem_cons, List.not_mem_nil, or_false] at hl; subst hl; exact conv htype.1 htype.2
    · simp at hl
  · have := hbord '╞' '╪' '╡' '═' (by decide) (by decide) (by decide) (by decide); exact conv this.1 this.2
  · have := hW l hl hbx; exact conv this.1 this.2
  · have := hbord '└' '┴' '┘' '─' (by decide) (by decide) (by decide) (by decide); exact conv this.1 this.2

/-- **…within the display width.**  After the final `trunc_printable(line, display_width, False)`
every box line prints exactly `min tableWidth display_width` characters (`display_width ≥ 1`): all
box lines still have equal printed width, and it never exceeds the display width. -/
theorem within_display_width_spec (cw : Char → Nat) (hcw : ∀ c, Printable c → cw c = 1)
    (hbox : ∀ c ∈ boxChars, cw c = 1) (p : Params) (f : Frame) (hf : FrameAscii f)
    (hl : 1 ≤ p.limit) (hm : 1 ≤ p.maxCol) (hd : 1 ≤ p.displayWidth) :
    ∃ lines, renderLines specArith cw p f = .ok lines
      ∧ ∀ l ∈ lines, l.1 = true →
          pwidth l.2 = min (tableWidth (idxWidth specArith p f) (colWidths specArith p f)) p.displayWidth
          ∧ pwidth l.2 ≤ p.displayWidth := by
  obtain ⟨raw, hr, hW⟩ := box_lines_equal_width_spec cw hcw hbox p f hf hl hm
  refine ⟨_, by simp only [renderLines, hr]; rfl, ?_⟩
  intro l hl hbx
  simp only [List.mem_map] at hl
  obtain ⟨l0, hl0, rfl⟩ := hl
  obtain ⟨hw, _, hok⟩ := hW l0 hl0 hbx
  have hgood : ∀ c ∈ l0.2, Good cw c := fun c hc => ok_good cw hcw hbox (hok c hc)
  have := truncGo_line cw p.displayWidth l0.2 hgood 0 false (by omega)
  have e : pwidth (truncPrintable specArith cw l0.2 p.displayWidth false) = min (pwidth l0.2) p.displayWidth := by
    simp [pwidth, truncPrintable, this]
  simp only [e, hw]
  exact ⟨trivial, Nat.min_le_right _ _⟩

/-- `trunc_printable` in general (any text without line breaks whose visible characters have width 1,
whatever escapes it contains, well-formed or not): the cut line prints `min (its width) width`. -/
theorem trunc_line_width_spec (cw : Char → Nat) (width : Nat) (l : Str) (hl : ∀ c ∈ l, Good cw c) (hw : 1 ≤ width) :
    pwidth (truncPrintable specArith cw l width false) = min (pwidth l) width := by
  have := truncGo_line cw width l hl 0 false (by omega)
  simp [pwidth, truncPrintable, this]




/-- **The formatter is total over the modelled cell kinds** (repaired code, `errors="replace"`): for
every cell of every kind — bytes of any content included — and every width, `type_formatter` returns
text; and a whole table renders whenever no cell fails. -/
theorem formatter_total_any (A : Arith) (cw : Char → Nat) (c : Cell) (w : Nat) : ∃ s, formatCell A cw false c w = .ok s := by
  cases c with
  | bytes b n =>
    obtain ⟨s, hs⟩ := utf8Go_total (b.length + 1) b
    exact ⟨T_BLOB ++ truncPrintable A cw (ljust w s) w true ++ T_OFF, by simp [formatCell, utf8Decode, hs]⟩
  | _ => exact ⟨_, rfl⟩

/-- Every table renders (replace mode), whatever the cells, names, types and parameters. -/
theorem render_total_any (A : Arith) (cw : Char → Nat) (p : Params) (f : Frame) (hp : p.strict = false) :
    ∃ lines, renderLines A cw p f = .ok lines := by
  have hrow : ∀ (row : List Cell) (ws : List Nat), ∃ cells, formatRow A cw false row ws = .ok cells := by
    intro row
    induction row with
    | nil => intro ws; exact ⟨[], by simp [formatRow]⟩
    | cons c cs ih =>
      intro ws
      cases ws with
      | nil => exact ⟨[], by simp [formatRow]⟩
      | cons w ws =>
        obtain ⟨s, hs⟩ := formatter_total_any A cw c w
        obtain ⟨rest, hr⟩ := ih ws
        exact ⟨s :: rest, by simp [formatRow, hs, hr]⟩
  have hbody : ∀ (iw : Nat) (ws : List Nat) (ls : List (Line (List Cell))),
      ∃ out, bodyLines A cw p iw ws ls = .ok out := by
    intro iw ws ls
    induction ls with
    | nil => exact ⟨[], rfl⟩
    | cons l rest ih =>
      obtain ⟨out, ho⟩ := ih
      cases l with
      | ellipsis => exact ⟨(false, ellipsisLine p.lazy) :: out, by simp [bodyLines, ho]⟩
      | data label row =>
        obtain ⟨cells, hc⟩ := hrow row ws
        exact ⟨(true, dataLine A iw label cells) :: out, by simp [bodyLines, ho, hp, hc]⟩
  obtain ⟨body, hb⟩ := hbody (idxWidth A p f) (colWidths A p f) (visibleRows A f.rows p.limit p.tt p.lazy)
  exact ⟨_, by simp only [renderLines, rawLines, hb]; rfl⟩


end Display
