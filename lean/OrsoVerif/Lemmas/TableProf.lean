import OrsoVerif.Model.TableProf
import OrsoVerif.Lemmas.ProfileEst
/-!
# Lemmas for C14: table-level sums (`TableProfile.__add__`)

Every column of a table profile reachable by building, estimating and adding **tables** (different column sets, different
row counts, sums of sums) is a column profile reachable in the sense of `Lemmas/ProfileEst.lean` — provided the placeholder
the source builds for a column the right table lacks holds no values (`PlaceholderEmpty`, established in `Props/C14.lean`
from the generated `Gen.TableProf.placeholderCount / placeholderMissing`).
-/
namespace Distogram
set_option linter.unusedSectionVars false
open Gen.ProfileEst (addDropsCache addCount addMissing)
open Gen.TableProf (placeholderCount placeholderMissing leftPlaceholderCount leftPlaceholderMissing sumLeftFirst keepsRightOnly
  rightOnlyLeftFirst)

variable {K : Type} [Field K] [LinearOrder K] [IsStrictOrderedRing K]

/-- What the table theorems need of the source: a stand-in — for a column the right table lacks, and for one the left table
lacks — reports as many missing values as rows, whatever the present column and the row counts of the two tables are. -/
def PlaceholderEmpty (K : Type) [Field K] : Prop :=
  ∀ c m lr rr : K, placeholderCount c m lr rr - placeholderMissing c m lr rr = 0 ∧
    leftPlaceholderCount c m lr rr - leftPlaceholderMissing c m lr rr = 0

/-- The number of non-null values a profile stands for. -/
def EProf.nonNull (p : EProf K) : K := p.count - p.missing

theorem placeholder_profOK (hp : PlaceholderEmpty K) (l : EProf K) (lr rr : K) :
    ProfOK (placeholder l lr rr) ∧ (placeholder l lr rr).cache = none ∧ (placeholder l lr rr).nonNull = 0 := by
  refine ⟨⟨List.Pairwise.nil, by intro x hx; simp [placeholder] at hx, by simp [placeholder], ?_, fun h => absurd rfl h⟩, rfl, ?_⟩
  · show mass ([] : List (K × K)) = _
    rw [mass_nil]; exact (hp l.count l.missing lr rr).1.symm
  · exact (hp l.count l.missing lr rr).1

theorem placeholderL_profOK (hp : PlaceholderEmpty K) (r : EProf K) (lr rr : K) :
    ProfOK (placeholderL r lr rr) ∧ (placeholderL r lr rr).cache = none ∧ (placeholderL r lr rr).nonNull = 0 := by
  refine ⟨⟨List.Pairwise.nil, by intro x hx; simp [placeholderL] at hx, by simp [placeholderL], ?_, fun h => absurd rfl h⟩, rfl, ?_⟩
  · show mass ([] : List (K × K)) = _
    rw [mass_nil]; exact (hp r.count r.missing lr rr).2.symm
  · exact (hp r.count r.missing lr rr).2

/-- A name the table does not list has no column. -/
theorem column_none_of_not_mem {t : TProf K} {n : String} (h : t.names.contains n = false) : t.column n = none := by
  unfold TProf.column
  cases hf : t.cols.find? (fun c => c.1 == n) with
  | none => rfl
  | some c =>
    exfalso
    have hm := List.mem_of_find?_eq_some hf
    have hp := List.find?_some hf
    simp only [beq_iff_eq] at hp
    have : n ∈ t.names := by
      unfold TProf.names
      rw [← hp]
      exact List.mem_map_of_mem hm
    have h2 : t.names.contains n = true := by simpa using this
    rw [h] at h2
    exact Bool.noConfusion h2

theorem column_mem {t : TProf K} {n : String} {l : EProf K} (h : t.column n = some l) : (n, l) ∈ t.cols := by
  unfold TProf.column at h
  cases hf : t.cols.find? (fun c => c.1 == n) with
  | none => rw [hf] at h; simp at h
  | some c =>
    rw [hf] at h
    simp only [Option.some.injEq] at h
    have hm := List.mem_of_find?_eq_some hf
    have hp := List.find?_some hf
    simp only [beq_iff_eq] at hp
    subst h
    rw [← hp]
    exact hm

theorem nonNull_add {drop : Bool} {mrg : View K → List (K × K) → Except String (List (K × K))} {a b c : EProf K}
    (h : EProf.addWith drop mrg a b = .ok c) : c.nonNull = a.nonNull + b.nonNull := by
  obtain ⟨hh, _, rfl⟩ := addWith_ok h
  unfold EProf.nonNull
  exact addCount_eq _ _

/-- One run of the loop of `TableProfile.__add__` over names `ns`: the sum has exactly those names in that order, and every
column of it is the column sum of the left table's column and the right table's column of that name, or of the placeholder. -/
theorem addColumns_spec (add : EProf K → EProf K → Except String (EProf K)) (a b : TProf K) :
    ∀ (ns : List String) (cs : List (String × EProf K)), addColumns add a b ns = .ok cs →
      cs.map (·.1) = ns ∧
      ∀ c ∈ cs, ∃ l r, a.column c.1 = some l ∧ r = (b.column c.1).getD (placeholder l a.rows b.rows) ∧
        (if sumLeftFirst then add l r else add r l) = .ok c.2
  | [], cs, h => by
    simp only [addColumns, Except.ok.injEq] at h
    subst h
    exact ⟨rfl, by intro c hc; simp at hc⟩
  | n :: rest, cs, h => by
    unfold addColumns at h
    cases hl : a.column n with
    | none => rw [hl] at h; simp at h
    | some l =>
      rw [hl] at h
      simp only at h
      cases hs : (if sumLeftFirst then add l ((b.column n).getD (placeholder l a.rows b.rows))
          else add ((b.column n).getD (placeholder l a.rows b.rows)) l) with
      | error e => rw [hs] at h; simp at h
      | ok s =>
        rw [hs] at h
        simp only at h
        cases ht : addColumns add a b rest with
        | error e => rw [ht] at h; simp at h
        | ok t =>
          rw [ht] at h
          simp only [Except.ok.injEq] at h
          subst h
          obtain ⟨hn, hc⟩ := addColumns_spec add a b rest t ht
          refine ⟨by simp [hn], ?_⟩
          intro c hc'
          rcases List.mem_cons.mp hc' with rfl | hc'
          · exact ⟨l, _, hl, rfl, hs⟩
          · exact hc c hc'

/-- One run of the second loop over names `ns` of the right table: the names the left table lacks, in order; each column is the
column sum of the stand-in for the left side and the right table's column. -/
theorem addRightOnly_spec (add : EProf K → EProf K → Except String (EProf K)) (a b : TProf K) :
    ∀ (ns : List String) (cs : List (String × EProf K)), addRightOnly add a b ns = .ok cs →
      cs.map (·.1) = ns.filter (fun n => !a.names.contains n) ∧
      ∀ c ∈ cs, ∃ r, a.column c.1 = none ∧ b.column c.1 = some r ∧
        (if rightOnlyLeftFirst then add (placeholderL r a.rows b.rows) r else add r (placeholderL r a.rows b.rows)) = .ok c.2
  | [], cs, h => by
    simp only [addRightOnly, Except.ok.injEq] at h
    subst h
    exact ⟨rfl, by intro c hc; simp at hc⟩
  | n :: rest, cs, h => by
    unfold addRightOnly at h
    by_cases hm : a.names.contains n = true
    · rw [if_pos hm] at h
      obtain ⟨hn, hc⟩ := addRightOnly_spec add a b rest cs h
      refine ⟨?_, hc⟩
      rw [hn, List.filter_cons, hm]
      rfl
    · rw [if_neg hm] at h
      have hm' : a.names.contains n = false := by simpa using hm
      cases hr : b.column n with
      | none => rw [hr] at h; simp at h
      | some r =>
        rw [hr] at h
        simp only at h
        cases hs : (if rightOnlyLeftFirst then add (placeholderL r a.rows b.rows) r else add r (placeholderL r a.rows b.rows)) with
        | error e => rw [hs] at h; simp at h
        | ok s =>
          rw [hs] at h
          simp only at h
          cases ht : addRightOnly add a b rest with
          | error e => rw [ht] at h; simp at h
          | ok t =>
            rw [ht] at h
            simp only [Except.ok.injEq] at h
            subst h
            obtain ⟨hn, hc⟩ := addRightOnly_spec add a b rest t ht
            refine ⟨?_, ?_⟩
            · rw [List.filter_cons, hm']
              simp only [Bool.not_false, if_true, List.map_cons, hn]
            · intro c hc'
              rcases List.mem_cons.mp hc' with rfl | hc'
              · exact ⟨r, column_none_of_not_mem hm', hr, hs⟩
              · exact hc c hc'

/-- A table sum is the result of the first loop followed by the result of the second (when the source has it). -/
theorem tAddWith_ok {add : EProf K → EProf K → Except String (EProf K)} {a b s : TProf K}
    (h : TProf.addWith add a b = .ok s) :
    ∃ cs ds, addColumns add a b a.names = .ok cs ∧
      (if keepsRightOnly then addRightOnly add a b b.names else .ok []) = .ok ds ∧ s.cols = cs ++ ds := by
  unfold TProf.addWith at h
  cases hc : addColumns add a b a.names with
  | error e => rw [hc] at h; simp at h
  | ok cs =>
    rw [hc] at h
    simp only at h
    cases hd : (if keepsRightOnly then addRightOnly add a b b.names else .ok []) with
    | error e => rw [hd] at h; simp at h
    | ok ds =>
      rw [hd] at h
      simp only [Except.ok.injEq] at h
      subst h
      exact ⟨cs, ds, rfl, rfl, rfl⟩

/-- The second loop's columns, whether the source has the loop or not. -/
theorem rightOnly_cols {add : EProf K → EProf K → Except String (EProf K)} {a b : TProf K} {ds : List (String × EProf K)}
    (h : (if keepsRightOnly then addRightOnly add a b b.names else .ok []) = .ok ds) :
    ds.map (·.1) = (if keepsRightOnly then b.names.filter (fun n => !a.names.contains n) else []) ∧
    ∀ c ∈ ds, ∃ r, a.column c.1 = none ∧ b.column c.1 = some r ∧
      (if rightOnlyLeftFirst then add (placeholderL r a.rows b.rows) r else add r (placeholderL r a.rows b.rows)) = .ok c.2 := by
  by_cases k : keepsRightOnly = true
  · rw [if_pos k] at h
    rw [if_pos k]
    exact addRightOnly_spec add a b _ _ h
  · rw [if_neg k] at h
    rw [if_neg k]
    simp only [Except.ok.injEq] at h
    subst h
    exact ⟨rfl, by intro c hc; simp at hc⟩

/-- Table profiles reachable from freshly built ones (every column well formed, nothing estimated yet) by estimating on a
column and by adding tables. -/
inductive TReach : TProf K → Prop
  | base {t} : (∀ c ∈ t.cols, ProfOK c.2 ∧ c.2.cache = none) → TReach t
  | touch {t} (n : String) : TReach t → TReach (t.touch n)
  | add {a b s} : TReach a → TReach b → TProf.addRef a b = .ok s → TReach s

theorem touchFirst_reach (n : String) : ∀ (cs : List (String × EProf K)),
    (∀ c ∈ cs, Reach refMerge ProfOK c.2) → ∀ c ∈ touchFirst n cs, Reach refMerge ProfOK c.2
  | [], _, c, hc => by simp [touchFirst] at hc
  | d :: rest, h, c, hc => by
    unfold touchFirst at hc
    by_cases e : (d.1 == n) = true
    · rw [if_pos e] at hc
      rcases List.mem_cons.mp hc with rfl | hc
      · exact Reach.touch (h d (by simp))
      · exact h c (by simp [hc])
    · rw [if_neg e] at hc
      rcases List.mem_cons.mp hc with rfl | hc
      · exact h c (by simp)
      · exact touchFirst_reach n rest (fun x hx => h x (by simp [hx])) c hc

/-- **Every column of a reachable table profile is a reachable column profile.** -/
theorem treach_cols (hp : PlaceholderEmpty K) {t : TProf K} (h : TReach t) :
    ∀ c ∈ t.cols, Reach refMerge ProfOK c.2 := by
  induction h with
  | base hb => intro c hc; exact Reach.base (hb c hc).1 (hb c hc).2
  | touch n _ ih => exact touchFirst_reach n _ ih
  | @add a b s _ _ hadd iha ihb =>
    intro c hc
    obtain ⟨cs, ds, h1, h2, hs⟩ := tAddWith_ok hadd
    rw [hs] at hc
    rcases List.mem_append.mp hc with hc | hc
    · obtain ⟨_, hcs⟩ := addColumns_spec EProf.addRef a b _ _ h1
      obtain ⟨l, r, hl, hr, hsum⟩ := hcs c hc
      have hlr : Reach refMerge ProfOK l := iha _ (column_mem hl)
      have hrr : Reach refMerge ProfOK r := by
        cases hb : b.column c.1 with
        | none =>
          rw [hb] at hr; simp only [Option.getD_none] at hr
          subst hr
          obtain ⟨ok, hc0, _⟩ := placeholder_profOK hp l a.rows b.rows
          exact Reach.base ok hc0
        | some r' =>
          rw [hb] at hr; simp only [Option.getD_some] at hr
          subst hr
          exact ihb _ (column_mem hb)
      by_cases lf : sumLeftFirst = true
      · rw [if_pos lf] at hsum; exact Reach.add hlr hrr hsum
      · rw [if_neg lf] at hsum; exact Reach.add hrr hlr hsum
    · obtain ⟨_, hds⟩ := rightOnly_cols h2
      obtain ⟨r, _, hr, hsum⟩ := hds c hc
      have hrr : Reach refMerge ProfOK r := ihb _ (column_mem hr)
      obtain ⟨ok, hc0, _⟩ := placeholderL_profOK hp r a.rows b.rows
      have hlr : Reach refMerge ProfOK (placeholderL r a.rows b.rows) := Reach.base ok hc0
      by_cases lf : rightOnlyLeftFirst = true
      · rw [if_pos lf] at hsum; exact Reach.add hlr hrr hsum
      · rw [if_neg lf] at hsum; exact Reach.add hrr hlr hsum

end Distogram
