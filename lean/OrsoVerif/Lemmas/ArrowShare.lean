import OrsoVerif.Model.ArrowShare
/-! Lemmas for `Model/ArrowShare.lean`: when no place memoises, the heap machine is the by-value session. -/
namespace Arrow.Share

theorem modifyAt_of_length_le {α : Type} (f : α → α) : ∀ (l : List α) (n : Nat), l.length ≤ n → modifyAt l n f = l
  | [], _, _ => rfl
  | _ :: _, 0, h => by simp at h
  | x :: xs, n + 1, h => by
    simp only [modifyAt]
    rw [modifyAt_of_length_le f xs n (by simpa using h)]

theorem modifyAt_length {α : Type} (f : α → α) : ∀ (l : List α) (n : Nat), (modifyAt l n f).length = l.length
  | [], _ => rfl
  | _ :: _, 0 => rfl
  | x :: xs, n + 1 => by simp [modifyAt, modifyAt_length f xs n]

/-- the simulation relation: addresses are conversion indices, the heap holds the values -/
def Rel {K α : Type} (st : St K α) (sp : Sp α) : Prop :=
  st.results = List.range st.heap.length ∧ st.heap = sp.vals ∧ st.seen = sp.seen

theorem rel_step {K α : Type} [DecidableEq K] (grp : Site → Option Nat) (hg : ∀ s, grp s = none) (build : K → α)
    (st : St K α) (sp : Sp α) (h : Rel st sp) (x : Step K α) : Rel (step grp build st x) (specStep build sp x) := by
  obtain ⟨h1, h2, h3⟩ := h
  cases x with
  | conv s k =>
    simp only [step, hg s, alloc, specStep]
    refine ⟨?_, ?_, ?_⟩
    · simp [h1, List.range_succ]
    · simp [h2]
    · simp [h3]
  | edit r f =>
    simp only [step, specStep]
    by_cases hr : r < st.heap.length
    · have : st.results[r]? = some r := by
        rw [h1]; simp [hr]
      rw [this]
      refine ⟨?_, ?_, h3⟩
      · simp [modifyAt_length, h1]
      · simp [h2]
    · have : st.results[r]? = none := by
        rw [h1]; simp; omega
      rw [this]
      refine ⟨h1, ?_, h3⟩
      rw [modifyAt_of_length_le f sp.vals r (by rw [← h2]; omega)]
      exact h2

theorem rel_foldl {K α : Type} [DecidableEq K] (grp : Site → Option Nat) (hg : ∀ s, grp s = none) (build : K → α) :
    ∀ (steps : List (Step K α)) (st : St K α) (sp : Sp α), Rel st sp →
      Rel (steps.foldl (step grp build) st) (steps.foldl (specStep build) sp)
  | [], _, _, h => h
  | x :: rest, st, sp, h => rel_foldl grp hg build rest _ _ (rel_step grp hg build st sp h x)

theorem reads_of_range {α : Type} (l : List α) : (List.range l.length).map (fun a => l[a]?) = l.map some := by
  apply List.ext_getElem?
  intro i
  by_cases hi : i < l.length
  · simp [hi]
  · simp [hi]

/-- **refinement**: when no place keeps its results, a session on the heap shows exactly what the session by value
shows - at every conversion and at the end -/
theorem fresh_refines {K α : Type} [DecidableEq K] (grp : Site → Option Nat) (hg : ∀ s, grp s = none) (build : K → α)
    (steps : List (Step K α)) :
    (run grp build steps).seen = (spec build steps).seen ∧
    (run grp build steps).reads = (spec build steps).vals.map some := by
  have h := rel_foldl grp hg build steps St.empty { vals := [], seen := [] } ⟨rfl, rfl, rfl⟩
  obtain ⟨h1, h2, h3⟩ := h
  refine ⟨h3, ?_⟩
  unfold St.reads run spec
  rw [h1, ← h2]
  exact reads_of_range _

theorem spec_seen_foldl {K α : Type} (build : K → α) : ∀ (steps : List (Step K α)) (sp : Sp α),
    (steps.foldl (specStep build) sp).seen = sp.seen ++ (convKeys steps).map build
  | [], sp => by simp [convKeys]
  | .conv s k :: rest, sp => by
    simp only [List.foldl_cons, convKeys, List.map_cons]
    rw [spec_seen_foldl build rest]
    simp [specStep]
  | .edit r f :: rest, sp => by
    simp only [List.foldl_cons, convKeys]
    rw [spec_seen_foldl build rest]
    simp [specStep]

/-- by value, what a conversion returns is built from its own key - whatever was converted and edited before -/
theorem spec_seen {K α : Type} (build : K → α) (steps : List (Step K α)) :
    (spec build steps).seen = (convKeys steps).map build := by
  unfold spec
  rw [spec_seen_foldl]
  simp

namespace To

theorem fresh_step (memo : Site → Bool) (hm : ∀ s, memo s = false) (st : St) (sp : List (List Col) × List (Option Out))
    (h : st.objs = sp.1 ∧ st.out = sp.2) (x : Step) :
    (step memo st x).objs = (specStep sp x).1 ∧ (step memo st x).out = (specStep sp x).2 := by
  obtain ⟨h1, h2⟩ := h
  cases x with
  | conv s k =>
    simp only [step, specStep, hm s]
    rw [← h1]
    cases st.objs[k]? <;> simp [h1, h2]
  | edit k f => simp [step, specStep, h1, h2]

theorem fresh_foldl (memo : Site → Bool) (hm : ∀ s, memo s = false) : ∀ (steps : List Step) (st : St)
    (sp : List (List Col) × List (Option Out)), (st.objs = sp.1 ∧ st.out = sp.2) →
    (steps.foldl (step memo) st).out = (steps.foldl specStep sp).2
  | [], _, _, h => h.2
  | x :: rest, st, sp, h => fresh_foldl memo hm rest _ _ (fresh_step memo hm st sp h x)

/-- when no place keeps an answer, every conversion to Arrow describes the columns as they are when it is made -/
theorem fresh_refines (memo : Site → Bool) (hm : ∀ s, memo s = false) (objs : List (List Col)) (steps : List Step) :
    run memo objs steps = spec objs steps :=
  fresh_foldl memo hm steps _ _ ⟨rfl, rfl⟩

end To

end Arrow.Share
