import OrsoVerif.Lemmas.DistogramInPlace
/-!
# Stage 2 of C13, part 5: the faithful machine equals the reference machine on whole histories

`update_sim`: one successful `update` of the faithful machine (exact hit, in-place shortcut, or insert + `_trim`)
on a state that mirrors a valid reference state yields the mirror of `updateRef` — bins, bounds and limit —
provided the reference saw a unique closest pair.  `FHist` is the joint history relation (trees of `update`, `+`,
bulk loads, dump/load) and `fhist_sim` the refinement theorem for whole histories.
-/
namespace Distogram
set_option linter.unusedSectionVars false
set_option linter.unusedVariables false

variable {K : Type} [Field K] [LinearOrder K] [IsStrictOrderedRing K]

theorem toR_eq {h : Hist K} {s : RState K} (hb : h.bins = s.bins) (hmin : h.min = s.min) (hmax : h.max = s.max)
    (hcap : h.cap = s.cap) : h.toR = s := by
  cases s
  simp only [Hist.toR] at *
  simp [hb, hmin, hmax, hcap]

/-! ## counts of at least one -/

theorem one1_pos {l : List (K × K)} (h : One1 l) : Pos l := fun b hb => lt_of_lt_of_le one_pos (h b hb)

theorem insertRef_one1 (v c : K) (hc : 1 ≤ c) : ∀ (l : List (K × K)), One1 l → One1 (insertRef v c l)
  | [], _ => by
    intro b hb
    simp only [insertRef, List.mem_singleton] at hb
    rw [hb]; exact hc
  | (w, f) :: rest, h1 => by
    have hf : 1 ≤ f := h1 (w, f) (by simp)
    have h1' : One1 rest := fun b hb => h1 b (by simp [hb])
    unfold insertRef
    split
    · intro b hb
      simp only [List.mem_cons] at hb
      rcases hb with rfl | hb
      · exact hc
      · exact h1 b (by simpa using hb)
    · split
      · intro b hb
        simp only [List.mem_cons] at hb
        rcases hb with rfl | hb
        · exact hf
        · exact insertRef_one1 v c hc rest h1' b hb
      · intro b hb
        simp only [List.mem_cons] at hb
        rcases hb with rfl | hb
        · show 1 ≤ f + c
          linarith
        · exact h1' b hb

theorem mergeAt_one1 : ∀ (i : Nat) (l : List (K × K)), One1 l → One1 (mergeAt i l)
  | 0, [], _ => by intro b hb; simp [mergeAt] at hb
  | 0, [a], h => by simpa [mergeAt] using h
  | 0, (v1, f1) :: (v2, f2) :: rest, h => by
    intro b hb
    simp only [mergeAt, List.mem_cons] at hb
    rcases hb with rfl | hb
    · have h1 : 1 ≤ f1 := h (v1, f1) (by simp)
      have h2 : 1 ≤ f2 := h (v2, f2) (by simp)
      show 1 ≤ f1 + f2
      linarith
    · exact h b (by simp [hb])
  | n + 1, [], _ => by intro b hb; simp [mergeAt] at hb
  | n + 1, a :: rest, h => by
    intro b hb
    simp only [mergeAt, List.mem_cons] at hb
    rcases hb with rfl | hb
    · exact h b (by simp)
    · exact mergeAt_one1 n rest (fun x hx => h x (by simp [hx])) b hb

theorem updateRef_one1 (s : RState K) (hs : Inv s) (h1 : One1 s.bins) (v c : K) (hc : 1 ≤ c) :
    One1 (updateRef s v c).bins := by
  have hi := insertRef_inc v c s.bins hs.inc
  have hp := insertRef_pos v c (lt_of_lt_of_le one_pos hc) s.bins hs.pos
  exact (trimRef_induct One1 (fun i l _ _ h => mergeAt_one1 i l h) s.cap _ _ hi hp (insertRef_one1 v c hc s.bins h1)).2.2

/-! ## bounds -/

theorem minO_of_within {s : RState K} (hs : Inv s) {v : K} (h : ∃ b ∈ s.bins, b.1 ≤ v) : some (minO s.min v) = s.min := by
  obtain ⟨b, hb, hbv⟩ := h
  cases hmin : s.min with
  | none => have := hs.minNone hmin; rw [this] at hb; simp at hb
  | some m =>
    cases hmax : s.max with
    | none => have := hs.maxNone hmax; rw [this] at hb; simp at hb
    | some M =>
      have hw := hs.within m M hmin hmax b hb
      simp only [minO, Option.some.injEq]
      rw [if_neg (not_lt.mpr (le_trans hw.1 hbv))]

theorem maxO_of_within {s : RState K} (hs : Inv s) {v : K} (h : ∃ b ∈ s.bins, v ≤ b.1) : some (maxO s.max v) = s.max := by
  obtain ⟨b, hb, hbv⟩ := h
  cases hmin : s.min with
  | none => have := hs.minNone hmin; rw [this] at hb; simp at hb
  | some m =>
    cases hmax : s.max with
    | none => have := hs.maxNone hmax; rw [this] at hb; simp at hb
    | some M =>
      have hw := hs.within m M hmin hmax b hb
      simp only [maxO, Option.some.injEq]
      rw [if_neg (not_lt.mpr (le_trans hbv hw.2))]

theorem insertTrim_bounds {h h' : Hist K} {neg : Bool} {idx : Nat} {v c : K} (hc : Coherent h)
    (hidx : neg = false → h.bins ≠ [] → idx < h.bins.length)
    (hok : insertTrim h neg idx v c = .ok h') :
    h'.min = some (minO h.min v) ∧ h'.max = some (maxO h.max v) ∧ h'.cap = h.cap := by
  unfold insertTrim at hok
  obtain ⟨h2, hi, hok⟩ := bind_eq_ok hok
  obtain ⟨c2, m2, x2, p2, _, _⟩ := coherent_insertBin hc hidx hi
  obtain ⟨_, m3, x3, p3, _⟩ := coherent_trim _ (coherent_bumpBounds v c2) hok
  refine ⟨?_, ?_, by rw [p3]; exact p2⟩
  · rw [m3, bumpBounds_min, m2]
  · rw [x3, bumpBounds_max, x2]

/-- **An inserting update ends within the limit, however many bins there were** (a histogram that `load()` left
above its limit included): `_trim` is a loop with a turn available for every bin. -/
theorem insertTrim_capacity {h h' : Hist K} {neg : Bool} {idx : Nat} {v c : K} (hc : Coherent h) (hcap : 1 ≤ h.cap)
    (hidx : neg = false → h.bins ≠ [] → idx < h.bins.length)
    (hok : insertTrim h neg idx v c = .ok h') : h'.bins.length ≤ h'.cap := by
  unfold insertTrim at hok
  obtain ⟨h2, hi, hok⟩ := bind_eq_ok hok
  obtain ⟨c2, _, _, p2, _, _⟩ := coherent_insertBin hc hidx hi
  have hb := trim_refines _ (coherent_bumpBounds v c2) hok
  obtain ⟨_, _, _, p3, _⟩ := coherent_trim _ (coherent_bumpBounds v c2) hok
  rw [hb, p3, trimTurns_eq]
  exact trimRef_length _ (by rw [bumpBounds_cap, p2]; exact hcap) _ _ (by omega)

/-! ## positions -/

theorem insPos_before (v : K) : ∀ (bins : List (K × K)) (j : Nat) (b : K × K), j < insPos v bins → bins[j]? = some b → b.1 < v
  | [], j, b, h, _ => by simp [insPos] at h
  | a :: rest, j, b, h, hb => by
    rw [insPos_cons] at h
    by_cases ha : a.1 < v
    · rw [if_pos ha] at h
      cases j with
      | zero =>
        simp only [List.getElem?_cons_zero, Option.some.injEq] at hb
        rw [← hb]; exact ha
      | succ j => exact insPos_before v rest j b (by omega) (by simpa using hb)
    · rw [if_neg ha] at h; omega

/-- What the reference inserts when the value is not a centre and not beyond the last bin. -/
theorem insertRef_interior {bins : List (K × K)} {v c : K} (hne : bins ≠ []) (hi : Inc bins) (h1 : One1 bins)
    (hn : (locate bins v).1 = false)
    (hnohit : ∀ vi fi, bins[(locate bins v).2]? = some (vi, fi) → vi ≠ v) :
    insertRef v c bins = bins.insertIdx (locate bins v).2 (v, c) ∧ (locate bins v).2 = insPos v bins := by
  obtain ⟨s1, _⟩ := locate_spec (v := v) hne hi h1
  have hp := s1 hn
  have hlt := locate_idx_lt hne hn
  rw [hp] at hlt hnohit ⊢
  refine ⟨?_, rfl⟩
  rw [insertRef_eq]
  obtain ⟨b, hb⟩ : ∃ b, bins[insPos v bins]? = some b := ⟨_, List.getElem?_eq_getElem hlt⟩
  obtain ⟨w, f⟩ := b
  rw [hb]
  simp only
  have hs := insPos_stop v bins (w, f) hb
  have hw : w ≠ v := hnohit w f hb
  rw [if_pos (lt_of_le_of_ne (not_lt.mp hs) (Ne.symm hw))]

/-! ## one update -/

/-- **The shape of one successful `update`**: either it is exactly the reference update (exact hit, insert +
`_trim` — ties or not), or it went through the in-place shortcut on a full histogram and is the merge of an
adjacent pair `p` of the list after insertion, which is the reference's first closest pair whenever the closest
pair is unique. -/
theorem update_shape {h h' : Hist K} {v c : K} (hc : Coherent h) (hinv : Inv h.toR) (h1 : One1 h.bins)
    (hok : update h v c = .ok h') :
    h'.toR = updateRef h.toR v c ∨
    ∃ p, p + 1 < (insertRef v c h.bins).length ∧ (insertRef v c h.bins).length = h.cap + 1 ∧
      h'.bins = mergeAt p (insertRef v c h.bins) ∧
      (UniqueClosest (insertRef v c h.bins) → argminFirst (gaps (insertRef v c h.bins)) = p) ∧
      h'.min = some (minO h.min v) ∧ h'.max = some (maxO h.max v) ∧ h'.cap = h.cap := by
  have hi : Inc h.bins := hinv.inc
  have hlen : h.bins.length ≤ h.cap := hinv.len
  have hcpos : 0 < c := by
    by_contra hn
    rw [update_def, if_pos (not_lt.mp hn)] at hok
    cases hok
  rw [update_def] at hok
  split at hok
  · simp at hok
  have key : (∀ vi fi, h.bins[(locate h.bins v).2]? = some (vi, fi) → vi ≠ v) →
      afterHit h (locate h.bins v).1 (locate h.bins v).2 v c = .ok h' →
      h'.toR = updateRef h.toR v c ∨
      ∃ p, p + 1 < (insertRef v c h.bins).length ∧ (insertRef v c h.bins).length = h.cap + 1 ∧
        h'.bins = mergeAt p (insertRef v c h.bins) ∧
        (UniqueClosest (insertRef v c h.bins) → argminFirst (gaps (insertRef v c h.bins)) = p) ∧
        h'.min = some (minO h.min v) ∧ h'.max = some (maxO h.max v) ∧ h'.cap = h.cap := by
    intro hnohit ha
    have hidx : (locate h.bins v).1 = false → h.bins ≠ [] → (locate h.bins v).2 < h.bins.length :=
      fun hn hne => locate_idx_lt hne hn
    -- insert + trim, from `h` itself or from `h` with freshly computed differences
    have hit : ∀ hd : Hist K, Coherent hd → hd.bins = h.bins → hd.min = h.min → hd.max = h.max → hd.cap = h.cap →
        insertTrim hd (locate h.bins v).1 (locate h.bins v).2 v c = .ok h' → h'.toR = updateRef h.toR v c := by
      intro hd cd bd md xd pd hx
      have hb := insertTrim_refines (h := hd) (v := v) (c := c) cd (by rw [bd]; exact hi) (by rw [bd]; exact h1)
        (by rw [bd]; exact hnohit) (by rw [bd]; exact hx)
      obtain ⟨e1, e2, e3⟩ := insertTrim_bounds cd (by rw [bd]; exact hidx) hx
      apply toR_eq
      · rw [hb]; simp only [updateRef, Hist.toR, bd, pd]
      · rw [e1, md]; rfl
      · rw [e2, xd]; rfl
      · rw [e3, pd]; rfl
    rw [afterHit_def] at ha
    split at ha
    · rename_i hguard
      simp only [Bool.and_eq_true, Bool.not_eq_true', decide_eq_true_eq] at hguard
      obtain ⟨⟨hneg, hpos⟩, hfull⟩ := hguard
      obtain ⟨hd, hcd, ha⟩ := bind_eq_ok ha
      have hh : Coherent hd ∧ hd.bins = h.bins ∧ hd.min = h.min ∧ hd.max = h.max ∧ hd.cap = h.cap ∧ hd.diffs.isSome = true := by
        split at hcd
        · exact coherent_computeDiffs hcd
        · rename_i hsome
          simp only [Except.ok.injEq] at hcd
          subst hcd
          refine ⟨hc, rfl, rfl, rfl, rfl, ?_⟩
          cases hdf : h.diffs with
          | none => rw [hdf] at hsome; simp at hsome
          | some d => rfl
      obtain ⟨cd, bd, md, xd, pd, sd⟩ := hh
      obtain ⟨r, hr, ha⟩ := bind_eq_ok ha
      split at ha
      · rename_i ib
        split at ha
        · rename_i hib
          -- the in-place shortcut
          right
          have hne : h.bins ≠ [] := by
            intro e
            rw [e] at hpos
            simp [locate] at hpos
          obtain ⟨hins, hposeq⟩ := insertRef_interior (c := c) hne hi h1 hneg hnohit
          have hnb : ∃ bp bi, hd.bins[(locate h.bins v).2 - 1]? = some bp ∧ hd.bins[(locate h.bins v).2]? = some bi := by
            unfold searchInPlaceIndex at hr
            split at hr
            · rename_i bp bi hbp hbi
              exact ⟨bp, bi, hbp, hbi⟩
            · simp at hr
          obtain ⟨bp, bi, hbp, hbi⟩ := hnb
          have hlenl : (h.bins.insertIdx (locate h.bins v).2 (v, c)).length = h.bins.length + 1 := by
            rw [List.length_insertIdx, if_pos (le_of_lt (hidx hneg hne))]
          have hbp0 := hbp
          have hbi0 := hbi
          rw [bd] at hbp hbi
          have hbpv : bp.1 < v := insPos_before v h.bins _ bp (by rw [← hposeq]; omega) hbp
          have hvbi : v ≤ bi.1 := by
            have hbi' := hbi
            rw [hposeq] at hbi'
            exact not_lt.mp (insPos_stop v h.bins bi hbi')
          have hvbi' : v < bi.1 := lt_of_le_of_ne hvbi (Ne.symm (hnohit bi.1 bi.2 hbi))
          have hfp : 0 < bp.2 := lt_of_lt_of_le one_pos (h1 bp (List.mem_of_getElem? hbp))
          have hfi : 0 < bi.2 := lt_of_lt_of_le one_pos (h1 bi (List.mem_of_getElem? hbi))
          obtain ⟨p, hp, e1, eu, e2, e3, e4⟩ := inPlace_shape (v := v) (c := c) cd sd hpos hbp0 hbi0 hbpv hvbi' hfp hfi hcpos hr ha
          rw [bd] at e1 eu
          have hlt := hidx hneg hne
          refine ⟨p, ?_, ?_, ?_, ?_, ?_, ?_, ?_⟩
          · rw [hins, hlenl]; rcases hp with rfl | rfl <;> omega
          · rw [hins, hlenl]; omega
          · rw [hins]; exact e1
          · rw [hins]; exact eu
          · rw [e2, md]
            exact (minO_of_within hinv ⟨bp, List.mem_of_getElem? hbp, le_of_lt hbpv⟩).symm
          · rw [e3, xd]
            exact (maxO_of_within hinv ⟨bi, List.mem_of_getElem? hbi, hvbi⟩).symm
          · rw [e4, pd]
        · exact Or.inl (hit hd cd bd md xd pd ha)
      · exact Or.inl (hit hd cd bd md xd pd ha)
    · exact Or.inl (hit h hc rfl rfl rfl rfl ha)
  split at hok
  · rename_i vi fi hb
    have hb' : h.bins[(locate h.bins v).2]? = some (vi, fi) ∧ h.bins ≠ [] := by
      split at hb
      · rename_i hpos
        exact ⟨hb, List.length_pos_iff.mp hpos⟩
      · cases hb
    split at hok
    · rename_i he
      left
      simp only [Except.ok.injEq] at hok
      subst hok
      have hev : vi = v := (eqK_iff' vi v).mp he
      have hmem : (vi, fi) ∈ h.bins := List.mem_of_getElem? hb'.1
      apply toR_eq
      · simp only
        rw [exactHit_refines hb'.2 hi h1 hb'.1 hev]
        simp only [updateRef, Hist.toR]
        rw [trimRef_noop]
        rw [← exactHit_refines (c := c) hb'.2 hi h1 hb'.1 hev, List.length_set]
        exact hlen
      · exact (minO_of_within hinv ⟨(vi, fi), hmem, le_of_eq hev⟩).symm
      · exact (maxO_of_within hinv ⟨(vi, fi), hmem, le_of_eq hev.symm⟩).symm
      · rfl
    · rename_i he
      apply key _ hok
      intro vi' fi' hb2
      rw [hb'.1] at hb2
      simp only [Option.some.injEq, Prod.mk.injEq] at hb2
      rw [← hb2.1]
      intro e
      exact he ((eqK_iff' vi v).mpr e)
  · rename_i hb
    split at hok
    · simp at hok
    · rename_i hz
      apply key _ hok
      intro vi fi hb2
      have : h.bins = [] := by
        by_contra hne
        exact hz (List.length_pos_iff.mpr hne)
      rw [this] at hb2
      simp at hb2

/-- **One `update` of the faithful machine is one `update` of the reference** — bins, bounds and limit — when
the state mirrors a valid reference state, counts are at least one, and the reference saw no second closest pair. -/
theorem update_sim {h h' : Hist K} {v c : K} (hc : Coherent h) (hinv : Inv h.toR) (h1 : One1 h.bins)
    (hok : update h v c = .ok h') (hnt : updateTie h.toR v c = false) :
    h'.toR = updateRef h.toR v c := by
  rcases update_shape hc hinv h1 hok with e | ⟨p, hp, hl, hb, hu, hmin, hmax, hcap⟩
  · exact e
  · have huniq : UniqueClosest (insertRef v c h.bins) := by
      apply uniqueClosest_of_tieIn
      unfold updateTie at hnt
      simp only [Hist.toR] at hnt
      rw [hl] at hnt
      unfold trimTie at hnt
      rw [if_pos (by rw [hl]; omega)] at hnt
      simp only [Bool.or_eq_false_iff] at hnt
      exact hnt.1
    have hp' := hu huniq
    apply toR_eq
    · rw [hb]
      simp only [updateRef, Hist.toR]
      rw [hl]
      unfold trimRef
      rw [if_pos (by rw [hl]; omega), hp']
      apply (trimRef_noop _ _ _ _).symm
      have := mergeAt_length p (insertRef v c h.bins) hp
      omega
    · rw [hmin]; rfl
    · rw [hmax]; rfl
    · rw [hcap]; rfl

/-- **One `update` of the faithful machine conserves everything the property asks, ties or not**: the new state is
valid (strictly increasing centres, positive counts, at most `cap` bins, centres within the bounds), the mass grows by
the inserted weight, Σ centre × count by value × weight, and the bounds are widened by the value. -/
theorem update_inv {h h' : Hist K} {v c : K} (hc : Coherent h) (hinv : Inv h.toR) (h1 : One1 h.bins) (hc1 : 1 ≤ c)
    (hok : update h v c = .ok h') :
    Inv h'.toR ∧ One1 h'.bins ∧ mass h'.bins = mass h.bins + c ∧ wsum h'.bins = wsum h.bins + v * c ∧
    h'.min = some (minO h.min v) ∧ h'.max = some (maxO h.max v) ∧ h'.cap = h.cap := by
  have hcpos : 0 < c := lt_of_lt_of_le one_pos hc1
  rcases update_shape hc hinv h1 hok with e | ⟨p, hp, hl, hb, _, hmin, hmax, hcap⟩
  · have eb : h'.bins = (updateRef h.toR v c).bins := congrArg RState.bins e
    refine ⟨by rw [e]; exact updateRef_inv _ hinv v c hcpos, ?_, ?_, ?_, congrArg RState.min e, congrArg RState.max e,
      congrArg RState.cap e⟩
    · rw [eb]; exact updateRef_one1 _ hinv h1 v c hc1
    · rw [eb]; exact updateRef_mass _ hinv v c hcpos
    · rw [eb]; exact updateRef_wsum _ hinv v c hcpos
  · have li := insertRef_inc v c h.bins hinv.inc
    have lp := insertRef_pos v c hcpos h.bins hinv.pos
    have lw := insert_within h.toR hinv v c
    refine ⟨⟨?_, ?_, ?_, ?_, ?_, ?_, ?_⟩, ?_, ?_, ?_, hmin, hmax, hcap⟩
    · show Inc h'.bins
      rw [hb]; exact mergeAt_inc p _ li lp
    · show Pos h'.bins
      rw [hb]; exact mergeAt_pos p _ li lp
    · show h'.bins.length ≤ h'.cap
      rw [hb, hcap]
      have := mergeAt_length p (insertRef v c h.bins) hp
      omega
    · show 1 ≤ h'.cap
      rw [hcap]; exact hinv.cap
    · intro hn; simp only [Hist.toR] at hn; rw [hmin] at hn; cases hn
    · intro hn; simp only [Hist.toR] at hn; rw [hmax] at hn; cases hn
    · intro m M hm hM
      simp only [Hist.toR] at hm hM
      rw [hmin] at hm; rw [hmax] at hM
      simp only [Option.some.injEq] at hm hM
      subst hm; subst hM
      show Within _ _ h'.bins
      rw [hb]; exact mergeAt_within p _ li lp lw
    · rw [hb]; exact mergeAt_one1 p _ (insertRef_one1 v c hc1 h.bins h1)
    · rw [hb, mergeAt_mass, insertRef_mass]
    · rw [hb, mergeAt_wsum p _ li lp, insertRef_wsum]

end Distogram
