import OrsoVerif.Lemmas.Cache
/-! Helper definitions and lemmas for C19: the sequential machines. -/
namespace Cache
set_option linter.unusedSectionVars false
set_option linter.unusedSimpArgs false
variable {K : Type} [DecidableEq K]

/-- The specification of the single-item cache as a predicate on the observable trace
(`last` = the previous call's event) and the final invocation log:
* every call returns a value the function produced for equal arguments no longer ago than
  the validity period;
* the function is NOT invoked iff the previous call was for equal arguments and what it
  returned is still within the validity period ("the last call only");
* a call that does not invoke the function returns what the previous call returned;
* an invocation is logged with this call's key at this call's time and its value is returned. -/
def SingleSpec (valid : Option Int) (log : List (K × Int)) : Option (Ev K) → List (Ev K) → Prop
  | _, [] => True
  | last, e :: es =>
    (∃ tm, log[e.ret]? = some (e.key, tm) ∧ fresh valid e.now tm = true) ∧
    (e.invoked = false ↔
      ∃ p tm, last = some p ∧ p.key = e.key ∧ log[p.ret]? = some (p.key, tm) ∧ fresh valid e.now tm = true) ∧
    (e.invoked = false → ∃ p, last = some p ∧ e.ret = p.ret) ∧
    (e.invoked = true → log[e.ret]? = some (e.key, e.now)) ∧
    SingleSpec valid log (some e) es

/-- the state holds exactly what the last call returned -/
def Held (s : SState K) : Option (Ev K) → Prop
  | none => s.entry = none
  | some p => ∃ tm, s.entry = some { key := p.key, res := p.ret, time := tm } ∧ s.log[p.ret]? = some (p.key, tm)

theorem singleCall_cases (valid : Option Int) (cost : K → Int) (s : SState K) (k : K) :
    (∃ e, s.entry = some e ∧ e.key = k ∧ fresh valid s.now e.time = true ∧
        singleCall valid cost s k = (s, { key := k, now := s.now, ret := e.res, invoked := false })) ∨
    ((¬ ∃ e, s.entry = some e ∧ e.key = k ∧ fresh valid s.now e.time = true) ∧
        singleCall valid cost s k = singleMiss cost s k) := by
  unfold singleCall
  cases hs : s.entry with
  | none => right; exact ⟨by simp, rfl⟩
  | some e =>
    by_cases h : e.key = k ∧ fresh valid s.now e.time = true
    · left; exact ⟨e, rfl, h.1, h.2, by simp [h]⟩
    · right
      refine ⟨?_, by simp [h]⟩
      rintro ⟨e', he', hk, hf⟩
      cases he'; exact h ⟨hk, hf⟩

theorem singleRun_log (valid : Option Int) (cost : K → Int) (ops : List (Op K)) :
    ∀ s : SState K, ∃ l, (singleRun valid cost s ops).1.log = s.log ++ l ∧
      l.length = ((singleRun valid cost s ops).2.filter (·.invoked)).length := by
  induction ops with
  | nil => intro s; exact ⟨[], by simp [singleRun]⟩
  | cons op ops ih =>
    intro s
    cases op with
    | advance d => simpa [singleRun] using ih { s with now := s.now + d }
    | call k =>
      simp only [singleRun]
      obtain ⟨l, hl, hn⟩ := ih (singleCall valid cost s k).1
      rcases singleCall_cases valid cost s k with ⟨e, _, _, _, hc⟩ | ⟨_, hc⟩
      · rw [hc] at hl hn ⊢
        exact ⟨l, by simpa using hl, by simpa using hn⟩
      · rw [hc] at hl hn ⊢
        exact ⟨_ :: l, by simpa [singleMiss] using hl, by simpa [singleMiss] using hn⟩

theorem fresh_self (valid : Option Int) (hv : ∀ v, valid = some v → 0 ≤ v) (now : Int) :
    fresh valid now now = true := by
  unfold fresh
  cases valid with
  | none => rfl
  | some v => have := hv v rfl; simp; omega

theorem getElem?_app {α : Type} {l : List α} {i : Nat} {x : α} (l2 : List α) (h : l[i]? = some x) :
    (l ++ l2)[i]? = some x := by
  rw [List.getElem?_append_left (List.getElem?_eq_some_iff.mp h).1]; exact h

theorem single_trace (valid : Option Int) (hv : ∀ v, valid = some v → 0 ≤ v) (cost : K → Int)
    (ops : List (Op K)) : ∀ (s : SState K) (last : Option (Ev K)), Held s last →
    SingleSpec valid (singleRun valid cost s ops).1.log last (singleRun valid cost s ops).2 := by
  induction ops with
  | nil => intro s last _; simp [singleRun, SingleSpec]
  | cons op ops ih =>
    intro s last hheld
    cases op with
    | advance d =>
      simp only [singleRun]
      exact ih { s with now := s.now + d } last (by cases last <;> exact hheld)
    | call k =>
      simp only [singleRun]
      obtain ⟨l, hl, _⟩ := singleRun_log valid cost ops (singleCall valid cost s k).1
      rcases singleCall_cases valid cost s k with ⟨e, hent, hk, hf, hc⟩ | ⟨hno, hc⟩
      · -- hit: the state holds what the previous call returned
        cases last with
        | none => simp only [Held] at hheld; rw [hheld] at hent; cases hent
        | some p =>
          obtain ⟨tm, hpe, hplog⟩ := hheld
          rw [hent] at hpe
          simp only [Option.some.injEq] at hpe
          subst hpe
          simp only at hk hf
          have hheld' : Held s (some { key := k, now := s.now, ret := p.ret, invoked := false }) :=
            ⟨tm, by rw [hent, hk], by rw [← hk]; exact hplog⟩
          have hrec := ih s _ hheld'
          rw [hc] at hl ⊢
          simp only at hl ⊢
          have hfin : (singleRun valid cost s ops).1.log[p.ret]? = some (p.key, tm) := by
            rw [hl]; exact getElem?_app l hplog
          refine ⟨⟨tm, by rw [← hk]; exact hfin, hf⟩, ?_, ?_, ?_, hrec⟩
          · constructor
            · intro _; exact ⟨p, tm, rfl, hk, hfin, hf⟩
            · intro _; rfl
          · intro _; exact ⟨p, rfl, rfl⟩
          · intro h; cases h
      · -- miss
        have hrec := ih (singleMiss cost s k).1 (some (singleMiss cost s k).2)
          ⟨s.now, by simp [singleMiss], by simp [singleMiss]⟩
        rw [hc] at hl ⊢
        have hnew : (singleRun valid cost (singleMiss cost s k).1 ops).1.log[s.log.length]? = some (k, s.now) := by
          rw [hl]; exact getElem?_app l (by simp [singleMiss])
        refine ⟨⟨s.now, by simpa [singleMiss] using hnew, by simpa [singleMiss] using fresh_self valid hv s.now⟩, ?_, ?_, ?_, hrec⟩
        · constructor
          · intro h; simp [singleMiss] at h
          · rintro ⟨p, tm, hp, hpk, hplog, hpf⟩
            exfalso
            subst hp
            obtain ⟨tm', hent, hslog⟩ := hheld
            have h2 : (singleRun valid cost (singleMiss cost s k).1 ops).1.log[p.ret]? = some (p.key, tm') := by
              rw [hl]; exact getElem?_app l (by simpa [singleMiss] using getElem?_app [(k, s.now)] hslog)
            rw [h2] at hplog
            simp only [Option.some.injEq, Prod.mk.injEq, true_and] at hplog
            subst hplog
            exact hno ⟨_, hent, by simpa [singleMiss] using hpk, by simpa [singleMiss] using hpf⟩
        · intro h; simp [singleMiss] at h
        · intro _; simpa [singleMiss] using hnew

/-! ### LRU cache, sequential -/

theorem foldl_delKey (ks : List K) : ∀ c : List (LEntry K),
    ks.foldl delKey c = c.filter (fun e => decide (e.key ∉ ks)) := by
  induction ks with
  | nil => intro c; exact (List.filter_eq_self.mpr (fun _ _ => by simp)).symm
  | cons k ks ih =>
    intro c
    simp only [List.foldl_cons, ih, delKey, List.filter_filter]
    apply List.filter_congr
    intro e _
    simp [List.mem_cons, not_or]
    exact Bool.and_comm _ _

theorem mem_sweep {valid : Option Int} {now : Int} {c : List (LEntry K)} {e : LEntry K}
    (h : e ∈ sweep valid now c) : e ∈ c ∧ fresh valid now e.time = true := by
  unfold sweep at h
  rw [foldl_delKey] at h
  obtain ⟨hm, hk⟩ := List.mem_filter.mp h
  refine ⟨hm, ?_⟩
  simp only [decide_eq_true_eq] at hk
  cases hf : fresh valid now e.time with
  | true => rfl
  | false =>
    exfalso; apply hk
    simp only [expiredKeys, List.mem_map, List.mem_filter]
    exact ⟨e, ⟨hm, by simp [hf]⟩, rfl⟩

/-- every stored entry is the logged invocation it claims to be -/
def LInv (s : LState K) : Prop := ∀ e ∈ s.cache, s.log[e.res]? = some (e.key, e.time)

theorem lruCall_cases (maxSize : Nat) (valid : Option Int) (cost : K → Int) (s : LState K) (k : K) :
    (∃ e, e ∈ sweep valid s.now s.cache ∧ e.key = k ∧
        lruCall maxSize valid cost s k =
          ({ s with cache := delKey (sweep valid s.now s.cache) k ++ [e] },
           { key := k, now := s.now, ret := e.res, invoked := false })) ∨
    ((∀ e ∈ sweep valid s.now s.cache, e.key ≠ k) ∧
      (lruCall maxSize valid cost s k).2 = { key := k, now := s.now, ret := s.log.length, invoked := true } ∧
      (lruCall maxSize valid cost s k).1.log = s.log ++ [(k, s.now)] ∧
      ∀ e ∈ (lruCall maxSize valid cost s k).1.cache,
        e ∈ sweep valid s.now s.cache ∨ e = { key := k, time := s.now, res := s.log.length }) := by
  cases hfind : (sweep valid s.now s.cache).find? (fun e => decide (e.key = k)) with
  | some e =>
    left
    exact ⟨e, List.mem_of_find?_eq_some hfind, by simpa using List.find?_some hfind, by simp only [lruCall, hfind]⟩
  | none =>
    right
    refine ⟨?_, by simp only [lruCall, hfind], by simp only [lruCall, hfind], ?_⟩
    · intro e he; simpa using List.find?_eq_none.mp hfind e he
    · intro e he
      simp only [lruCall, hfind] at he
      have he' : e ∈ sweep valid s.now s.cache ++ [{ key := k, time := s.now, res := s.log.length }] := by
        split at he
        · exact List.mem_of_mem_tail he
        · exact he
      rcases List.mem_append.mp he' with h | h
      · exact Or.inl h
      · exact Or.inr (by simpa using h)

theorem lruRun_trace (maxSize : Nat) (valid : Option Int) (hv : ∀ v, valid = some v → 0 ≤ v)
    (cost : K → Int) (ops : List (Op K)) : ∀ s : LState K, LInv s →
    (∃ l, (lruRun maxSize valid cost s ops).1.log = s.log ++ l ∧
      l.length = ((lruRun maxSize valid cost s ops).2.filter (·.invoked)).length) ∧
    ∀ e ∈ (lruRun maxSize valid cost s ops).2,
      (∃ tm, (lruRun maxSize valid cost s ops).1.log[e.ret]? = some (e.key, tm) ∧ fresh valid e.now tm = true) ∧
      (e.invoked = true → (lruRun maxSize valid cost s ops).1.log[e.ret]? = some (e.key, e.now)) := by
  induction ops with
  | nil => intro s _; simp [lruRun]
  | cons op ops ih =>
    intro s hinv
    cases op with
    | advance d => simpa [lruRun] using ih { s with now := s.now + d } hinv
    | call k =>
      simp only [lruRun]
      rcases lruCall_cases maxSize valid cost s k with ⟨e, hmem, hk, hc⟩ | ⟨hno, hev, hlog, hcache⟩
      · obtain ⟨hm, hf⟩ := mem_sweep hmem
        have hinv' : LInv (lruCall maxSize valid cost s k).1 := by
          rw [hc]; intro e' he'
          rcases List.mem_append.mp he' with h | h
          · exact hinv e' (mem_sweep (List.mem_filter.mp h).1).1
          · simp only [List.mem_singleton] at h; subst h; exact hinv e' hm
        obtain ⟨⟨l, hl, hn⟩, hrest⟩ := ih _ hinv'
        rw [hc] at hl hn hrest ⊢
        simp only at hl hn hrest ⊢
        refine ⟨⟨l, hl, by simpa using hn⟩, ?_⟩
        intro e' he'
        rcases List.mem_cons.mp he' with h | h
        · subst h
          have := hinv e hm
          exact ⟨⟨e.time, by rw [hl, ← hk]; exact getElem?_app l this, hf⟩, by intro h; cases h⟩
        · exact hrest e' h
      · have hinv' : LInv (lruCall maxSize valid cost s k).1 := by
          intro e' he'
          rw [hlog]
          rcases hcache e' he' with h | h
          · exact getElem?_app _ (hinv e' (mem_sweep h).1)
          · subst h; simp
        obtain ⟨⟨l, hl, hn⟩, hrest⟩ := ih _ hinv'
        rw [hlog] at hl
        refine ⟨⟨(k, s.now) :: l, by simpa using hl, by rw [hev]; simpa using hn⟩, ?_⟩
        intro e' he'
        rcases List.mem_cons.mp he' with h | h
        · subst h
          rw [hev]
          have hnew : (lruRun maxSize valid cost (lruCall maxSize valid cost s k).1 ops).1.log[s.log.length]? = some (k, s.now) := by
            rw [hl]; exact getElem?_app l (by simp)
          exact ⟨⟨s.now, hnew, fresh_self valid hv s.now⟩, fun _ => hnew⟩
        · exact hrest e' h

end Cache
