import OrsoVerif.Generated.CursorFootprint
/-!
C04: the call graph over the footprint table (`Gen.CursorFootprint.units`, regenerated from
`orso/dataframe.py`, `display.py`, `converters.py`, `group_by.py`, `profiler/profiler.py` on every run)
and the two predicates `Props/C04.lean` proves of it.  Definitions only — everything is decided by
evaluation.
-/
namespace Cursor.Footprint
open Gen.CursorFootprint

def find (name : String) : Option Member := units.find? (fun u => u.name == name)

/-- Depth-first walk over `calls`: `todo` is the stack, `seen` what was visited (in order of visit). -/
def walk : Nat → List String → List String → List String
  | 0, _, seen => seen
  | _ + 1, [], seen => seen
  | fuel + 1, n :: todo, seen =>
    if seen.contains n then walk fuel todo seen
    else
      match find n with
      | some u => walk fuel (u.calls ++ todo) (seen ++ [n])
      | none => walk fuel todo (seen ++ [n])

/-- Every unit is pushed at most once per mention in a `calls` list. -/
def fuel : Nat := units.foldl (fun n u => n + u.calls.length + 1) 1

/-- Everything `name` reaches through `calls`, itself included. -/
def reach (name : String) : List String := walk fuel [name] []

/-- The members whose business the cursor is. -/
def cursorApi : List String := ["__init__", "append", "fetchone", "fetchmany", "fetchall"]

/-- `name` cannot disturb the cursor of a materialised frame: nothing it reaches mentions `_cursor`,
changes the row list in place, hands the frame to code outside the table, or is a fetch / an append.
(Assigning `_rows` — `materialize()` — is harmless: the cursor keeps the object it was made over.) -/
def leavesCursorAlone (name : String) : Bool :=
  (reach name).all (fun n =>
    match find n with
    | some u => !u.cursor && !u.mutates && !u.escapes && !cursorApi.contains n
    | none => false)

/-- `name` does not look at the rows at all: nothing it reaches reads or assigns `_rows` (so neither
`materialize()` nor an iteration), besides leaving the cursor alone. -/
def schemaOnly (name : String) : Bool :=
  leavesCursorAlone name &&
  (reach name).all (fun n =>
    match find n with
    | some u => !u.reads && !u.rebinds
    | none => false)

end Cursor.Footprint
