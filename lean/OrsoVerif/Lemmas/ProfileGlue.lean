import OrsoVerif.Model.ProfileGlue
/-!
# C15 — lemmas about the glue: the heap of list objects, the keyed accumulators of the morsel loop
-/
set_option linter.unusedSimpArgs false
namespace Profile

/-! ## the histogram of a sum over a heap of list objects -/

/-- With `distogram.load` copying and `__add__` starting from a copy (whether or not a histogram that is kept as it is
gets copied): no list that existed before the addition is changed, and the sum's histogram holds `addHistSpec` of the
operands'. -/
theorem addHist_copies (co : Bool) (mrg : β → β → β) (len : β → Nat) (h : Heap β) (self other : Nat)
    (hs : self < h.next) (ho : other < h.next) :
    (∀ q, q < h.next → (addHist true true co mrg len h self other).2.get q = h.get q)
    ∧ h.next ≤ (addHist true true co mrg len h self other).2.next
    ∧ (addHist true true co mrg len h self other).1 < (addHist true true co mrg len h self other).2.next
    ∧ (addHist true true co mrg len h self other).2.get (addHist true true co mrg len h self other).1
        = addHistSpec mrg len (h.get self) (h.get other) := by
  have e1 : (if self = h.next then h.get self else h.get self) = h.get self := by split <;> rfl
  have e2 : (if other = h.next then h.get self else h.get other) = h.get other := by
    rw [if_neg (by omega)]
  by_cases hboth : len (h.get self) ≠ 0 ∧ len (h.get other) ≠ 0
  · by_cases hlonger : len (h.get other) > len (h.get self)
    · simp only [addHist, loadBins, mergeInPlace, Heap.alloc, Heap.set, addHistSpec, if_true, e1, e2,
        if_neg (show ¬ self = h.next by omega), if_neg (show ¬ other = h.next by omega),
        if_neg (show ¬ self = h.next + 1 by omega), if_neg (show ¬ other = h.next + 1 by omega),
        if_neg (show ¬ self = h.next + 1 + 1 by omega), if_neg (show ¬ other = h.next + 1 + 1 by omega),
        if_pos hboth, if_pos hlonger]
      refine ⟨fun q hq => ?_, by omega, by omega, ?_⟩
      · simp only [if_neg (show ¬ q = h.next + 1 + 1 by omega), if_neg (show ¬ q = h.next + 1 by omega),
          if_neg (show ¬ q = h.next by omega)]
      · simp
    · simp only [addHist, loadBins, mergeInPlace, Heap.alloc, Heap.set, addHistSpec, if_true, e1, e2,
        if_neg (show ¬ self = h.next by omega), if_neg (show ¬ other = h.next by omega),
        if_neg (show ¬ self = h.next + 1 by omega), if_neg (show ¬ other = h.next + 1 by omega),
        if_neg (show ¬ self = h.next + 1 + 1 by omega), if_neg (show ¬ other = h.next + 1 + 1 by omega),
        if_pos hboth, if_neg hlonger]
      refine ⟨fun q hq => ?_, by omega, by omega, ?_⟩
      · simp only [if_neg (show ¬ q = h.next + 1 + 1 by omega), if_neg (show ¬ q = h.next + 1 by omega),
          if_neg (show ¬ q = h.next by omega)]
      · simp
  · by_cases hother : len (h.get other) ≠ 0
    · cases co
      · simp only [addHist, loadBins, mergeInPlace, Heap.alloc, Heap.set, addHistSpec, if_true, e1, e2,
          if_neg (show ¬ self = h.next by omega), if_neg (show ¬ other = h.next by omega),
          if_neg hboth, if_pos hother, Bool.false_eq_true, if_false]
        refine ⟨fun q hq => ?_, by omega, by omega, ?_⟩
        · simp only [if_neg (show ¬ q = h.next by omega)]
        · simp
      · simp only [addHist, loadBins, mergeInPlace, Heap.alloc, Heap.set, addHistSpec, if_true, e1, e2,
          if_neg (show ¬ self = h.next by omega), if_neg (show ¬ other = h.next by omega),
          if_neg hboth, if_pos hother]
        refine ⟨fun q hq => ?_, by omega, by omega, ?_⟩
        · simp only [if_neg (show ¬ q = h.next + 1 by omega), if_neg (show ¬ q = h.next by omega)]
        · simp
    · simp only [addHist, loadBins, mergeInPlace, Heap.alloc, Heap.set, addHistSpec, if_true, e1, e2,
        if_neg (show ¬ self = h.next by omega), if_neg (show ¬ other = h.next by omega),
        if_neg hboth, if_neg hother]
      refine ⟨fun q hq => ?_, by omega, by omega, ?_⟩
      · simp only [if_neg (show ¬ q = h.next by omega)]
      · simp

/-! ## the keyed accumulators -/

theorem upsert_append_fresh (add : P → P → P) (k : Key) (p : P) (pre : List (Key × P))
    (h : ∀ e ∈ pre, e.1 ≠ k) : upsert add k p pre = pre ++ [(k, p)] := by
  induction pre with
  | nil => rfl
  | cons e rest ih =>
    obtain ⟨k', q⟩ := e
    have hk : k' ≠ k := h (k', q) (by simp)
    simp only [upsert, if_neg hk, List.cons_append]
    rw [ih (fun e he => h e (List.mem_cons_of_mem _ he))]

theorem upsert_hit (add : P → P → P) (k : Key) (p q : P) (pre rest : List (Key × P))
    (h : ∀ e ∈ pre, e.1 ≠ k) : upsert add k p (pre ++ (k, q) :: rest) = pre ++ (k, add q p) :: rest := by
  induction pre with
  | nil =>
    show upsert add k p ((k, q) :: rest) = (k, add q p) :: rest
    simp only [upsert, if_true]
  | cons e pre ih =>
    obtain ⟨k', q'⟩ := e
    have hk : k' ≠ k := h (k', q') (by simp)
    simp only [List.cons_append, upsert, if_neg hk]
    rw [ih (fun e he => h e (List.mem_cons_of_mem _ he))]

theorem map_pair_eq_zipWith (f : γ → δ) (g : γ → ε) (l : List γ) :
    l.map (fun c => (f c, g c)) = List.zipWith Prod.mk (l.map f) (l.map g) := by
  induction l with
  | nil => rfl
  | cons a l ih => simp only [List.map_cons, List.zipWith_cons_cons, ih]

private theorem not_mem_keys_of_nodup {k : Key} {ks : List Key} {pre : List (Key × P)}
    (hnd : (pre.map (·.1) ++ k :: ks).Nodup) : ∀ e ∈ pre, e.1 ≠ k := by
  intro e he hek
  have := List.nodup_append.mp hnd
  exact this.2.2 e.1 (List.mem_map_of_mem he) k (by simp) hek

/-- The first morsel: every key is new, the entries are appended in column order. -/
theorem fold_fresh (key : MCol α → Key) (prof : MCol α → P) (add : P → P → P) (m : List (MCol α))
    (pre : List (Key × P)) (hnd : (pre.map (·.1) ++ m.map key).Nodup) :
    m.foldl (fun acc c => upsert add (key c) (prof c) acc) pre = pre ++ m.map (fun c => (key c, prof c)) := by
  induction m generalizing pre with
  | nil => simp
  | cons c m ih =>
    simp only [List.foldl_cons, List.map_cons] at hnd ⊢
    rw [upsert_append_fresh add (key c) (prof c) pre (not_mem_keys_of_nodup hnd)]
    rw [ih (pre ++ [(key c, prof c)]) (by simpa using hnd)]
    simp

/-- A later morsel whose keys are the keys already there: every entry is added to, none is appended. -/
theorem fold_hit (key : MCol α → Key) (prof : MCol α → P) (add : P → P → P) (m : List (MCol α))
    (pre : List (Key × P)) (ps : List P) (hlen : ps.length = m.length)
    (hnd : (pre.map (·.1) ++ m.map key).Nodup) :
    m.foldl (fun acc c => upsert add (key c) (prof c) acc) (pre ++ List.zipWith Prod.mk (m.map key) ps)
      = pre ++ List.zipWith Prod.mk (m.map key) (List.zipWith add ps (m.map prof)) := by
  induction m generalizing pre ps with
  | nil => simp
  | cons c m ih =>
    match ps, hlen with
    | p :: ps, hlen =>
      simp only [List.foldl_cons, List.map_cons, List.zipWith_cons_cons] at hnd ⊢
      rw [upsert_hit add (key c) (prof c) p pre _ (not_mem_keys_of_nodup hnd)]
      have := ih (pre ++ [(key c, add p (prof c))]) ps (by simpa using hlen) (by simpa using hnd)
      simpa using this

theorem morselStep_eq (kk : KeyKind) (skips : Bool) (prof : MCol α → P) (add : P → P → P) (m : List (MCol α))
    (acc : List (Key × P)) (hrows : ∀ c ∈ m, c.data ≠ []) :
    morselStep kk skips prof add acc m = m.foldl (fun acc c => upsert add (keyOf kk c) (prof c) acc) acc := by
  unfold morselStep
  induction m generalizing acc with
  | nil => rfl
  | cons c m ih =>
    have hc : c.data.isEmpty = false := by
      have := hrows c (by simp)
      cases hd : c.data with
      | nil => exact absurd hd this
      | cons _ _ => rfl
    simp only [List.foldl_cons, hc, Bool.and_false, Bool.false_eq_true, if_false]
    exact ih _ (fun c' hc' => hrows c' (List.mem_cons_of_mem _ hc'))

/-- Keyed by NAME: whatever the identities of the column objects of the morsels, the loop ends with one entry per
column, in column order, holding the column's morsel profiles added up in morsel order. -/
theorem fromDataframe_by_name (skips : Bool) (prof : MCol α → P) (add : P → P → P) (names : List String)
    (hn : names.Nodup) (m : List (MCol α)) (ms : List (List (MCol α)))
    (hshape : ∀ m' ∈ m :: ms, m'.map (·.name) = names)
    (hrows : ∀ m' ∈ m :: ms, ∀ c ∈ m', c.data ≠ []) :
    fromDataframe .name skips prof add (m :: ms)
      = List.zipWith Prod.mk (names.map Key.byName) (columnSums prof add m ms) := by
  have hkeys : ∀ m' ∈ m :: ms, m'.map (keyOf (α := α) .name) = names.map Key.byName := by
    intro m' hm'
    rw [← hshape m' hm', List.map_map]
    rfl
  have hnd : (names.map Key.byName).Nodup :=
    List.Pairwise.map Key.byName (fun a b hab h' => hab (Key.byName.inj h')) hn
  unfold fromDataframe columnSums
  simp only [List.foldl_cons]
  have hfirst : morselStep .name skips prof add [] m = List.zipWith Prod.mk (names.map Key.byName) (m.map prof) := by
    rw [morselStep_eq _ _ _ _ _ _ (hrows m (by simp))]
    have := fold_fresh (keyOf .name) prof add m [] (by simpa [hkeys m (by simp)] using hnd)
    rw [this, List.nil_append, map_pair_eq_zipWith, hkeys m (by simp)]
  rw [hfirst]
  have hlen0 : (m.map prof).length = names.length := by
    have := congrArg List.length (hshape m (by simp))
    simpa using this
  have hms : ∀ m' ∈ ms, m' ∈ m :: ms := fun m' h => List.mem_cons_of_mem _ h
  generalize m.map prof = ps at hlen0
  clear hfirst
  induction ms generalizing ps with
  | nil => rfl
  | cons m' ms ih =>
    simp only [List.foldl_cons]
    have hk' := hkeys m' (by simp)
    have hl' : m'.length = names.length := by
      have := congrArg List.length (hshape m' (by simp))
      simpa using this
    have hstep : morselStep .name skips prof add (List.zipWith Prod.mk (names.map Key.byName) ps) m'
        = List.zipWith Prod.mk (names.map Key.byName) (List.zipWith add ps (m'.map prof)) := by
      rw [morselStep_eq _ _ _ _ _ _ (hrows m' (by simp))]
      have := fold_hit (keyOf .name) prof add m' [] ps (by omega) (by simpa [hk'] using hnd)
      simpa [hk'] using this
    rw [hstep]
    apply ih
    · intro m'' hm''
      exact hshape m'' (by
        rcases List.mem_cons.mp hm'' with h | h
        · exact h ▸ List.mem_cons_self ..
        · exact List.mem_cons_of_mem _ (List.mem_cons_of_mem _ h))
    · intro m'' hm''
      exact hrows m'' (by
        rcases List.mem_cons.mp hm'' with h | h
        · exact h ▸ List.mem_cons_self ..
        · exact List.mem_cons_of_mem _ (List.mem_cons_of_mem _ h))
    · intro m'' hm''
      exact hkeys m'' (by
        rcases List.mem_cons.mp hm'' with h | h
        · exact h ▸ List.mem_cons_self ..
        · exact List.mem_cons_of_mem _ (List.mem_cons_of_mem _ h))
    · intro m'' h
      exact List.mem_cons_of_mem _ h
    · simp [List.length_zipWith, hlen0, hl']

/-- Counts: when every column of a morsel holds the morsel's rows, every column sum is the number of rows of the
frame. -/
theorem columnSums_counts (rows : List (MCol α) → Nat) (n : Nat) (m : List (MCol α)) (ms : List (List (MCol α)))
    (hlen : ∀ m' ∈ m :: ms, m'.length = n)
    (hrows : ∀ m' ∈ m :: ms, ∀ c ∈ m', c.data.length = rows m') :
    columnSums (fun c : MCol α => c.data.length) (· + ·) m ms = List.replicate n (rows m + (ms.map rows).sum) := by
  have hmap : ∀ m' ∈ m :: ms, m'.map (fun c : MCol α => c.data.length) = List.replicate n (rows m') := by
    intro m' hm'
    rw [← hlen m' hm']
    apply List.ext_getElem (by simp)
    intro i h1 h2
    simp only [List.getElem_map, List.getElem_replicate]
    exact hrows m' hm' _ (List.getElem_mem _)
  unfold columnSums
  rw [hmap m (by simp)]
  generalize rows m = a
  induction ms generalizing a with
  | nil => simp
  | cons m' ms ih =>
    simp only [List.foldl_cons, List.map_cons, List.sum_cons]
    rw [hmap m' (by simp), List.zipWith_replicate, Nat.min_self]
    rw [ih (a := a + rows m')]
    · rw [Nat.add_assoc]
    · intro m'' hm''
      exact hlen m'' (by
        rcases List.mem_cons.mp hm'' with h | h
        · exact h ▸ List.mem_cons_self ..
        · exact List.mem_cons_of_mem _ (List.mem_cons_of_mem _ h))
    · intro m'' hm''
      exact hrows m'' (by
        rcases List.mem_cons.mp hm'' with h | h
        · exact h ▸ List.mem_cons_self ..
        · exact List.mem_cons_of_mem _ (List.mem_cons_of_mem _ h))
    · intro m'' hm''
      exact hmap m'' (by
        rcases List.mem_cons.mp hm'' with h | h
        · exact h ▸ List.mem_cons_self ..
        · exact List.mem_cons_of_mem _ (List.mem_cons_of_mem _ h))

end Profile
