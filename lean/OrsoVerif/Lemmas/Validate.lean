import OrsoVerif.Model.Validate
/-!
# C05 — facts about the *statement* (`Validate.validateSpec`)

These lemmas do not mention the generated control flow: they say what the statement of the property
means (acceptance exactly on conforming records, exactness of the error content).  `Props/C05.lean`
proves that the code's flow refines `validateSpec` and transfers them.
-/
namespace Validate.Spec
open Validate

theorem excessNames_nil_iff (s : List Column) (r : Record) :
    excessNames s r = [] ↔ ∀ k ∈ keys r, k ∈ names s := by
  simp [excessNames, keys, List.filter_eq_nil_iff]

theorem filter_map_nil_iff (s : List Column) (p : Column → Bool) :
    (s.filter p).map (·.name) = [] ↔ ∀ c ∈ s, p c = false := by
  simp [List.filter_eq_nil_iff]

/-- **Validation succeeds exactly when the record conforms** (keys all name columns, every column
present, nulls only in nullable columns, every non-null value an instance of its column's class;
untyped columns accept anything). -/
theorem validateSpec_ok_iff (s : List Column) (r : Record) : validateSpec s r = .ok ↔ Conforms s r := by
  unfold validateSpec Conforms
  by_cases hx : excessNames s r = []
  · have hk := (excessNames_nil_iff s r).mp hx
    simp only [hx, ne_eq, not_true_eq_false, if_false]
    constructor
    · intro h
      split at h
      · rename_i hc
        obtain ⟨hm, hn, hw⟩ := hc
        rw [filter_map_nil_iff] at hm hn hw
        refine ⟨hk, ?_, ?_, ?_⟩
        · intro c hc hnone
          have := hm c hc
          simp [isMissing, hnone] at this
        · intro c hc hnull
          have := hn c hc
          simpa [isNullViolation, hnull] using this
        · intro c hc cls ty hl ht
          have := hw c hc
          simpa [isWrongType, hl, ht] using this
      · cases h
    · rintro ⟨_, hp, hn, hw⟩
      have h1 : (s.filter (isMissing r)).map (·.name) = [] := by
        rw [filter_map_nil_iff]; intro c hc
        have := hp c hc
        cases hl : lookup c.name r with
        | none => exact absurd hl this
        | some v => simp [isMissing, hl]
      have h2 : (s.filter (isNullViolation r)).map (·.name) = [] := by
        rw [filter_map_nil_iff]; intro c hc
        cases hl : lookup c.name r with
        | none => simp [isNullViolation, hl]
        | some v =>
          cases v with
          | none => simp [isNullViolation, hl, hn c hc hl]
          | some cls => simp [isNullViolation, hl]
      have h3 : (s.filter (isWrongType r)).map (·.name) = [] := by
        rw [filter_map_nil_iff]; intro c hc
        cases hl : lookup c.name r with
        | none => simp [isWrongType, hl]
        | some v =>
          cases v with
          | none => simp [isWrongType, hl]
          | some cls =>
            cases ht : c.type with
            | none => simp [isWrongType, hl, ht]
            | some ty => simp [isWrongType, hl, ht, hw c hc cls ty hl ht]
      simp [h1, h2, h3]
  · simp only [ne_eq, hx, not_false_eq_true, if_true]
    constructor
    · intro h; cases h
    · rintro ⟨hk, _⟩
      exact absurd ((excessNames_nil_iff s r).mpr hk) hx

/-- The excess-keys error is raised exactly when some key is not a column, and it names precisely
those keys. -/
theorem excess_exact (s : List Column) (r : Record) :
    ((∃ ks, validateSpec s r = .excess ks) ↔ ∃ k ∈ keys r, k ∉ names s)
    ∧ ∀ ks, validateSpec s r = .excess ks → ∀ k, k ∈ ks ↔ (k ∈ keys r ∧ k ∉ names s) := by
  have hmem : ∀ k, k ∈ excessNames s r ↔ (k ∈ keys r ∧ k ∉ names s) := by
    intro k; simp [excessNames, keys]
  constructor
  · constructor
    · rintro ⟨ks, h⟩
      unfold validateSpec at h
      by_cases hx : excessNames s r = []
      · simp only [hx, ne_eq, not_true_eq_false, if_false] at h
        split at h <;> cases h
      · obtain ⟨k, hk⟩ := List.exists_mem_of_ne_nil _ hx
        exact ⟨k, ((hmem k).mp hk).1, ((hmem k).mp hk).2⟩
    · rintro ⟨k, hk1, hk2⟩
      have hx : excessNames s r ≠ [] := by
        intro h
        have : k ∈ excessNames s r := (hmem k).mpr ⟨hk1, hk2⟩
        rw [h] at this; cases this
      exact ⟨excessNames s r, by simp [validateSpec, hx]⟩
  · intro ks h k
    unfold validateSpec at h
    by_cases hx : excessNames s r = []
    · simp only [hx, ne_eq, not_true_eq_false, if_false] at h
      split at h <;> cases h
    · simp only [ne_eq, hx, not_false_eq_true, if_true, Outcome.excess.injEq] at h
      rw [← h]; exact hmem k

/-- The validation error names precisely the offending columns — also when several rules fire:
`missing` are exactly the absent columns, `nulls` exactly the non-nullable columns holding null,
`wrongType` exactly the typed columns whose non-null value is not an instance of the class. -/
theorem invalid_exact (s : List Column) (r : Record) (m n w : List String)
    (h : validateSpec s r = .invalid m n w) :
    (∀ x, x ∈ m ↔ ∃ c ∈ s, c.name = x ∧ lookup c.name r = none)
    ∧ (∀ x, x ∈ n ↔ ∃ c ∈ s, c.name = x ∧ lookup c.name r = some none ∧ c.nullable = false)
    ∧ (∀ x, x ∈ w ↔ ∃ c ∈ s, c.name = x ∧ ∃ cls ty, lookup c.name r = some (some cls) ∧ c.type = some ty
          ∧ isInstance cls ty = false)
    ∧ (m ≠ [] ∨ n ≠ [] ∨ w ≠ [])
    ∧ (∀ k ∈ keys r, k ∈ names s) := by
  unfold validateSpec at h
  by_cases hx : excessNames s r = []
  · simp only [hx, ne_eq, not_true_eq_false, if_false] at h
    split at h
    · cases h
    · rename_i hne
      simp only [Outcome.invalid.injEq] at h
      obtain ⟨rfl, rfl, rfl⟩ := h
      refine ⟨?_, ?_, ?_, ?_, (excessNames_nil_iff s r).mp hx⟩
      · intro x
        simp only [List.mem_map, List.mem_filter, isMissing, Option.isNone_iff_eq_none]
        constructor
        · rintro ⟨c, ⟨hc, hl⟩, rfl⟩; exact ⟨c, hc, rfl, hl⟩
        · rintro ⟨c, hc, rfl, hl⟩; exact ⟨c, ⟨hc, hl⟩, rfl⟩
      · intro x
        simp only [List.mem_map, List.mem_filter]
        constructor
        · rintro ⟨c, ⟨hc, hl⟩, rfl⟩
          refine ⟨c, hc, rfl, ?_⟩
          unfold isNullViolation at hl
          split at hl
          · rename_i heq; exact ⟨heq, by simpa using hl⟩
          · cases hl
        · rintro ⟨c, hc, rfl, hl, hn⟩
          exact ⟨c, ⟨hc, by simp [isNullViolation, hl, hn]⟩, rfl⟩
      · intro x
        simp only [List.mem_map, List.mem_filter]
        constructor
        · rintro ⟨c, ⟨hc, hl⟩, rfl⟩
          refine ⟨c, hc, rfl, ?_⟩
          unfold isWrongType at hl
          split at hl
          · rename_i cls ty h1 h2; exact ⟨cls, ty, h1, h2, by simpa using hl⟩
          · cases hl
        · rintro ⟨c, hc, rfl, cls, ty, hl, ht, hi⟩
          exact ⟨c, ⟨hc, by simp [isWrongType, hl, ht, hi]⟩, rfl⟩
      · by_cases h1 : (s.filter (isMissing r)).map (·.name) = []
        · by_cases h2 : (s.filter (isNullViolation r)).map (·.name) = []
          · right; right; intro h3; exact hne ⟨h1, h2, h3⟩
          · right; left; exact h2
        · left; exact h1
  · simp [hx] at h


end Validate.Spec
