import OrsoVerif.Model.Cache
/-! Helper lemmas for C19 (invariants of the concurrent semantics). -/
namespace Cache

/-- invocation `v` of the wrapped function was made for key `k` -/
def Own {K : Type} (log : List (K × Int)) (k : K) (v : Nat) : Prop := ∃ tm, log[v]? = some (k, tm)

theorem Own.mono {K : Type} {log : List (K × Int)} {k : K} {v : Nat} (l : List (K × Int))
    (h : Own log k v) : Own (log ++ l) k v := by
  obtain ⟨tm, h⟩ := h
  refine ⟨tm, ?_⟩
  have hlt : v < log.length := (List.getElem?_eq_some_iff.mp h).1
  rw [List.getElem?_append_left hlt]; exact h

theorem Own.new {K : Type} (log : List (K × Int)) (k : K) (tm : Int) :
    Own (log ++ [(k, tm)]) k log.length := by
  refine ⟨tm, ?_⟩
  simp

set_option linter.unusedSectionVars false
set_option linter.unusedSimpArgs false

theorem missIdx_repaired : missIdx repairedProgram = 2 := by decide

section Single
variable {A B : Type} [DecidableEq A] [DecidableEq B]

/-- a slot triple never pairs the arguments of one call with the result of another -/
def SlotsOk (log : List ((A × B) × Int)) (s : Slots A B) : Prop :=
  ∀ a b, s.a = some a → s.b = some b → ∃ v, s.r = some v ∧ Own log (a, b) v

structure TInv (log : List ((A × B) × Int)) (t : Thr A B) : Prop where
  snap : SlotsOk log t.snap
  res : ∀ v, t.res = some v → Own log (t.ka, t.kb) v
  pc : t.pc ≤ 3
  pub : t.pc = 3 → ∃ v, t.res = some v
  out : ∀ r, t.out = some r → ∃ v, r = some v ∧ Own log (t.ka, t.kb) v

theorem SlotsOk.mono {log : List ((A × B) × Int)} {s : Slots A B} (l) (h : SlotsOk log s) :
    SlotsOk (log ++ l) s := by
  intro a b ha hb
  obtain ⟨v, hv, ho⟩ := h a b ha hb
  exact ⟨v, hv, ho.mono l⟩

theorem SlotsOk.of_fields {log : List ((A × B) × Int)} {s : Slots A B} {a' : Option A} {b' : Option B}
    (h : SlotsOk log s) (ha : a' = s.a) (hb : b' = s.b) :
    SlotsOk log { a := a', b := b', r := s.r, t := s.t } := by
  subst ha; subst hb
  exact fun a b ha hb => h a b ha hb

theorem TInv.mono {log : List ((A × B) × Int)} {t : Thr A B} (l) (h : TInv log t) :
    TInv (log ++ l) t :=
  { snap := h.snap.mono l
    res := fun v hv => (h.res v hv).mono l
    pc := h.pc
    pub := h.pub
    out := fun r hr => by
      obtain ⟨v, hv, ho⟩ := h.out r hr
      exact ⟨v, hv, ho.mono l⟩ }

theorem TInv.start (log : List ((A × B) × Int)) (ka : A) (kb : B) : TInv log (Thr.start ka kb) :=
  { snap := by intro a b ha; simp [Thr.start, Slots.empty] at ha
    res := by intro v hv; simp [Thr.start] at hv
    pc := by simp [Thr.start]
    pub := by simp [Thr.start]
    out := by intro r hr; simp [Thr.start] at hr }

/-- One line of the repaired program preserves the invariants and only appends to the log. -/
theorem stepThr_repaired (valid : Option Int) (cost : A × B → Int) (w : World A B) (t : Thr A B)
    (hw : SlotsOk w.log w.sh) (ht : TInv w.log t) :
    SlotsOk (stepThr repairedProgram valid cost w t).1.log (stepThr repairedProgram valid cost w t).1.sh ∧
    TInv (stepThr repairedProgram valid cost w t).1.log (stepThr repairedProgram valid cost w t).2 ∧
    ∃ l, (stepThr repairedProgram valid cost w t).1.log = w.log ++ l := by
  have hpc := ht.pc
  obtain ⟨ka, kb, pc, now, snap, res, out⟩ := t
  simp only at hpc
  have h4 : pc = 0 ∨ pc = 1 ∨ pc = 2 ∨ pc = 3 := by omega
  rcases h4 with rfl | rfl | rfl | rfl
  · -- clk
    refine ⟨by simpa [stepThr, repairedProgram, execLine, execOp] using hw, ?_, ⟨[], by simp [stepThr, repairedProgram, execLine, execOp]⟩⟩
    simp only [stepThr, repairedProgram, execLine, execOp, List.getElem?_cons_zero]
    exact { snap := ht.snap, res := ht.res, pc := by simp, pub := by simp, out := ht.out }
  · -- snapshot, compare, return on hit
    simp only [stepThr, repairedProgram, execLine, execOp, List.getElem?_cons_succ, List.getElem?_cons_zero]
    by_cases h1 : w.sh.a = some ka
    · by_cases h2 : w.sh.b = some kb
      · by_cases h3 : fresh valid now w.sh.t = true
        · simp only [h1, h2, h3, if_true, if_false, eq_self, Bool.false_eq_true]
          refine ⟨hw, ?_, ⟨[], by simp⟩⟩
          obtain ⟨v, hv, ho⟩ := hw ka kb h1 h2
          exact { snap := hw.of_fields (by simp [h1]) (by simp [h2]), res := ht.res, pc := by simp, pub := by simp,
                  out := by
                    intro r hr
                    simp only [Option.some.injEq] at hr
                    exact ⟨v, by rw [← hr, hv], ho⟩ }
        · simp only [h1, h2, h3, if_true, if_false, eq_self, Bool.false_eq_true]
          exact ⟨hw, { snap := hw.of_fields (by simp [h1]) (by simp [h2]), res := ht.res, pc := by show missIdx repairedProgram ≤ 3; decide, pub := fun h => absurd (show missIdx repairedProgram = 3 from h) (by decide), out := ht.out }, ⟨[], by simp⟩⟩
      · simp only [h1, h2, if_true, if_false, eq_self]
        exact ⟨hw, { snap := hw.of_fields (by simp [h1]) rfl, res := ht.res, pc := by show missIdx repairedProgram ≤ 3; decide, pub := fun h => absurd (show missIdx repairedProgram = 3 from h) (by decide), out := ht.out }, ⟨[], by simp⟩⟩
    · simp only [h1, if_true, if_false, eq_self]
      exact ⟨hw, { snap := hw.of_fields rfl rfl, res := ht.res, pc := by show missIdx repairedProgram ≤ 3; decide, pub := fun h => absurd (show missIdx repairedProgram = 3 from h) (by decide), out := ht.out }, ⟨[], by simp⟩⟩
  · -- call
    simp only [stepThr, repairedProgram, execLine, execOp, List.getElem?_cons_succ, List.getElem?_cons_zero]
    refine ⟨hw.mono _, ?_, ⟨_, rfl⟩⟩
    exact { snap := ht.snap.mono _
            res := by
              intro v hv
              simp only [Option.some.injEq] at hv
              subst hv
              exact Own.new _ _ _
            pc := by simp, pub := by simp
            out := fun r hr => by
              obtain ⟨v, hv, ho⟩ := ht.out r hr
              exact ⟨v, hv, ho.mono _⟩ }
  · -- publish, return
    obtain ⟨v, hv⟩ := ht.pub rfl
    simp only at hv
    subst hv
    have hown := ht.res v rfl
    simp only [stepThr, repairedProgram, execLine, execOp, List.getElem?_cons_succ, List.getElem?_cons_zero]
    refine ⟨?_, ?_, ⟨[], by simp⟩⟩
    · intro a b ha hb
      simp only [Option.some.injEq] at ha hb
      subst ha; subst hb
      exact ⟨v, rfl, hown⟩
    · exact { snap := ht.snap, res := ht.res, pc := by simp, pub := by simp,
              out := by
                intro r hr
                simp only [Option.some.injEq] at hr
                exact ⟨v, hr.symm, hown⟩ }


/-- invariant of the whole concurrent state -/
def CInv (c : Conc A B) : Prop := SlotsOk c.w.log c.w.sh ∧ ∀ t ∈ c.thr, TInv c.w.log t

theorem CInv.init (t0 : Int) (keys : List (A × B)) : CInv (Conc.init t0 keys) := by
  refine ⟨by intro a b ha; simp [Conc.init, Slots.empty] at ha, ?_⟩
  intro t ht
  simp only [Conc.init, List.mem_map] at ht
  obtain ⟨k, _, rfl⟩ := ht
  exact TInv.start _ _ _

theorem finishThr_repaired (valid : Option Int) (cost : A × B → Int) (fuel : Nat) :
    ∀ (w : World A B) (t : Thr A B), SlotsOk w.log w.sh → TInv w.log t →
    SlotsOk (Conc.finishThr repairedProgram valid cost fuel w t).1.log (Conc.finishThr repairedProgram valid cost fuel w t).1.sh ∧
    TInv (Conc.finishThr repairedProgram valid cost fuel w t).1.log (Conc.finishThr repairedProgram valid cost fuel w t).2 ∧
    ∃ l, (Conc.finishThr repairedProgram valid cost fuel w t).1.log = w.log ++ l := by
  induction fuel with
  | zero => intro w t hw ht; exact ⟨hw, ht, [], by simp [Conc.finishThr]⟩
  | succ n ih =>
    intro w t hw ht
    unfold Conc.finishThr
    by_cases hd : t.out.isSome = true
    · rw [if_pos hd]; exact ⟨hw, ht, [], by simp⟩
    · rw [if_neg hd]
      obtain ⟨h1, h2, l1, h3⟩ := stepThr_repaired valid cost w t hw ht
      obtain ⟨h4, h5, l2, h6⟩ := ih _ _ h1 h2
      exact ⟨h4, h5, l1 ++ l2, by rw [h6, h3, List.append_assoc]⟩

theorem set_inv {c : Conc A B} {i : Nat} {w' : World A B} {t' : Thr A B} {l : List ((A × B) × Int)}
    (hc : CInv c) (hw : SlotsOk w'.log w'.sh) (ht : TInv w'.log t') (hl : w'.log = c.w.log ++ l) :
    CInv { w := w', thr := c.thr.set i t' } := by
  refine ⟨hw, ?_⟩
  intro t hmem
  rcases List.mem_or_eq_of_mem_set hmem with h | h
  · show TInv w'.log t
    rw [hl]; exact (hc.2 t h).mono l
  · subst h; exact ht

theorem step_repaired (valid : Option Int) (cost : A × B → Int) (c c' : Conc A B) (s : SStep)
    (hc : CInv c) (h : Conc.step repairedProgram valid cost c s = some c') : CInv c' := by
  cases s with
  | tick d =>
    simp only [Conc.step, Option.some.injEq] at h
    subst h; exact hc
  | run i =>
    simp only [Conc.step] at h
    cases hg : c.thr[i]? with
    | none => simp [hg] at h
    | some t =>
      simp only [hg] at h
      by_cases hd : t.out.isSome = true
      · simp [hd] at h
      · simp only [hd, if_false, Option.some.injEq, Bool.false_eq_true] at h
        subst h
        have hm : t ∈ c.thr := List.mem_of_getElem? hg
        obtain ⟨h1, h2, l, h3⟩ := stepThr_repaired valid cost c.w t hc.1 (hc.2 t hm)
        exact set_inv hc h1 h2 h3
  | finish i =>
    simp only [Conc.step] at h
    cases hg : c.thr[i]? with
    | none => simp [hg] at h
    | some t =>
      simp only [hg] at h
      by_cases hd : t.out.isSome = true
      · simp [hd] at h
      · simp only [hd, if_false, Option.some.injEq, Bool.false_eq_true] at h
        subst h
        have hm : t ∈ c.thr := List.mem_of_getElem? hg
        obtain ⟨h1, h2, l, h3⟩ := finishThr_repaired valid cost _ c.w t hc.1 (hc.2 t hm)
        exact set_inv hc h1 h2 h3

theorem runSched_repaired (valid : Option Int) (cost : A × B → Int) (ss : List SStep) :
    ∀ (c c' : Conc A B), CInv c → Conc.runSched repairedProgram valid cost c ss = some c' → CInv c' := by
  induction ss with
  | nil => intro c c' hc h; simp only [Conc.runSched, Option.some.injEq] at h; subst h; exact hc
  | cons s ss ih =>
    intro c c' hc h
    simp only [Conc.runSched] at h
    cases hs : Conc.step repairedProgram valid cost c s with
    | none => simp [hs] at h
    | some c1 =>
      simp only [hs] at h
      exact ih c1 c' (step_repaired valid cost c c1 s hc hs) h

end Single
end Cache
