import OrsoVerif.Model.CastPrim
import OrsoVerif.Lemmas.Cast
/-!
# C07 — padded renderings: `int()` / `float()` skip white space around the text

`strip_padded`: padding made of the white space `int()` skips, on both sides of a text that contains none, is removed
by the model's `strip`; `pyInt_padded`: so `int(pre + str(n) + post) = n`.  `FloatTextParam` is the record of what the
DOUBLE theorems assume about CPython's `float(text)` (all of it sampled on every run).
-/
open Cast

namespace Iso
theorem rstrip_all_ws : ∀ (l : List Char), (∀ c ∈ l, isWs c = true) → rstrip l = []
  | [], _ => rfl
  | c :: r, h => by
    have ih := rstrip_all_ws r (fun x hx => h x (List.mem_cons_of_mem _ hx))
    unfold rstrip
    rw [ih]
    simp [h c List.mem_cons_self]

theorem rstrip_append_ws : ∀ (s post : List Char), (∀ c ∈ s, isWs c = false) → (∀ c ∈ post, isWs c = true) →
    rstrip (s ++ post) = s
  | [], post, _, hp => rstrip_all_ws post hp
  | c :: r, post, hs, hp => by
    have ih := rstrip_append_ws r post (fun x hx => hs x (List.mem_cons_of_mem _ hx)) hp
    have hc := hs c List.mem_cons_self
    rw [List.cons_append]
    unfold rstrip
    rw [ih]
    cases r with
    | nil => simp [hc]
    | cons a t => rfl

theorem dropWhile_ws_append : ∀ (pre rest : List Char), (∀ c ∈ pre, isWs c = true) →
    (pre ++ rest).dropWhile isWs = rest.dropWhile isWs
  | [], _, _ => rfl
  | c :: r, rest, h => by
    rw [List.cons_append, List.dropWhile_cons, if_pos (h c List.mem_cons_self)]
    exact dropWhile_ws_append r rest (fun x hx => h x (List.mem_cons_of_mem _ hx))

/-- `str.strip()` / the white space `int()` skips: padding on both sides of a text without white space is removed -/
theorem strip_padded (pre s post : List Char) (hne : s ≠ []) (hs : ∀ c ∈ s, isWs c = false)
    (hpre : ∀ c ∈ pre, isWs c = true) (hpost : ∀ c ∈ post, isWs c = true) :
    strip (pre ++ (s ++ post)) = s := by
  unfold strip
  rw [dropWhile_ws_append pre _ hpre]
  cases s with
  | nil => exact absurd rfl hne
  | cons a t =>
    rw [List.cons_append, List.dropWhile_cons, if_neg (by simp [hs a List.mem_cons_self])]
    exact rstrip_append_ws (a :: t) post hs hpost
end Iso

theorem renderInt_no_ws (n : Int) : ∀ c ∈ renderInt n, Iso.isWs c = false := by
  intro c hc
  unfold renderInt renderNat at hc
  split at hc
  · rcases List.mem_cons.mp hc with rfl | hc
    · decide
    · exact Iso.isWs_of_isDigit (toDigits_isDigit _ c hc)
  · exact Iso.isWs_of_isDigit (toDigits_isDigit _ c hc)

theorem renderInt_ne_nil (n : Int) : renderInt n ≠ [] := by
  unfold renderInt renderNat
  split
  · simp
  · exact Nat.toDigits_ne_nil

/-- `int(pre + str(n) + post) = n` for ASCII white space padding -/
theorem pyInt_padded (n : Int) (h : (Nat.toDigits 10 n.natAbs).length ≤ Iso.maxStrDigits) (pre post : List Char)
    (hpre : ∀ c ∈ pre, Iso.isWs c = true) (hpost : ∀ c ∈ post, Iso.isWs c = true) :
    Iso.pyInt (pre ++ (renderInt n ++ post)) = .ok n := by
  have h0 := pyInt_renderInt n h
  unfold Iso.pyInt at h0 ⊢
  rw [Iso.strip_padded pre _ post (renderInt_ne_nil n) (renderInt_no_ws n) hpre hpost]
  rw [Iso.strip_of_no_ws _ (renderInt_no_ws n)] at h0
  exact h0

/-- **Parameter record for `float(text)`** (`fot`) and `repr` (`rep`) — exactly what the DOUBLE theorems assume:
`reprInverse`: `float(repr(f))` is `f`, bit for bit; `padding`: white space around a text does not change what it reads
as; `specials`: the boundary table `Cast.floatSpecials`.  Each field is sampled / compared on every run. -/
structure FloatTextParam (fot : List Char → Option UInt64) (rep : UInt64 → List Char) : Prop where
  reprInverse : ∀ f, fot (rep f) = some f
  padding : ∀ pre s post : List Char, (∀ c ∈ pre, Iso.isWs c = true) → (∀ c ∈ post, Iso.isWs c = true) →
    fot (pre ++ (s ++ post)) = fot s
  specials : ∀ p ∈ Cast.floatSpecials, fot p.1.toList = some p.2
