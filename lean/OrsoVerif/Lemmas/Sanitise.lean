import OrsoVerif.Model.Sanitise
/-! Helper lemmas for C20 (no Mathlib needed). -/
namespace Sanitise

mutual
theorem cleanVal_congr (h : Json → Str) (c : Colors) :
    (v w : Json) → erase h v = erase h w → cleanVal h c v = cleanVal h c w
  | .obj a, .obj b, he => by
    simp only [erase, Json.obj.injEq] at he
    simp only [cleanVal, cleanObj_congr h c a b he]
  | .obj _, .null, he | .obj _, .bool _, he | .obj _, .num _, he | .obj _, .str _, he
  | .obj _, .arr _, he => by simp [erase] at he
  | .null, w, he => by cases w <;> simp_all [erase]
  | .bool _, w, he => by cases w <;> simp_all [erase]
  | .num _, w, he => by cases w <;> simp_all [erase]
  | .str _, w, he => by cases w <;> simp_all [erase]
  | .arr _, w, he => by cases w <;> simp_all [erase]
theorem cleanObj_congr (h : Json → Str) (c : Colors) :
    (a b : List (Str × Json)) → eraseObj h a = eraseObj h b → cleanObj h c a = cleanObj h c b
  | [], [], _ => rfl
  | [], _ :: _, he => by cases ‹Str × Json›; simp [eraseObj] at he
  | _ :: _, [], he => by cases ‹Str × Json›; simp [eraseObj] at he
  | (k, v) :: ra, (k', v') :: rb, he => by
    simp only [eraseObj, List.cons.injEq, Prod.mk.injEq] at he
    obtain ⟨⟨hk, hv⟩, hr⟩ := he
    subst hk
    simp only [cleanObj, cleanObj_congr h c ra rb hr]
    by_cases hs : sensitive k = true
    · simp only [hs, if_true, Json.str.injEq] at hv ⊢
      rw [hv]
    · simp only [hs] at hv ⊢
      simp only [Bool.false_eq_true, if_false] at hv ⊢
      rw [cleanVal_congr h c v v' hv]
end

end Sanitise

namespace Sanitise

/-! ## key matching -/

theorem keyCharEq_iff (p c : Char) (hi : Gen.Sanitise.ignoreCase = true) :
    keyCharEq p c = true ↔ foldChar p = foldChar c := by
  simp [keyCharEq, hi]

/-- `stripPrefix` with the key comparison: the literal, letter case ignored, is at the front. -/
theorem stripPrefix_key (hi : Gen.Sanitise.ignoreCase = true) (lit : Str) :
    ∀ (s rest : Str), stripPrefix keyCharEq lit s = some rest ↔
      ∃ m, s = m ++ rest ∧ m.map foldChar = lit.map foldChar := by
  induction lit with
  | nil =>
    intro s rest
    simp only [stripPrefix, Option.some.injEq, List.map_nil, List.map_eq_nil_iff]
    constructor
    · intro h; exact ⟨[], by simp [h], rfl⟩
    · rintro ⟨m, hs, hm⟩; subst hm; simpa using hs
  | cons p ps ih =>
    intro s rest
    cases s with
    | nil =>
      simp only [stripPrefix, List.map_cons]
      constructor
      · intro h; cases h
      · rintro ⟨m, hs, hm⟩
        cases m with
        | nil => simp at hm
        | cons a m => simp at hs
    | cons c cs =>
      simp only [stripPrefix, List.map_cons]
      by_cases hpc : keyCharEq p c = true
      · simp only [hpc, if_true]
        rw [ih cs rest]
        have hf := (keyCharEq_iff p c hi).mp hpc
        constructor
        · rintro ⟨m, hs, hm⟩
          exact ⟨c :: m, by simp [hs], by simp [hm, hf]⟩
        · rintro ⟨m, hs, hm⟩
          cases m with
          | nil => simp at hm
          | cons a m =>
            simp only [List.cons_append, List.cons.injEq] at hs
            simp only [List.map_cons, List.cons.injEq] at hm
            exact ⟨m, hs.2, hm.2⟩
      · simp only [hpc]
        constructor
        · intro h; simp at h
        · rintro ⟨m, hs, hm⟩
          cases m with
          | nil => simp at hm
          | cons a m =>
            simp only [List.cons_append, List.cons.injEq] at hs
            simp only [List.map_cons, List.cons.injEq] at hm
            exfalso; apply hpc
            rw [keyCharEq_iff p c hi, hs.1]; exact hm.1.symm

theorem anyTail_search (f : Str → Bool) :
    ∀ s : Str, anyTail f false s = true ↔ ∃ pre suf, s = pre ++ suf ∧ f suf = true := by
  intro s
  induction s with
  | nil =>
    simp only [anyTail]
    constructor
    · intro h; exact ⟨[], [], rfl, h⟩
    · rintro ⟨pre, suf, hs, hf⟩
      have : suf = [] := by
        have := congrArg List.length hs; simp at this; exact List.length_eq_zero_iff.mp (by omega)
      rw [this] at hf; exact hf
  | cons c r ih =>
    simp only [anyTail, Bool.false_and, Bool.not_false, Bool.true_and, Bool.or_eq_true]
    rw [ih]
    constructor
    · rintro (h | ⟨pre, suf, hs, hf⟩)
      · exact ⟨[], c :: r, rfl, h⟩
      · exact ⟨c :: pre, suf, by simp [hs], hf⟩
    · rintro ⟨pre, suf, hs, hf⟩
      cases pre with
      | nil => left; simp at hs; rw [hs]; exact hf
      | cons a pre =>
        right
        simp only [List.cons_append, List.cons.injEq] at hs
        exact ⟨pre, suf, hs.2, hf⟩

/-- `regex.search(key)` for a pattern of the fragment: the literal occurs, letter case ignored,
and — if the pattern ends in `$` — only the end of the key or one final newline follows. -/
theorem search_iff (hi : Gen.Sanitise.ignoreCase = true) (p : Pat) (k : Str) :
    patMatches 1 p k = true ↔
      ∃ pre m rest, k = pre ++ m ++ rest ∧ m.map foldChar = p.lit.map foldChar ∧
        (p.dollar = true → rest = [] ∨ rest = ['\n']) := by
  simp only [patMatches, if_true]
  rw [anyTail_search]
  constructor
  · rintro ⟨pre, suf, hs, hf⟩
    simp only [matchHere] at hf
    cases hsp : stripPrefix keyCharEq p.lit suf with
    | none => simp [hsp] at hf
    | some rest =>
      obtain ⟨m, hm, hmm⟩ := (stripPrefix_key hi p.lit suf rest).mp hsp
      refine ⟨pre, m, rest, by simp [hs, hm], hmm, ?_⟩
      intro hd
      simp [hsp, hd] at hf
      rcases hf with h | h
      · left; exact h
      · right; exact h
  · rintro ⟨pre, m, rest, hk, hm, hd⟩
    refine ⟨pre, m ++ rest, by simp [hk], ?_⟩
    have hsp := (stripPrefix_key hi p.lit (m ++ rest) rest).mpr ⟨m, rfl, hm⟩
    simp only [matchHere, hsp]
    by_cases hdd : p.dollar = true
    · rcases hd hdd with h | h <;> simp [hdd, h]
    · simp [hdd]

end Sanitise

namespace Sanitise

theorem search_dollar (lit k : Str) (a : Bool) (hl : lit.map foldChar = lit) :
    patMatches 1 ⟨a, lit, true⟩ k = true ↔ EndsIn lit k ∨ ∃ k', k = k' ++ ['\n'] ∧ EndsIn lit k' := by
  rw [search_iff rfl]
  simp only [hl, forall_const]
  constructor
  · rintro ⟨pre, m, rest, hk, hm, hr | hr⟩
    · left; exact ⟨pre, m, by simp [hk, hr], hm⟩
    · right; exact ⟨pre ++ m, by simp [hk, hr], pre, m, rfl, hm⟩
  · rintro (⟨pre, m, hk, hm⟩ | ⟨k', hk, pre, m, hk', hm⟩)
    · exact ⟨pre, m, [], by simp [hk], hm, Or.inl rfl⟩
    · exact ⟨pre, m, ['\n'], by simp [hk, hk'], hm, Or.inr rfl⟩

theorem search_plain (lit k : Str) (a : Bool) (hl : lit.map foldChar = lit) :
    patMatches 1 ⟨a, lit, false⟩ k = true ↔ Contains lit k := by
  rw [search_iff rfl]
  simp only [hl]
  constructor
  · rintro ⟨pre, m, rest, hk, hm, _⟩; exact ⟨pre, m, rest, hk, hm⟩
  · rintro ⟨pre, m, rest, hk, hm⟩; exact ⟨pre, m, rest, hk, hm, by simp⟩

end Sanitise

/-! ## splitting and joining -/
namespace Sanitise

theorem splitOn_ne_nil (sep : Char) (s : Str) : splitOn sep s ≠ [] := by
  induction s with
  | nil => simp [splitOn]
  | cons c r ih =>
    simp only [splitOn]
    split
    · simp
    · split
      · simp
      · simp

theorem splitOn_cons_ne (sep c : Char) (r : Str) (h : c ≠ sep) :
    ∃ f fs, splitOn sep r = f :: fs ∧ splitOn sep (c :: r) = (c :: f) :: fs := by
  cases hr : splitOn sep r with
  | nil => exact absurd hr (splitOn_ne_nil sep r)
  | cons f fs => exact ⟨f, fs, rfl, by simp [splitOn, h, hr]⟩

theorem splitOn_append (sep : Char) (a b : Str) :
    splitOn sep (a ++ sep :: b) = splitOn sep a ++ splitOn sep b := by
  induction a with
  | nil => simp [splitOn]
  | cons c r ih =>
    by_cases h : c = sep
    · subst h; simp [splitOn, ih]
    · obtain ⟨f, fs, h1, h2⟩ := splitOn_cons_ne sep c r h
      obtain ⟨f', fs', h1', h2'⟩ := splitOn_cons_ne sep c (r ++ sep :: b) h
      rw [List.cons_append, h2', h2]
      rw [ih, h1] at h1'
      simp only [List.cons_append, List.cons.injEq] at h1'
      simp [h1'.1, h1'.2]

theorem join_splitOn (sep : Char) (s : Str) : joinWith sep (splitOn sep s) = s := by
  induction s with
  | nil => simp [splitOn, joinWith]
  | cons c r ih =>
    by_cases h : c = sep
    · subst h
      simp only [splitOn, if_true]
      cases hr : splitOn c r with
      | nil => exact absurd hr (splitOn_ne_nil c r)
      | cons f fs => rw [hr] at ih; simp [joinWith, ih]
    · obtain ⟨f, fs, h1, h2⟩ := splitOn_cons_ne sep c r h
      rw [h2]
      rw [h1] at ih
      cases fs with
      | nil => simp [joinWith] at ih ⊢; exact ih
      | cons g gs => simp [joinWith] at ih ⊢; exact ih

theorem joinWith_append (sep : Char) (xs ys : List Str) (hx : xs ≠ []) (hy : ys ≠ []) :
    joinWith sep (xs ++ ys) = joinWith sep xs ++ sep :: joinWith sep ys := by
  induction xs with
  | nil => exact absurd rfl hx
  | cons x xs ih =>
    cases xs with
    | nil =>
      cases ys with
      | nil => exact absurd rfl hy
      | cons y ys => simp [joinWith]
    | cons x' xs =>
      have := ih (by simp)
      simp only [List.cons_append] at this ⊢
      simp [joinWith, this]

theorem isolate_skip (parse : Str → Option (List (Str × Json))) (tl : List Str) :
    ∀ (hd acc : List Str),
      (∀ fs, fs ≠ [] → fs <:+ hd → parse (joinWith '|' (fs ++ tl)) = none) →
      isolate parse acc (hd ++ tl) = isolate parse (acc ++ hd) tl := by
  intro hd
  induction hd with
  | nil => intro acc _; simp
  | cons p ps ih =>
    intro acc hno
    have h1 := hno (p :: ps) (by simp) (List.suffix_refl _)
    simp only [List.cons_append] at h1 ⊢
    have step : isolate parse acc (p :: (ps ++ tl)) = isolate parse (acc ++ [p]) (ps ++ tl) := by
      simp only [isolate, h1]
      split <;> rfl
    rw [step, ih (acc ++ [p]) (fun fs hne hs => hno fs hne (List.IsSuffix.trans hs (List.suffix_cons p ps)))]
    simp

end Sanitise

namespace Sanitise
open Gen.Sanitise

/-! ## URL user-info -/

theorem redactUrlWF_cons (rep : Str) (n : Nat) (c : Char) (r : Str) :
    redactUrlWF rep (n + 1) (c :: r) =
      match urlStep (c :: r) with
      | some rest => rep ++ redactUrlWF rep n rest
      | none => c :: redactUrlWF rep n r := rfl

theorem redactUrlF_cons (n : Nat) (c : Char) (r : Str) :
    redactUrlF (n + 1) (c :: r) =
      match urlStep (c :: r) with
      | some rest => Gen.Sanitise.urlReplacement ++ redactUrlF n rest
      | none => c :: redactUrlF n r := rfl

theorem stripPrefix_charEq (pat : Str) : ∀ (s rest : Str),
    stripPrefix charEq pat s = some rest ↔ s = pat ++ rest := by
  induction pat with
  | nil => intro s rest; simp [stripPrefix]
  | cons p ps ih =>
    intro s rest
    cases s with
    | nil => simp [stripPrefix]
    | cons c cs =>
      simp only [stripPrefix, charEq, beq_iff_eq, List.cons_append, List.cons.injEq]
      by_cases h : p = c
      · simp [h, ih]
      · simp [h]; intro h'; exact absurd h'.symm h

theorem findAt_length (close : Char) : ∀ (s rest : Str), findAt close s = some rest → rest.length < s.length := by
  intro s
  induction s with
  | nil => intro rest h; simp [findAt] at h
  | cons c r ih =>
    intro rest h
    simp only [findAt] at h
    split at h
    · simp at h; subst h; simp
    · split at h
      · cases h
      · have := ih rest h; simp; omega

theorem findAt_append (close : Char) (t : Str) : ∀ a : Str,
    findAt close (a ++ t) =
      match findAt close a with
      | some r => some (r ++ t)
      | none => if cleanRun close a then findAt close t else none := by
  intro a
  induction a with
  | nil => simp [findAt, cleanRun]
  | cons c r ih =>
    simp only [List.cons_append, findAt]
    by_cases h1 : c = close
    · simp [h1]
    · by_cases h2 : c = '\n'
      · subst h2; simp [cleanRun]; rw [if_neg h1, if_neg h1]
      · simp only [h1, h2, if_false, ih]
        cases findAt close r with
        | some r' => rfl
        | none => simp [cleanRun, h1, h2]

theorem urlStep_length (s rest : Str) (h : urlStep s = some rest) : rest.length < s.length := by
  simp only [urlStep, Option.bind_eq_some_iff] at h
  obtain ⟨a, h1, h2⟩ := h
  have := (stripPrefix_charEq _ _ _).mp h1
  have := findAt_length _ _ _ h2
  subst s; simp; omega

/-- With enough fuel the result does not depend on the fuel. -/
theorem redactUrlWF_fuel (rep : Str) : ∀ (n m : Nat) (s : Str), s.length ≤ n → s.length ≤ m →
    redactUrlWF rep n s = redactUrlWF rep m s := by
  intro n
  induction n with
  | zero =>
    intro m s hn _
    have : s = [] := List.length_eq_zero_iff.mp (by omega)
    subst this
    cases m <;> simp [redactUrlWF]
  | succ n ih =>
    intro m s hn hm
    cases s with
    | nil => cases m <;> simp [redactUrlWF]
    | cons c r =>
      cases m with
      | zero => simp at hm
      | succ m =>
        simp only [redactUrlWF_cons]
        simp only [List.length_cons] at hn hm
        cases hs : urlStep (c :: r) with
        | none => simp only; rw [ih m r (by omega) (by omega)]
        | some rest =>
          have := urlStep_length _ _ hs
          simp only [List.length_cons] at this
          simp only; rw [ih m rest (by omega) (by omega)]



theorem redactUrlF_fuel : ∀ (n m : Nat) (s : Str), s.length ≤ n → s.length ≤ m →
    redactUrlF n s = redactUrlF m s := redactUrlWF_fuel _

theorem stripPrefix_append (eq : Char → Char → Bool) (pat : Str) : ∀ (s r t : Str),
    stripPrefix eq pat s = some r → stripPrefix eq pat (s ++ t) = some (r ++ t) := by
  induction pat with
  | nil => intro s r t h; simp [stripPrefix] at h ⊢; rw [h]
  | cons p ps ih =>
    intro s r t h
    cases s with
    | nil => simp [stripPrefix] at h
    | cons c cs =>
      simp only [stripPrefix, List.cons_append] at h ⊢
      split at h
      · rename_i hc; simp only [hc, if_true]; exact ih cs r t h
      · cases h

theorem findAt_clean (close : Char) : ∀ u : Str, cleanRun close u = true → findAt close u = none := by
  intro u
  induction u with
  | nil => simp [findAt]
  | cons c r ih =>
    intro h
    simp only [cleanRun, List.all_cons, Bool.and_eq_true, bne_iff_ne, ne_eq] at h
    simp only [findAt, h.1.1, h.1.2, if_false]
    exact ih (by simpa [cleanRun] using h.2)

theorem findAt_urlTail (u post : Str) (hu : cleanRun urlClose u = true) :
    findAt urlClose (urlTail u post) = some post := by
  have hc : cleanRun urlClose (urlOpen ++ u) = true := by
    simp only [cleanRun, List.all_append, Bool.and_eq_true] at hu ⊢
    exact ⟨by decide, hu⟩
  simp only [urlTail]
  rw [findAt_append, findAt_clean _ _ hc]
  simp [hc, findAt]

theorem urlStep_urlTail (u post : Str) (hu : cleanRun urlClose u = true) :
    urlStep (urlTail u post) = some post := by
  have h1 : stripPrefix charEq urlOpen (urlTail u post) = some (u ++ urlClose :: post) :=
    (stripPrefix_charEq _ _ _).mpr (by simp [urlTail])
  simp only [urlStep, h1, Option.bind_some]
  rw [findAt_append, findAt_clean _ _ hu]
  simp [hu, findAt]

/-- A non-empty text that does not start with `://` still does not when a URL tail follows it
(`://` cannot straddle the boundary because the tail starts with `:`). -/
theorem stripPrefix_open_none (c : Char) (p u post : Str)
    (h : stripPrefix charEq urlOpen (c :: p) = none) :
    stripPrefix charEq urlOpen (c :: p ++ urlTail u post) = none := by
  simp only [urlOpen, urlTail] at h ⊢
  match p with
  | [] => simp [stripPrefix, charEq] 
  | [b] => simp [stripPrefix, charEq]
  | b :: a :: rest =>
    simp only [stripPrefix, List.cons_append] at h ⊢
    split at h
    · split at h
      · split at h
        · cases h
        · simp_all
      · simp_all
    · simp_all

theorem urlTail_length (u post : Str) : (urlTail u post).length = urlOpen.length + u.length + 1 + post.length := by
  simp [urlTail]; omega

/-- Core of `url_userinfo_removed`: whatever precedes the URL, the result does not depend on the
user-info. -/
theorem redactUrlWF_congr (rep : Str) (u₁ u₂ post : Str) (h₁ : cleanRun urlClose u₁ = true) (h₂ : cleanRun urlClose u₂ = true) :
    ∀ (k : Nat) (pre : Str), pre.length ≤ k → ∀ n₁ n₂ : Nat,
      (pre ++ urlTail u₁ post).length ≤ n₁ → (pre ++ urlTail u₂ post).length ≤ n₂ →
      redactUrlWF rep n₁ (pre ++ urlTail u₁ post) = redactUrlWF rep n₂ (pre ++ urlTail u₂ post) := by
  intro k
  induction k with
  | zero =>
    intro pre hk n₁ n₂ hn₁ hn₂
    have : pre = [] := List.length_eq_zero_iff.mp (by omega)
    subst this
    simp only [List.nil_append] at hn₁ hn₂ ⊢
    have e₁ : urlTail u₁ post = ':' :: ('/' :: '/' :: (u₁ ++ urlClose :: post)) := rfl
    have e₂ : urlTail u₂ post = ':' :: ('/' :: '/' :: (u₂ ++ urlClose :: post)) := rfl
    have l₁ := urlTail_length u₁ post
    have l₂ := urlTail_length u₂ post
    cases n₁ with
    | zero => omega
    | succ n₁ =>
      cases n₂ with
      | zero => omega
      | succ n₂ =>
        have s₁ := urlStep_urlTail u₁ post h₁
        have s₂ := urlStep_urlTail u₂ post h₂
        rw [e₁] at s₁; rw [e₂] at s₂
        rw [e₁, e₂, redactUrlWF_cons, redactUrlWF_cons, s₁, s₂]
        simp only
        rw [redactUrlWF_fuel rep n₁ n₂ post (by omega) (by omega)]
  | succ k ih =>
    intro pre hk n₁ n₂ hn₁ hn₂
    cases pre with
    | nil => exact ih [] (by simp) n₁ n₂ hn₁ hn₂
    | cons c p =>
      have l₁ := urlTail_length u₁ post
      have l₂ := urlTail_length u₂ post
      simp only [List.length_cons, List.length_append] at hk hn₁ hn₂
      cases n₁ with
      | zero => omega
      | succ n₁ =>
        cases n₂ with
        | zero => omega
        | succ n₂ =>
          simp only [List.cons_append, redactUrlWF_cons]
          cases hsp : stripPrefix charEq urlOpen (c :: p) with
          | none =>
            have a₁ := stripPrefix_open_none c p u₁ post hsp
            have a₂ := stripPrefix_open_none c p u₂ post hsp
            simp only [List.cons_append] at a₁ a₂
            simp only [urlStep, a₁, a₂, Option.bind_none]
            rw [ih p (by omega) n₁ n₂ (by simp; omega) (by simp; omega)]
          | some r' =>
            have hlen : r'.length ≤ p.length + 1 := by
              have := (stripPrefix_charEq _ _ _).mp hsp
              have := congrArg List.length this
              simp at this; omega
            have a₁ := stripPrefix_append charEq urlOpen (c :: p) r' (urlTail u₁ post) hsp
            have a₂ := stripPrefix_append charEq urlOpen (c :: p) r' (urlTail u₂ post) hsp
            simp only [List.cons_append] at a₁ a₂
            simp only [urlStep, a₁, a₂, Option.bind_some, findAt_append]
            cases hf : findAt urlClose r' with
            | some r'' =>
              have := findAt_length _ _ _ hf
              simp only
              rw [ih r'' (by omega) n₁ n₂ (by simp; omega) (by simp; omega)]
            | none =>
              by_cases hc : cleanRun urlClose r' = true
              · simp only [hc, if_true, findAt_urlTail _ _ h₁, findAt_urlTail _ _ h₂]
                rw [redactUrlWF_fuel rep n₁ n₂ post (by omega) (by omega)]
              · simp only [hc]
                simp only [Bool.false_eq_true, if_false]
                rw [ih p (by omega) n₁ n₂ (by simp; omega) (by simp; omega)]

theorem redactUrlF_congr (u₁ u₂ post : Str) (h₁ : cleanRun urlClose u₁ = true) (h₂ : cleanRun urlClose u₂ = true) :
    ∀ (k : Nat) (pre : Str), pre.length ≤ k → ∀ n₁ n₂ : Nat,
      (pre ++ urlTail u₁ post).length ≤ n₁ → (pre ++ urlTail u₂ post).length ≤ n₂ →
      redactUrlF n₁ (pre ++ urlTail u₁ post) = redactUrlF n₂ (pre ++ urlTail u₂ post) :=
  redactUrlWF_congr _ u₁ u₂ post h₁ h₂

end Sanitise

namespace Sanitise

/-! ## quote colouring -/

theorem findClose_spec (q : Char) (line : Bool) : ∀ (r inner rest : Str),
    findClose q line r = some (inner, rest) → r = inner ++ q :: rest := by
  intro r
  induction r with
  | nil => intro inner rest h; simp [findClose] at h
  | cons c r ih =>
    intro inner rest h
    simp only [findClose] at h
    split at h
    · rename_i hc; simp at h; obtain ⟨h1, h2⟩ := h; subst h1 h2 hc; rfl
    · split at h
      · cases h
      · split at h
        · rename_i i' r' hf
          simp at h; obtain ⟨h1, h2⟩ := h; subst h1 h2
          rw [ih i' r' hf]; rfl
        · cases h

theorem quoteColourF_plain : ∀ (n : Nat) (s : Str), quoteColourF (colorsFor false) n s = s := by
  intro n
  induction n with
  | zero => intro s; rfl
  | succ n ih =>
    intro s
    cases s with
    | nil => rfl
    | cons q r =>
      simp only [quoteColourF]
      split
      · split
        · rename_i inner rest hf
          rw [findClose_spec _ _ _ _ _ hf, ih rest]
          simp [colorsFor]
        · rw [ih r]
      · rw [ih r]

theorem quoteColour_plain (s : Str) : quoteColour (colorsFor false) s = s := quoteColourF_plain _ s

theorem quoteColourF_sublist (c : Colors) : ∀ (n : Nat) (s : Str), s.Sublist (quoteColourF c n s) := by
  intro n
  induction n with
  | zero => intro s; exact List.Sublist.refl s
  | succ n ih =>
    intro s
    cases s with
    | nil => exact List.Sublist.refl _
    | cons q r =>
      simp only [quoteColourF]
      split
      · split
        · rename_i inner rest hf
          rw [findClose_spec _ _ _ _ _ hf]
          refine List.Sublist.cons_cons q ?_
          have h1 : (q :: rest).Sublist (c.value ++ q :: quoteColourF c n rest) :=
            List.Sublist.trans (List.Sublist.cons_cons q (ih rest)) (List.sublist_append_right c.value _)
          have h2 : (inner ++ q :: rest).Sublist (c.yellow ++ (inner ++ (c.value ++ q :: quoteColourF c n rest))) :=
            List.Sublist.trans (List.Sublist.append (List.Sublist.refl inner) h1) (List.sublist_append_right c.yellow _)
          simpa [List.append_assoc] using h2
        · exact List.Sublist.cons_cons q (ih r)
      · exact List.Sublist.cons_cons q (ih r)

theorem quoteColour_sublist (c : Colors) (s : Str) : s.Sublist (quoteColour c s) := quoteColourF_sublist c _ s

end Sanitise

namespace Sanitise

/-! ## a header field that does not open a JSON object cannot start the message -/

theorem firstNonSpace_append_sep (f rest : Str) :
    firstNonSpace (f ++ '|' :: rest) = some '|' ∨ firstNonSpace (f ++ '|' :: rest) = firstNonSpace f := by
  induction f with
  | nil => left; simp [firstNonSpace]
  | cons c f ih =>
    by_cases hc : (c == ' ' || c == '\t' || c == '\n' || c == '\r') = true
    · simp only [firstNonSpace, List.cons_append, List.dropWhile_cons, hc, if_true] at ih ⊢
      exact ih
    · right
      simp only [firstNonSpace, List.cons_append, List.dropWhile_cons, hc]
      simp

theorem joinWith_cons_append (f : Str) (fs tl : List Str) (htl : tl ≠ []) :
    ∃ rest, joinWith '|' ((f :: fs) ++ tl) = f ++ '|' :: rest := by
  cases fs with
  | nil =>
    cases tl with
    | nil => exact absurd rfl htl
    | cons t ts => exact ⟨joinWith '|' (t :: ts), by simp [joinWith]⟩
  | cons g gs => exact ⟨joinWith '|' ((g :: gs) ++ tl), by simp [joinWith]⟩

/-- Discharges the side condition of the isolation theorems from a syntactic fact about the
header: none of its fields begins (after white space) with `{`. -/
theorem no_longer_candidate (parse : Str → Option (List (Str × Json)))
    (hparse : ∀ t d, parse t = some d → firstNonSpace t = some '{')
    (hd tl : List Str) (htl : tl ≠ [])
    (hh : ∀ f ∈ hd, firstNonSpace f ≠ some '{') :
    ∀ fs, fs ≠ [] → fs <:+ hd → parse (joinWith '|' (fs ++ tl)) = none := by
  intro fs hne hs
  cases fs with
  | nil => exact absurd rfl hne
  | cons f fs =>
    obtain ⟨rest, hr⟩ := joinWith_cons_append f fs tl htl
    rw [hr]
    cases hp : parse (f ++ '|' :: rest) with
    | none => rfl
    | some d =>
      exfalso
      have h1 := hparse _ _ hp
      have hf : f ∈ hd := hs.subset (by simp)
      rcases firstNonSpace_append_sep f rest with h2 | h2
      · rw [h2] at h1; cases h1
      · rw [h2] at h1; exact hh f hf h1


/-- A text whose first non-blank character is `{` has a first field that passes the guard. -/
theorem opensObject_of_firstNonSpace (hg : GuardOK) : ∀ t : Str, firstNonSpace t = some '{' →
    ∃ p ps, splitOn '|' t = p :: ps ∧ opensObject p = true := by
  intro t
  induction t with
  | nil => intro h; simp [firstNonSpace] at h
  | cons c r ih =>
    intro h
    by_cases hc : (c == ' ' || c == '\t' || c == '\n' || c == '\r') = true
    · have hne : c ≠ '|' := by
        intro e; subst e; simp at hc
      have h' : firstNonSpace r = some '{' := by
        simpa [firstNonSpace, List.dropWhile_cons, hc] using h
      obtain ⟨p, ps, hs, ho⟩ := ih h'
      refine ⟨c :: p, ps, by simp [splitOn, hne, hs], ?_⟩
      have hc' := hg.1 c hc
      simpa [opensObject, List.dropWhile_cons, hc'] using ho
    · have hb : c = '{' := by
        simpa [firstNonSpace, List.dropWhile_cons, hc] using h
      subst hb
      obtain ⟨f, fs, h1, h2⟩ := splitOn_cons_ne '|' '{' r (by decide)
      refine ⟨'{' :: f, fs, h2, ?_⟩
      simp [opensObject, hg.2.1, hg.2.2, stripPrefix, charEq]

/-- The isolation loop on a record whose candidates before the message do not parse. -/
theorem isolate_message (hg : GuardOK) (parse : Str → Option (List (Str × Json))) (hd : List Str) (json : Str)
    (d : List (Str × Json)) (hj : parse json = some d) (ho : firstNonSpace json = some '{')
    (hno : ∀ fs, fs ≠ [] → fs <:+ hd → parse (joinWith '|' (fs ++ splitOn '|' json)) = none) :
    isolate parse [] (hd ++ splitOn '|' json) = some (hd, d) := by
  rw [isolate_skip parse (splitOn '|' json) hd [] hno]
  obtain ⟨p, ps, hs, hop⟩ := opensObject_of_firstNonSpace hg json ho
  have hjoin : joinWith '|' (p :: ps) = json := by rw [← hs]; exact join_splitOn '|' json
  rw [hs]
  simp only [isolate, hop, if_true, hjoin, hj, List.nil_append]

/-- Fields that do not pass the guard are skipped without asking the parser. -/
theorem isolate_skip_guard (parse : Str → Option (List (Str × Json))) (tl : List Str) :
    ∀ (hd acc : List Str), (∀ f ∈ hd, opensObject f = false) →
      isolate parse acc (hd ++ tl) = isolate parse (acc ++ hd) tl := by
  intro hd
  induction hd with
  | nil => intro acc _; simp
  | cons p ps ih =>
    intro acc hh
    have hp : opensObject p = false := hh p (by simp)
    simp only [List.cons_append, isolate, hp, Bool.false_eq_true, if_false]
    rw [ih (acc ++ [p]) (fun f hf => hh f (by simp [hf]))]
    simp

/-- A text that passes the guard has a first field that passes it (the guard strips no `|`). -/
theorem opensObject_first_field (hsep : '|' ∉ Gen.Sanitise.guardStrip) (hopen : Gen.Sanitise.guardOpen = ['{']) :
    ∀ t : Str, opensObject t = true → ∃ p ps, splitOn '|' t = p :: ps ∧ opensObject p = true := by
  intro t
  induction t with
  | nil => intro h; simp [opensObject, hopen, stripPrefix] at h
  | cons c r ih =>
    intro h
    by_cases hc : c ∈ Gen.Sanitise.guardStrip
    · have hne : c ≠ '|' := by intro e; subst e; exact hsep hc
      have h' : opensObject r = true := by
        simpa [opensObject, List.dropWhile_cons, hc] using h
      obtain ⟨p, ps, hs, ho⟩ := ih h'
      refine ⟨c :: p, ps, by simp [splitOn, hne, hs], ?_⟩
      simpa [opensObject, List.dropWhile_cons, hc] using ho
    · have hb : c = '{' := by
        have : (stripPrefix charEq ['{'] (c :: r)).isSome = true := by
          simpa [opensObject, List.dropWhile_cons, hc, hopen] using h
        by_cases e : c = '{'
        · exact e
        · have hne : charEq '{' c = false := by
            simp only [charEq, beq_eq_false_iff_ne, ne_eq]
            exact fun h' => e h'.symm
          simp [stripPrefix, hne] at this
      subst hb
      obtain ⟨f, fs, h1, h2⟩ := splitOn_cons_ne '|' '{' r (by decide)
      refine ⟨'{' :: f, fs, h2, ?_⟩
      simp [opensObject, hc, hopen, stripPrefix, charEq]

/-- If the parser accepts nothing, no message is isolated. -/
theorem isolate_none (parse : Str → Option (List (Str × Json))) (hp : ∀ t, parse t = none) :
    ∀ (tl acc : List Str), isolate parse acc tl = none := by
  intro tl
  induction tl with
  | nil => intro acc; rfl
  | cons p ps ih =>
    intro acc
    simp only [isolate, hp]
    split <;> exact ih _

end Sanitise
