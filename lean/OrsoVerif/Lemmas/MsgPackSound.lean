import OrsoVerif.Lemmas.MsgPack
/-!
# The decoder's range (helper lemmas for `Props/C01.lean`)

For *arbitrary* bytes: whatever `unpack` returns is a value `packb` accepts (integers in
`[-2^63, 2^64)`, every size below `2^32`, nesting bounded by the fuel), it was read from a non-empty
prefix of the buffer and the rest is returned untouched.  By induction on the fuel, one lemma per
MessagePack family.
-/
namespace MsgPack

theorem rd8_some {bs : Bytes} {n : Nat} {r : Bytes} (h : rd8 bs = some (n, r)) :
    n < 256 ∧ r <:+ bs ∧ r.length < bs.length := by
  match bs, h with
  | a :: t, h =>
    simp only [rd8, Option.some.injEq, Prod.mk.injEq] at h
    obtain ⟨rfl, rfl⟩ := h
    exact ⟨a.toNat_lt, List.suffix_cons _ _, by simp⟩

theorem rd16_some {bs : Bytes} {n : Nat} {r : Bytes} (h : rd16 bs = some (n, r)) :
    n < 65536 ∧ r <:+ bs ∧ r.length < bs.length := by
  match bs, h with
  | a :: b :: t, h =>
    simp only [rd16, Option.some.injEq, Prod.mk.injEq] at h
    obtain ⟨rfl, rfl⟩ := h
    have := a.toNat_lt; have := b.toNat_lt
    exact ⟨by omega, ⟨[a, b], rfl⟩, by simp only [List.length_cons]; omega⟩

theorem rd32_some {bs : Bytes} {n : Nat} {r : Bytes} (h : rd32 bs = some (n, r)) :
    n < 4294967296 ∧ r <:+ bs ∧ r.length < bs.length := by
  match bs, h with
  | a :: b :: c :: d :: t, h =>
    simp only [rd32, Option.some.injEq, Prod.mk.injEq] at h
    obtain ⟨rfl, rfl⟩ := h
    have := a.toNat_lt; have := b.toNat_lt; have := c.toNat_lt; have := d.toNat_lt
    exact ⟨by omega, ⟨[a, b, c, d], rfl⟩, by simp only [List.length_cons]; omega⟩

theorem rd64_some {bs : Bytes} {n : Nat} {r : Bytes} (h : rd64 bs = some (n, r)) :
    n < 18446744073709551616 ∧ r <:+ bs ∧ r.length < bs.length := by
  match bs, h with
  | a :: b :: c :: d :: e :: f :: g :: i :: t, h =>
    simp only [rd64, Option.some.injEq, Prod.mk.injEq] at h
    obtain ⟨rfl, rfl⟩ := h
    have := a.toNat_lt; have := b.toNat_lt; have := c.toNat_lt; have := d.toNat_lt
    have := e.toNat_lt; have := f.toNat_lt; have := g.toNat_lt; have := i.toNat_lt
    exact ⟨by omega, ⟨[a, b, c, d, e, f, g, i], rfl⟩, by simp only [List.length_cons]; omega⟩

theorem takeN_some {n : Nat} {bs a r : Bytes} (h : takeN n bs = some (a, r)) :
    a.length = n ∧ r <:+ bs ∧ bs.length = n + r.length := by
  unfold takeN at h
  split at h
  · cases h
  · rename_i hl
    simp only [Option.some.injEq, Prod.mk.injEq] at h
    obtain ⟨rfl, rfl⟩ := h
    simp only [List.length_take] at hl
    refine ⟨by simp only [List.length_take]; omega, List.drop_suffix _ _, ?_⟩
    simp only [List.length_drop]; omega

theorem ofUtf8_some {a : Bytes} {s : String} (h : ofUtf8 a = some s) : utf8 s = a := by
  unfold ofUtf8 at h
  unfold utf8
  simp only [String.fromUTF8?] at h
  split at h
  · simp only [Option.some.injEq] at h
    subst h
    rfl
  · cases h


theorem unStr_some {n : Nat} {bs : Bytes} {s : String} {r : Bytes} (h : unStr n bs = some (s, r)) :
    (utf8 s).length = n ∧ r <:+ bs ∧ bs.length = n + r.length := by
  unfold unStr at h
  cases ht : takeN n bs with
  | none => rw [ht] at h; cases h
  | some p =>
    obtain ⟨a, r'⟩ := p
    rw [ht] at h
    simp only [] at h
    cases hu : ofUtf8 a with
    | none => rw [hu] at h; cases h
    | some s' =>
      rw [hu] at h
      simp only [Option.some.injEq, Prod.mk.injEq] at h
      obtain ⟨rfl, rfl⟩ := h
      obtain ⟨h1, h2, h3⟩ := takeN_some ht
      exact ⟨by rw [ofUtf8_some hu]; exact h1, h2, h3⟩

theorem andThen_some {α β : Type} {x : Option (α × Bytes)} {f : α → Bytes → Option β} {y : β}
    (h : andThen x f = some y) : ∃ a r, x = some (a, r) ∧ f a r = some y := by
  unfold andThen at h
  match x, h with
  | some (a, r), h => exact ⟨a, r, rfl, h⟩

/-- What the reader of one value guarantees about what it returns. -/
def Sound (F : Nat) (un : Bytes → Option (PyVal × Bytes)) : Prop :=
  ∀ bs v r, un bs = some (v, r) → packable v = true ∧ cdepth v ≤ F ∧ r <:+ bs ∧ r.length < bs.length

theorem unpackN_sound {F : Nat} {un : Bytes → Option (PyVal × Bytes)} (hun : Sound F un) :
    ∀ (n : Nat) (bs : Bytes) (vs : List PyVal) (r : Bytes), unpackN un n bs = some (vs, r) →
      packableL vs = true ∧ cdepthL vs ≤ F ∧ vs.length = n ∧ r <:+ bs := by
  intro n
  induction n with
  | zero =>
    intro bs vs r h
    simp only [unpackN, Option.some.injEq, Prod.mk.injEq] at h
    obtain ⟨rfl, rfl⟩ := h
    exact ⟨rfl, Nat.zero_le _, rfl, List.suffix_refl _⟩
  | succ n ih =>
    intro bs vs r h
    simp only [unpackN] at h
    cases h1 : un bs with
    | none => rw [h1] at h; cases h
    | some p =>
      obtain ⟨v, bs1⟩ := p
      rw [h1] at h
      simp only [] at h
      cases h2 : unpackN un n bs1 with
      | none => rw [h2] at h; cases h
      | some q =>
        obtain ⟨vs', bs2⟩ := q
        rw [h2] at h
        simp only [Option.some.injEq, Prod.mk.injEq] at h
        obtain ⟨rfl, rfl⟩ := h
        obtain ⟨a1, a2, a3, _⟩ := hun bs v bs1 h1
        obtain ⟨b1, b2, b3, b4⟩ := ih bs1 vs' bs2 h2
        refine ⟨by simp only [packableL, a1, b1, Bool.and_self], ?_, by simp only [List.length_cons, b3], b4.trans a3⟩
        simp only [cdepthL]; omega

theorem unKey_some {bs : Bytes} {k : String} {r : Bytes} (h : unKey bs = some (k, r)) :
    (utf8 k).length < 4294967296 ∧ r <:+ bs ∧ r.length < bs.length := by
  match bs, h with
  | t :: rest, h =>
    rw [unKey_cons] at h
    split at h
    · obtain ⟨h1, h2, h3⟩ := unStr_some h
      exact ⟨by omega, h2.trans (List.suffix_cons _ _), by simp only [List.length_cons]; omega⟩
    · split at h
      · obtain ⟨n, r1, hr, hf⟩ := andThen_some h
        obtain ⟨c1, c2, c3⟩ := rd8_some hr
        obtain ⟨h1, h2, h3⟩ := unStr_some hf
        exact ⟨by omega, (h2.trans c2).trans (List.suffix_cons _ _), by simp only [List.length_cons]; omega⟩
      · split at h
        · obtain ⟨n, r1, hr, hf⟩ := andThen_some h
          obtain ⟨c1, c2, c3⟩ := rd16_some hr
          obtain ⟨h1, h2, h3⟩ := unStr_some hf
          exact ⟨by omega, (h2.trans c2).trans (List.suffix_cons _ _), by simp only [List.length_cons]; omega⟩
        · split at h
          · obtain ⟨n, r1, hr, hf⟩ := andThen_some h
            obtain ⟨c1, c2, c3⟩ := rd32_some hr
            obtain ⟨h1, h2, h3⟩ := unStr_some hf
            exact ⟨by omega, (h2.trans c2).trans (List.suffix_cons _ _), by simp only [List.length_cons]; omega⟩
          · cases h

theorem unpackKV_sound {F : Nat} {un : Bytes → Option (PyVal × Bytes)} (hun : Sound F un) :
    ∀ (n : Nat) (bs : Bytes) (kvs : List (String × PyVal)) (r : Bytes), unpackKV un n bs = some (kvs, r) →
      packableD kvs = true ∧ cdepthD kvs ≤ F ∧ kvs.length = n ∧ r <:+ bs := by
  intro n
  induction n with
  | zero =>
    intro bs kvs r h
    simp only [unpackKV, Option.some.injEq, Prod.mk.injEq] at h
    obtain ⟨rfl, rfl⟩ := h
    exact ⟨rfl, Nat.zero_le _, rfl, List.suffix_refl _⟩
  | succ n ih =>
    intro bs kvs r h
    simp only [unpackKV] at h
    cases h0 : unKey bs with
    | none => rw [h0] at h; cases h
    | some p0 =>
      obtain ⟨k, bs1⟩ := p0
      rw [h0] at h
      simp only [] at h
      cases h1 : un bs1 with
      | none => rw [h1] at h; cases h
      | some p =>
        obtain ⟨v, bs2⟩ := p
        rw [h1] at h
        simp only [] at h
        cases h2 : unpackKV un n bs2 with
        | none => rw [h2] at h; cases h
        | some q =>
          obtain ⟨kvs', bs3⟩ := q
          rw [h2] at h
          simp only [Option.some.injEq, Prod.mk.injEq] at h
          obtain ⟨rfl, rfl⟩ := h
          obtain ⟨k1, k2, _⟩ := unKey_some h0
          obtain ⟨a1, a2, a3, _⟩ := hun bs1 v bs2 h1
          obtain ⟨b1, b2, b3, b4⟩ := ih bs2 kvs' bs3 h2
          refine ⟨by simp only [packableD, a1, b1, k1, decide_true, Bool.and_self], ?_, by simp only [List.length_cons, b3],
            (b4.trans a3).trans k2⟩
          simp only [cdepthD]; omega


/-- The conclusion about one value read from `rest`. -/
def Ok1 (F : Nat) (rest : Bytes) (v : PyVal) (r : Bytes) : Prop :=
  packable v = true ∧ cdepth v ≤ F + 1 ∧ r <:+ rest

theorem ok1_ret {F : Nat} {v0 v : PyVal} {r0 rest r : Bytes} (hp : packable v0 = true) (hd : cdepth v0 = 0)
    (hs : r0 <:+ rest) (h : some (v0, r0) = some (v, r)) : Ok1 F rest v r := by
  simp only [Option.some.injEq, Prod.mk.injEq] at h
  obtain ⟨rfl, rfl⟩ := h
  exact ⟨hp, by omega, hs⟩

theorem packable_int {i : Int} (h1 : -9223372036854775808 ≤ i) (h2 : i < 18446744073709551616) :
    packable (.int i) = true := by
  simp only [packable, Bool.and_eq_true, decide_eq_true_eq]; exact ⟨h1, h2⟩

theorem unStrV_sound {F n : Nat} {rest : Bytes} {v : PyVal} {r : Bytes} (hn : n < 4294967296)
    (h : unStrV n rest = some (v, r)) : Ok1 F rest v r := by
  unfold unStrV at h
  cases hs : unStr n rest with
  | none => rw [hs] at h; cases h
  | some p =>
    obtain ⟨s, r1⟩ := p
    rw [hs] at h
    obtain ⟨h1, h2, _⟩ := unStr_some hs
    exact ok1_ret (by simp only [packable, decide_eq_true_eq]; omega) rfl h2 h

theorem unBin_sound {F n : Nat} {rest : Bytes} {v : PyVal} {r : Bytes} (hn : n < 4294967296)
    (h : unBin n rest = some (v, r)) : Ok1 F rest v r := by
  unfold unBin at h
  cases hs : takeN n rest with
  | none => rw [hs] at h; cases h
  | some p =>
    obtain ⟨a, r1⟩ := p
    rw [hs] at h
    obtain ⟨h1, h2, _⟩ := takeN_some hs
    exact ok1_ret (by simp only [packable, decide_eq_true_eq]; omega) rfl h2 h

theorem unArr_sound {F n : Nat} {un : Bytes → Option (PyVal × Bytes)} (hun : Sound F un) {rest : Bytes} {v : PyVal}
    {r : Bytes} (hn : n < 4294967296) (h : unArr un n rest = some (v, r)) : Ok1 F rest v r := by
  unfold unArr at h
  cases hs : unpackN un n rest with
  | none => rw [hs] at h; cases h
  | some p =>
    obtain ⟨vs, r1⟩ := p
    rw [hs] at h
    simp only [Option.some.injEq, Prod.mk.injEq] at h
    obtain ⟨rfl, rfl⟩ := h
    obtain ⟨b1, b2, b3, b4⟩ := unpackN_sound hun n rest vs r1 hs
    refine ⟨?_, ?_, b4⟩
    · simp only [packable, Bool.and_eq_true, decide_eq_true_eq]; exact ⟨by omega, b1⟩
    · simp only [cdepth]; omega

theorem unMap_sound {F n : Nat} {un : Bytes → Option (PyVal × Bytes)} (hun : Sound F un) {rest : Bytes} {v : PyVal}
    {r : Bytes} (hn : n < 4294967296) (h : unMap un n rest = some (v, r)) : Ok1 F rest v r := by
  unfold unMap at h
  cases hs : unpackKV un n rest with
  | none => rw [hs] at h; cases h
  | some p =>
    obtain ⟨kvs, r1⟩ := p
    rw [hs] at h
    simp only [Option.some.injEq, Prod.mk.injEq] at h
    obtain ⟨rfl, rfl⟩ := h
    obtain ⟨b1, b2, b3, b4⟩ := unpackKV_sound hun n rest kvs r1 hs
    refine ⟨?_, ?_, b4⟩
    · simp only [packable, Bool.and_eq_true, decide_eq_true_eq]; exact ⟨by omega, b1⟩
    · simp only [cdepth]; omega

theorem ok1_mono {F : Nat} {rest r1 : Bytes} {v : PyVal} {r : Bytes} (hs : r1 <:+ rest) (h : Ok1 F r1 v r) :
    Ok1 F rest v r := ⟨h.1, h.2.1, h.2.2.trans hs⟩

theorem signed_bounds (half full n : Nat) (hf : full = 2 * half) (hn : n < full) :
    -(half : Int) ≤ signed half full n ∧ signed half full n < (half : Int) := by
  unfold signed; split <;> omega

theorem unpackTag_sound {F : Nat} {un : Bytes → Option (PyVal × Bytes)} (hun : Sound F un) (k : Nat) (hk : k < 256)
    (rest : Bytes) (v : PyVal) (r : Bytes) (h : unpackTag un k rest = some (v, r)) : Ok1 F rest v r := by
  unfold unpackTag at h
  by_cases c0 : k < 128
  · rw [if_pos c0] at h
    exact ok1_ret (packable_int (by omega) (by omega)) rfl (List.suffix_refl _) h
  rw [if_neg c0] at h
  by_cases c1 : k < 144
  · rw [if_pos c1] at h
    exact unMap_sound hun (by omega) h
  rw [if_neg c1] at h
  by_cases c2 : k < 160
  · rw [if_pos c2] at h
    exact unArr_sound hun (by omega) h
  rw [if_neg c2] at h
  by_cases c3 : k < 192
  · rw [if_pos c3] at h
    exact unStrV_sound (by omega) h
  rw [if_neg c3] at h
  by_cases c4 : k = 192
  · rw [if_pos c4] at h
    exact ok1_ret rfl rfl (List.suffix_refl _) h
  rw [if_neg c4] at h
  by_cases c5 : k = 193
  · rw [if_pos c5] at h
    cases h
  rw [if_neg c5] at h
  by_cases c6 : k = 194
  · rw [if_pos c6] at h
    exact ok1_ret rfl rfl (List.suffix_refl _) h
  rw [if_neg c6] at h
  by_cases c7 : k = 195
  · rw [if_pos c7] at h
    exact ok1_ret rfl rfl (List.suffix_refl _) h
  rw [if_neg c7] at h
  by_cases c8 : k = 196
  · rw [if_pos c8] at h
    obtain ⟨n, r1, hr, hf⟩ := andThen_some h
    obtain ⟨c1, c2, _⟩ := rd8_some hr
    exact ok1_mono c2 (unBin_sound (by omega) hf)
  rw [if_neg c8] at h
  by_cases c9 : k = 197
  · rw [if_pos c9] at h
    obtain ⟨n, r1, hr, hf⟩ := andThen_some h
    obtain ⟨c1, c2, _⟩ := rd16_some hr
    exact ok1_mono c2 (unBin_sound (by omega) hf)
  rw [if_neg c9] at h
  by_cases c10 : k = 198
  · rw [if_pos c10] at h
    obtain ⟨n, r1, hr, hf⟩ := andThen_some h
    obtain ⟨c1, c2, _⟩ := rd32_some hr
    exact ok1_mono c2 (unBin_sound (by omega) hf)
  rw [if_neg c10] at h
  by_cases c11 : k < 202
  · rw [if_pos c11] at h
    cases h
  rw [if_neg c11] at h
  by_cases c12 : k = 202
  · rw [if_pos c12] at h
    obtain ⟨n, r1, hr, hf⟩ := andThen_some h
    obtain ⟨c1, c2, _⟩ := rd32_some hr
    exact ok1_ret rfl rfl c2 hf
  rw [if_neg c12] at h
  by_cases c13 : k = 203
  · rw [if_pos c13] at h
    obtain ⟨n, r1, hr, hf⟩ := andThen_some h
    obtain ⟨c1, c2, _⟩ := rd64_some hr
    exact ok1_ret rfl rfl c2 hf
  rw [if_neg c13] at h
  by_cases c14 : k = 204
  · rw [if_pos c14] at h
    obtain ⟨n, r1, hr, hf⟩ := andThen_some h
    obtain ⟨c1, c2, _⟩ := rd8_some hr
    exact ok1_ret (packable_int (by omega) (by omega)) rfl c2 hf
  rw [if_neg c14] at h
  by_cases c15 : k = 205
  · rw [if_pos c15] at h
    obtain ⟨n, r1, hr, hf⟩ := andThen_some h
    obtain ⟨c1, c2, _⟩ := rd16_some hr
    exact ok1_ret (packable_int (by omega) (by omega)) rfl c2 hf
  rw [if_neg c15] at h
  by_cases c16 : k = 206
  · rw [if_pos c16] at h
    obtain ⟨n, r1, hr, hf⟩ := andThen_some h
    obtain ⟨c1, c2, _⟩ := rd32_some hr
    exact ok1_ret (packable_int (by omega) (by omega)) rfl c2 hf
  rw [if_neg c16] at h
  by_cases c17 : k = 207
  · rw [if_pos c17] at h
    obtain ⟨n, r1, hr, hf⟩ := andThen_some h
    obtain ⟨c1, c2, _⟩ := rd64_some hr
    exact ok1_ret (packable_int (by omega) (by omega)) rfl c2 hf
  rw [if_neg c17] at h
  by_cases c18 : k = 208
  · rw [if_pos c18] at h
    obtain ⟨n, r1, hr, hf⟩ := andThen_some h
    obtain ⟨c1, c2, _⟩ := rd8_some hr
    have := signed_bounds 128 256 n rfl c1
    exact ok1_ret (packable_int (by omega) (by omega)) rfl c2 hf
  rw [if_neg c18] at h
  by_cases c19 : k = 209
  · rw [if_pos c19] at h
    obtain ⟨n, r1, hr, hf⟩ := andThen_some h
    obtain ⟨c1, c2, _⟩ := rd16_some hr
    have := signed_bounds 32768 65536 n rfl c1
    exact ok1_ret (packable_int (by omega) (by omega)) rfl c2 hf
  rw [if_neg c19] at h
  by_cases c20 : k = 210
  · rw [if_pos c20] at h
    obtain ⟨n, r1, hr, hf⟩ := andThen_some h
    obtain ⟨c1, c2, _⟩ := rd32_some hr
    have := signed_bounds 2147483648 4294967296 n rfl c1
    exact ok1_ret (packable_int (by omega) (by omega)) rfl c2 hf
  rw [if_neg c20] at h
  by_cases c21 : k = 211
  · rw [if_pos c21] at h
    obtain ⟨n, r1, hr, hf⟩ := andThen_some h
    obtain ⟨c1, c2, _⟩ := rd64_some hr
    have := signed_bounds 9223372036854775808 18446744073709551616 n rfl c1
    exact ok1_ret (packable_int (by omega) (by omega)) rfl c2 hf
  rw [if_neg c21] at h
  by_cases c22 : k < 217
  · rw [if_pos c22] at h
    cases h
  rw [if_neg c22] at h
  by_cases c23 : k = 217
  · rw [if_pos c23] at h
    obtain ⟨n, r1, hr, hf⟩ := andThen_some h
    obtain ⟨c1, c2, _⟩ := rd8_some hr
    exact ok1_mono c2 (unStrV_sound (by omega) hf)
  rw [if_neg c23] at h
  by_cases c24 : k = 218
  · rw [if_pos c24] at h
    obtain ⟨n, r1, hr, hf⟩ := andThen_some h
    obtain ⟨c1, c2, _⟩ := rd16_some hr
    exact ok1_mono c2 (unStrV_sound (by omega) hf)
  rw [if_neg c24] at h
  by_cases c25 : k = 219
  · rw [if_pos c25] at h
    obtain ⟨n, r1, hr, hf⟩ := andThen_some h
    obtain ⟨c1, c2, _⟩ := rd32_some hr
    exact ok1_mono c2 (unStrV_sound (by omega) hf)
  rw [if_neg c25] at h
  by_cases c26 : k = 220
  · rw [if_pos c26] at h
    obtain ⟨n, r1, hr, hf⟩ := andThen_some h
    obtain ⟨c1, c2, _⟩ := rd16_some hr
    exact ok1_mono c2 (unArr_sound hun (by omega) hf)
  rw [if_neg c26] at h
  by_cases c27 : k = 221
  · rw [if_pos c27] at h
    obtain ⟨n, r1, hr, hf⟩ := andThen_some h
    obtain ⟨c1, c2, _⟩ := rd32_some hr
    exact ok1_mono c2 (unArr_sound hun (by omega) hf)
  rw [if_neg c27] at h
  by_cases c28 : k = 222
  · rw [if_pos c28] at h
    obtain ⟨n, r1, hr, hf⟩ := andThen_some h
    obtain ⟨c1, c2, _⟩ := rd16_some hr
    exact ok1_mono c2 (unMap_sound hun (by omega) hf)
  rw [if_neg c28] at h
  by_cases c29 : k = 223
  · rw [if_pos c29] at h
    obtain ⟨n, r1, hr, hf⟩ := andThen_some h
    obtain ⟨c1, c2, _⟩ := rd32_some hr
    exact ok1_mono c2 (unMap_sound hun (by omega) hf)
  rw [if_neg c29] at h
  exact ok1_ret (packable_int (by omega) (by omega)) rfl (List.suffix_refl _) h


/-- **Whatever the decoder reads, from any bytes, is a value of the encoder's domain**: integers in
`[-2^63, 2^64)`, sizes below `2^32`, nesting at most the fuel; and it is read from a non-empty
prefix of the buffer, the rest is handed back untouched. -/
theorem unpack_sound : ∀ (fuel : Nat), Sound fuel (unpack fuel)
  | 0 => by
    intro bs v r h
    simp only [unpack] at h
    cases h
  | fuel + 1 => by
    intro bs v r h
    rw [unpack_succ] at h
    match bs, h with
    | t :: rest, h =>
      rw [unpackHd_cons] at h
      obtain ⟨a, b, c⟩ := unpackTag_sound (unpack_sound fuel) t.toNat t.toNat_lt rest v r h
      have := c.length_le
      exact ⟨a, b, c.trans (List.suffix_cons _ _), by simp only [List.length_cons]; omega⟩

end MsgPack
