import OrsoVerif.Generated.SchemaFns
import OrsoVerif.Model.SchemaOps
/-!
# C17 — the functions generated from `orso/schema.py` equal the hand-written model

`Gen.SchemaFns.*` is produced by `harness/pystmt.py` from the source of the working tree on every run.
The lemmas here relate the shapes the translator emits (`List.find?`, `zipIdx`, `foldl`, `flatMap`) to
the structurally recursive definitions of `Model/SchemaOps.lean`; `Props/C17.lean` states the
equalities themselves.
-/
set_option linter.unusedSectionVars false
namespace SchemaFnsLemmas
open SchemaOps

variable {ι ν : Type} [DecidableEq ι] [DecidableEq ν]

theorem all_names_eq (c : Col ι ν) : Gen.SchemaFns.all_names c = c.allNames := by
  unfold Gen.SchemaFns.all_names Col.allNames
  cases h : c.aliases with
  | none => simp
  | some as => simp [Gen.SchemaOps.aliasesFirst]

theorem findCol_eq_find? (norm : ν → ν) (k : ν) (cols : List (Col ι ν)) :
    findCol norm k cols = cols.find? (fun c => c.bears norm k) := by
  induction cols with
  | nil => rfl
  | cons c cs ih =>
    simp only [findCol, List.find?_cons]
    cases h : c.bears norm k <;> simp [ih]

theorem findCol_id (k : ν) (cols : List (Col ι ν)) :
    findCol id k cols = cols.find? (fun c => decide (k ∈ c.allNames)) := by
  rw [findCol_eq_find?]
  congr 1
  funext c
  simp [Col.bears]

theorem findCol_norm (norm : ν → ν) (k : ν) (cols : List (Col ι ν)) :
    findCol norm k cols = cols.find? (fun c => decide (norm k ∈ c.allNames.map (fun x => norm x))) := by
  rw [findCol_eq_find?]
  rfl

theorem match_find?_id {α : Type} (o : Option α) :
    (match o with | some x => some x | none => none) = o := by
  cases o <;> rfl

/-- the `zipIdx`/`find?`/`pop(idx)` shape of `pop_column`, for a column list that follows a prefix -/
theorem pop_shape (k : ν) (cols pre : List (Col ι ν)) :
    (match (cols.zipIdx pre.length).find? (fun x => decide (x.1.name = k)) with
      | some (_, idx) => ((pre ++ cols)[idx]?, (pre ++ cols).eraseIdx idx)
      | none => (none, pre ++ cols))
    = ((popCol k cols).1, pre ++ (popCol k cols).2) := by
  induction cols generalizing pre with
  | nil => simp [popCol]
  | cons c cs ih =>
    simp only [List.zipIdx_cons, List.find?_cons, popCol]
    by_cases h : c.name = k
    · simp [h, List.eraseIdx_append_of_length_le]
    · have := ih (pre ++ [c])
      simp only [List.length_append, List.length_cons, List.length_nil, List.append_assoc,
        List.cons_append, List.nil_append] at this
      simp only [h, decide_false, if_false]
      simpa using this

theorem unionLoop_eq_foldl (cs : List (Col ι ν)) (seen : List ι) (acc : List (Col ι ν)) :
    (cs.foldl (fun (st : List ι × List (Col ι ν)) column =>
        if column.identity ∉ st.1 then (st.1 ++ [column.identity], st.2 ++ [column]) else (st.1, st.2))
      (seen, acc)).2 = unionLoop seen acc cs := by
  induction cs generalizing seen acc with
  | nil => rfl
  | cons c cs ih =>
    simp only [List.foldl_cons, unionLoop]
    by_cases h : c.identity ∈ seen
    · simp only [h, not_true_eq_false, if_false, if_true]
      exact ih seen acc
    · simp only [h, not_false_eq_true, if_true, if_false]
      exact ih _ _

theorem allColumnNames_eq_flatMap (cols : List (Col ι ν)) :
    allColumnNames cols = cols.flatMap (fun c => c.allNames) := by
  induction cols with
  | nil => rfl
  | cons c cs ih => simp [allColumnNames, ih]

end SchemaFnsLemmas
