import OrsoVerif.Model.SchemaOps
import OrsoVerif.Lemmas.SchemaOps
/-!
# C17 — general lemmas that tie the *shapes* emitted by `harness/pystmt.py` to the model

`Gen.SchemaFns.*` is produced from `orso/schema.py` on every run.  Nothing here mentions a generated
definition (so this file builds whatever the source says); `Props/C17.lean` states and proves the
equalities `Gen.SchemaFns.f = model f`.

The lemmas are *semantic* about the pieces a translation is made of: they take the loop's step function or
the search predicate as a variable together with a pointwise hypothesis (`∀ st c, step st c = …`,
`∀ c, p c = decide (c.name = k)`), which `simp` discharges for whatever spelling the source uses (`not x in` /
`x not in`, `continue` / nested `if`, renamed locals, swapped operands of `==`).
-/
set_option linter.unusedSectionVars false
namespace SchemaFnsLemmas
open SchemaOps

variable {ι ν : Type} [DecidableEq ι] [DecidableEq ν]

/-! ### `find_column` -/

theorem bears_id (c : Col ι ν) (k : ν) : c.bears id k = decide (k ∈ c.allNames) := by
  simp [Col.bears]

theorem findCol_id (k : ν) (cols : List (Col ι ν)) :
    findCol id k cols = cols.find? (fun c => decide (k ∈ c.allNames)) := by
  rw [findCol_eq_find?]
  congr 1
  funext c
  simp [Col.bears]

theorem findCol_norm (norm : ν → ν) (k : ν) (cols : List (Col ι ν)) :
    findCol norm k cols = cols.find? (fun c => decide (norm k ∈ c.allNames.map (fun x => norm x))) := by
  rw [findCol_eq_find?]
  rfl

/-- a search whose predicate is pointwise the "bears the key" test is the model's lookup -/
theorem find?_eq_findCol (norm : ν → ν) (k : ν) (p : Col ι ν → Bool) (cols : List (Col ι ν))
    (hp : ∀ c, p c = c.bears norm k) : cols.find? p = findCol norm k cols := by
  rw [findCol_eq_find?]
  congr 1
  funext c
  exact hp c

/-- a search over `enumerate(xs)` (`zipIdx`) whose test looks at the element only is the search over `xs`
(`for n in range(len(xs)): if p(xs[n]): return xs[n]`) -/
theorem find?_zipIdx_fst {α : Type} (q : α × Nat → Bool) (p : α → Bool) (hq : ∀ x, q x = p x.1) (l : List α) (k : Nat) :
    ((l.zipIdx k).find? q).map (·.1) = l.find? p := by
  induction l generalizing k with
  | nil => simp
  | cons x xs ih =>
    simp only [List.zipIdx_cons, List.find?_cons, hq]
    cases p x <;> simp [ih]

theorem zipIdx_find?_some {α : Type} (q : α × Nat → Bool) (p : α → Bool) (hq : ∀ x, q x = p x.1) (l : List α) (c : α) (i : Nat)
    (h : l.zipIdx.find? q = some (c, i)) : l.find? p = some c := by
  rw [← find?_zipIdx_fst q p hq l 0, h]; rfl

theorem zipIdx_find?_none {α : Type} (q : α × Nat → Bool) (p : α → Bool) (hq : ∀ x, q x = p x.1) (l : List α)
    (h : l.zipIdx.find? q = none) : l.find? p = none := by
  rw [← find?_zipIdx_fst q p hq l 0, h]; rfl

theorem match_find?_id {α : Type} (o : Option α) :
    (match o with | some x => some x | none => none) = o := by
  cases o <;> rfl

/-! ### `pop_column` -/

/-- the `zipIdx`/`find?`/`pop(idx)` shape of `pop_column`, for a column list that follows a prefix -/
theorem pop_shape (k : ν) (cols pre : List (Col ι ν)) :
    (match (cols.zipIdx pre.length).find? (fun x => decide (x.1.name = k)) with
      | some (_, idx) => ((pre ++ cols)[idx]?, (pre ++ cols).eraseIdx idx)
      | none => (none, pre ++ cols))
    = ((popCol k cols).1, pre ++ (popCol k cols).2) := by
  induction cols generalizing pre with
  | nil => simp [popCol]
  | cons c cs ih =>
    simp only [List.zipIdx_cons, List.find?_cons, popCol]
    by_cases h : c.name = k
    · simp [h, List.eraseIdx_append_of_length_le]
    · have := ih (pre ++ [c])
      simp only [List.length_append, List.length_cons, List.length_nil, List.append_assoc,
        List.cons_append, List.nil_append] at this
      simp only [h, decide_false, if_false]
      simpa using this

/-- `enumerate` + first match, with any spelling `p` of the test "is named `k`": a hit `(c, i)` is the model's
removal — `cols[i]` is `c`, the first column named `k`, and erasing position `i` leaves what the model leaves. -/
theorem pop_of_zipIdx (k : ν) (p : Col ι ν × Nat → Bool) (hp : ∀ x, p x = decide (x.1.name = k))
    (cols : List (Col ι ν)) :
    (∀ c i, cols.zipIdx.find? p = some (c, i) →
        cols[i]? = some c ∧ popCol k cols = (some c, cols.eraseIdx i))
    ∧ (cols.zipIdx.find? p = none → popCol k cols = (none, cols)) := by
  have hp' : p = (fun x => decide (x.1.name = k)) := funext hp
  subst hp'
  have h := pop_shape k cols []
  simp only [List.length_nil, List.nil_append] at h
  constructor
  · intro c i hci
    rw [hci] at h
    have h' : (cols[i]?, cols.eraseIdx i) = ((popCol k cols).1, (popCol k cols).2) := h
    have h1 : (popCol k cols).1 = cols[i]? := (congrArg Prod.fst h').symm
    have h2 : (popCol k cols).2 = cols.eraseIdx i := (congrArg Prod.snd h').symm
    have hm := List.mem_of_find?_eq_some hci
    have hi := List.mem_zipIdx hm
    have hc : cols[i]? = some c := by
      have := hi.2.2
      simp only [Nat.sub_zero] at this
      have hlt : i < cols.length := by have := hi.2.1; omega
      rw [List.getElem?_eq_getElem hlt, this]
    refine ⟨hc, ?_⟩
    rw [← hc, ← h1, ← h2]
  · intro hn
    rw [hn] at h
    have h' : ((none : Option (Col ι ν)), cols) = ((popCol k cols).1, (popCol k cols).2) := h
    exact h'.symm

/-- first match + `list.remove(column)`, with any spelling `p` of the test "is named `k`" -/
theorem pop_of_find (k : ν) (p : Col ι ν → Bool) (hp : ∀ c, p c = decide (c.name = k)) (cols : List (Col ι ν)) :
    (∀ c, cols.find? p = some c → popCol k cols = (some c, cols.erase c))
    ∧ (cols.find? p = none → popCol k cols = (none, cols)) := by
  have hp' : p = (fun c => decide (c.name = k)) := funext hp
  subst hp'
  induction cols with
  | nil => simp [popCol]
  | cons x xs ih =>
    by_cases hx : x.name = k
    · simp [popCol, hx]
    · constructor
      · intro c hc
        simp only [List.find?_cons, hx, decide_false] at hc
        have hne : x ≠ c := by
          intro e
          have := List.find?_some hc
          simp only [decide_eq_true_eq] at this
          exact hx (e ▸ this)
        have h1 := ih.1 c hc
        simp only [popCol, hx, if_false, h1]
        rw [List.erase_cons_tail (by simpa using hne)]
      · intro hn
        simp only [List.find?_cons, hx, decide_false] at hn
        have h1 := ih.2 hn
        simp [popCol, hx, h1]

/-! ### `__add__` -/

theorem unionLoop_eq_foldl (cs : List (Col ι ν)) (seen : List ι) (acc : List (Col ι ν)) :
    (cs.foldl (fun (st : List ι × List (Col ι ν)) column =>
        if column.identity ∉ st.1 then (st.1 ++ [column.identity], st.2 ++ [column]) else (st.1, st.2))
      (seen, acc)).2 = unionLoop seen acc cs := by
  induction cs generalizing seen acc with
  | nil => rfl
  | cons c cs ih =>
    simp only [List.foldl_cons, unionLoop]
    by_cases h : c.identity ∈ seen
    · simp only [h, not_true_eq_false, if_false, if_true]
      exact ih seen acc
    · simp only [h, not_false_eq_true, if_true, if_false]
      exact ih _ _

/-- The accumulating loop of `__add__` with *any* step function that, pointwise, skips a column whose identity
was seen and otherwise records the identity and appends the column: both components of the final state. -/
theorem foldl_union (step : List ι × List (Col ι ν) → Col ι ν → List ι × List (Col ι ν))
    (hstep : ∀ st c, step st c = if c.identity ∈ st.1 then st else (st.1 ++ [c.identity], st.2 ++ [c]))
    (cs : List (Col ι ν)) (seen : List ι) (acc : List (Col ι ν)) :
    cs.foldl step (seen, acc) = (seen ++ ids (news seen cs), acc ++ news seen cs) := by
  induction cs generalizing seen acc with
  | nil => simp [news, ids]
  | cons c cs ih =>
    simp only [List.foldl_cons, hstep, news]
    by_cases h : c.identity ∈ seen
    · simp only [h, if_true]
      exact ih seen acc
    · simp only [h, if_false]
      rw [ih]
      simp [ids]

/-- the same loop when the state is written (new_columns, seen) -/
theorem foldl_union_swapped (step : List (Col ι ν) × List ι → Col ι ν → List (Col ι ν) × List ι)
    (hstep : ∀ st c, step st c = if c.identity ∈ st.2 then st else (st.1 ++ [c], st.2 ++ [c.identity]))
    (cs : List (Col ι ν)) (seen : List ι) (acc : List (Col ι ν)) :
    cs.foldl step (acc, seen) = (acc ++ news seen cs, seen ++ ids (news seen cs)) := by
  induction cs generalizing seen acc with
  | nil => simp [news, ids]
  | cons c cs ih =>
    simp only [List.foldl_cons, hstep, news]
    by_cases h : c.identity ∈ seen
    · simp only [h, if_true]
      exact ih seen acc
    · simp only [h, if_false]
      rw [ih]
      simp [ids]

/-- the loop when the seen identities are the *keys of a dict* (an association list, whatever the values): stated
through what a step does to the keys and to the columns, so that it holds for any value stored -/
theorem foldl_union_keyed {β : Type} (step : List (ι × β) × List (Col ι ν) → Col ι ν → List (ι × β) × List (Col ι ν))
    (hstep : ∀ st c, (c.identity ∈ st.1.map (·.1) → step st c = st) ∧
      (c.identity ∉ st.1.map (·.1) → (step st c).2 = st.2 ++ [c] ∧ (step st c).1.map (·.1) = st.1.map (·.1) ++ [c.identity]))
    (cs : List (Col ι ν)) (seen : List (ι × β)) (acc : List (Col ι ν)) :
    (cs.foldl step (seen, acc)).2 = acc ++ news (seen.map (·.1)) cs := by
  induction cs generalizing seen acc with
  | nil => simp [news]
  | cons c cs ih =>
    simp only [List.foldl_cons, news]
    by_cases h : c.identity ∈ seen.map (·.1)
    · rw [(hstep (seen, acc) c).1 h]
      simp only [h, if_true]
      exact ih seen acc
    · obtain ⟨h2, h1⟩ := (hstep (seen, acc) c).2 h
      have : step (seen, acc) c = ((step (seen, acc) c).1, (step (seen, acc) c).2) := rfl
      rw [this, ih, h1, h2]
      simp [h]

theorem union_eq (a b : Schema ι ν) :
    union a b = { name := a.name, aliases := a.aliases, columns := a.columns ++ news (ids a.columns) b.columns } := by
  simp [union, unionLoop_eq]

/-! ### accumulating loops that are maps -/

theorem foldl_append_singleton {α β : Type} (f : α → β) (step : List β → α → List β)
    (hstep : ∀ acc x, step acc x = acc ++ [f x]) (l : List α) (init : List β) :
    l.foldl step init = init ++ l.map f := by
  induction l generalizing init with
  | nil => simp
  | cons x xs ih => simp [List.foldl_cons, hstep, ih]

theorem foldl_append_list {α β : Type} (f : α → List β) (step : List β → α → List β)
    (hstep : ∀ acc x, step acc x = acc ++ f x) (l : List α) (init : List β) :
    l.foldl step init = init ++ l.flatMap f := by
  induction l generalizing init with
  | nil => simp
  | cons x xs ih => simp [List.foldl_cons, hstep, ih, List.flatMap_cons]

theorem allColumnNames_eq_flatMap (cols : List (Col ι ν)) :
    allColumnNames cols = cols.flatMap (fun c => c.allNames) := by
  induction cols with
  | nil => rfl
  | cons c cs ih => simp [allColumnNames, ih]

end SchemaFnsLemmas
