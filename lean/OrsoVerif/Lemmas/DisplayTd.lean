import OrsoVerif.Model.DisplayTd
/-! Lemmas about the timedelta64 arithmetic of `numpy_type_mapper` as extracted (`Gen.DisplayTd`). -/
namespace DisplayTd
open Gen.DisplayTd

/-- The quotient `float(numer) / denom` of the source is, in exact arithmetic, `t · step · len / per`
seconds: `common` is positive, `denom` is positive, cross-multiplication is exact and the numerator is
no larger than the uncancelled product. -/
theorem quotient_exact (t step len per : Int) (hper : 0 < per) :
    0 < common step len per
    ∧ 0 < denom per (common step len per)
    ∧ numer t step len (common step len per) * per = t * step * len * denom per (common step len per)
    ∧ (numer t step len (common step len per)).natAbs ≤ (t * step * len).natAbs := by
  simp only [common, numer, denom, igcd]
  have hne : per ≠ 0 := by omega
  have hc : (0 : Int) < ((Int.gcd (step * len) per : Nat) : Int) := by
    exact_mod_cast Int.gcd_pos_of_ne_zero_right (step * len) hne
  have hdl := Int.gcd_dvd_left (step * len) per
  have hdr := Int.gcd_dvd_right (step * len) per
  generalize ((Int.gcd (step * len) per : Nat) : Int) = g at hc hdl hdr
  rw [Int.fdiv_eq_ediv_of_nonneg _ (Int.le_of_lt hc), Int.fdiv_eq_ediv_of_nonneg _ (Int.le_of_lt hc)]
  have hd : 0 < per / g := Int.ediv_pos_of_pos_of_dvd hper (Int.le_of_lt hc) hdr
  obtain ⟨a', ha⟩ := hdl
  obtain ⟨p', hp⟩ := hdr
  have hgne : g ≠ 0 := by omega
  have e1 : step * len / g = a' := by rw [ha, Int.mul_ediv_cancel_left _ hgne]
  have e2 : per / g = p' := by rw [hp, Int.mul_ediv_cancel_left _ hgne]
  refine ⟨hc, hd, ?_, ?_⟩
  · rw [e1, e2, Int.mul_assoc t step len, ha, hp]; ac_rfl
  · rw [e1, Int.mul_assoc t step len, ha, Int.natAbs_mul, Int.natAbs_mul, Int.natAbs_mul]
    have hg1 : 1 ≤ g.natAbs := by omega
    calc t.natAbs * a'.natAbs = t.natAbs * (1 * a'.natAbs) := by rw [Nat.one_mul]
      _ ≤ t.natAbs * (g.natAbs * a'.natAbs) := Nat.mul_le_mul_left _ (Nat.mul_le_mul_right _ hg1)

/-- Magnitude of the uncancelled product for a 64-bit count, a step that fits numpy's C `int` and a tick
length of at most a week. -/
theorem product_bound (raw step len : Int) (hraw : raw.natAbs ≤ 2 ^ 63) (hstep : step.natAbs < 2 ^ 31)
    (hlen : len.natAbs ≤ 604800) : (raw * step * len).natAbs < 2 ^ 114 := by
  rw [Int.natAbs_mul, Int.natAbs_mul]
  have h1 : raw.natAbs * step.natAbs ≤ 2 ^ 63 * 2 ^ 31 := Nat.mul_le_mul hraw (Nat.le_of_lt hstep)
  have h2 : raw.natAbs * step.natAbs * len.natAbs ≤ 2 ^ 63 * 2 ^ 31 * 604800 := Nat.mul_le_mul h1 hlen
  exact Nat.lt_of_le_of_lt h2 (by decide)

/-- The seconds branch of `mapTd` for a unit found in the seconds table only. -/
theorem mapTd_seconds (u : String) (len per : Int) (h1 : monthsTable.lookup u = none)
    (h2 : secondsTable.lookup u = some (len, per)) (hper : 0 < per) (step raw : Int) :
    ∃ n d, mapTd u step raw = .seconds n d ∧ 0 < d ∧ n * per = raw * step * len * d
      ∧ n.natAbs ≤ (raw * step * len).natAbs := by
  obtain ⟨hc, hd, hx, hb⟩ := quotient_exact (ticks raw) step len per hper
  refine ⟨numer (ticks raw) step len (common step len per), denom per (common step len per), ?_, hd, ?_, ?_⟩
  · simp only [mapTd, h1, h2]; rw [if_neg (by omega), if_neg (by omega)]
  · simpa [ticks] using hx
  · simpa [ticks] using hb

/-- Where numpy's own 64-bit conversion succeeds, `mapTd` forms the same numerator and denominator. -/
theorem pinned_agrees_aux (u : String) (len per : Int) (h1 : monthsTable.lookup u = none)
    (h2 : secondsTable.lookup u = some (len, per)) (h3 : specSeconds.lookup u = some (len, per)) (hper : 0 < per)
    (step raw n d : Int) (h : pinnedSeconds u step raw = some (n, d)) : mapTd u step raw = .seconds n d := by
  obtain ⟨hc, hd, _, _⟩ := quotient_exact (ticks raw) step len per hper
  simp only [pinnedSeconds, h3] at h
  split at h
  · cases h
  · split at h
    · injection h with h; injection h with hn hdd
      simp only [mapTd, h1, h2]
      rw [if_neg (by omega), if_neg (by omega)]
      simp only [common, igcd] at hc
      simp only [numer, denom, common, ticks, id, Int.fdiv_eq_ediv_of_nonneg _ (Int.le_of_lt hc), ← hn, ← hdd, igcd]
    · cases h

end DisplayTd
