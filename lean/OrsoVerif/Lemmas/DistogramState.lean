import OrsoVerif.Lemmas.Distogram
/-!
# State-level invariants of the reference histogram machine and the ledger of a history
-/
namespace Distogram
set_option linter.unusedSectionVars false

variable {K : Type} [Field K] [LinearOrder K] [IsStrictOrderedRing K]

/-- The invariants of a histogram state (what C13 asserts of the bins, and what C14 assumes). -/
structure Inv (s : RState K) : Prop where
  inc : Inc s.bins
  pos : Pos s.bins
  len : s.bins.length ≤ s.cap
  cap : 1 ≤ s.cap
  minNone : s.min = none → s.bins = []
  maxNone : s.max = none → s.bins = []
  within : ∀ m M, s.min = some m → s.max = some M → Within m M s.bins

/-- `o` is exactly the minimum of the list `B` (`none` iff nothing was inserted). -/
def IsMinOf (o : Option K) (B : List K) : Prop :=
  match o with
  | none => B = []
  | some m => m ∈ B ∧ ∀ b ∈ B, m ≤ b

/-- `o` is exactly the maximum of the list `B`. -/
def IsMaxOf (o : Option K) (B : List K) : Prop :=
  match o with
  | none => B = []
  | some m => m ∈ B ∧ ∀ b ∈ B, b ≤ m

theorem mass_append (a b : List (K × K)) : mass (a ++ b) = mass a + mass b := by
  simp [mass, List.map_append, List.sum_append]

theorem wsum_append (a b : List (K × K)) : wsum (a ++ b) = wsum a + wsum b := by
  simp [wsum, List.map_append, List.sum_append]

/-! ## bounds bookkeeping -/

theorem minO_le_val (o : Option K) (v : K) : minO o v ≤ v := by
  cases o with
  | none => simp [minO]
  | some x =>
    simp only [minO]
    split
    · exact le_refl _
    · rename_i h; exact not_lt.mp h

theorem minO_le_old (x v : K) : minO (some x) v ≤ x := by
  simp only [minO]
  split
  · rename_i h; exact le_of_lt h
  · exact le_refl _

theorem val_le_maxO (o : Option K) (v : K) : v ≤ maxO o v := by
  cases o with
  | none => simp [maxO]
  | some x =>
    simp only [maxO]
    split
    · exact le_refl _
    · rename_i h; exact not_lt.mp h

theorem old_le_maxO (x v : K) : x ≤ maxO (some x) v := by
  simp only [maxO]
  split
  · rename_i h; exact le_of_lt h
  · exact le_refl _

theorem isMinOf_minO {o : Option K} {B : List K} (h : IsMinOf o B) (v : K) :
    IsMinOf (some (minO o v)) (B ++ [v]) := by
  cases o with
  | none =>
    simp only [IsMinOf] at h
    subst h
    simp [IsMinOf, minO]
  | some x =>
    obtain ⟨hx, hall⟩ := h
    simp only [IsMinOf, minO]
    split
    · rename_i hlt
      refine ⟨by simp, ?_⟩
      intro b hb
      simp only [List.mem_append, List.mem_singleton] at hb
      rcases hb with hb | hb
      · exact le_trans (le_of_lt hlt) (hall b hb)
      · rw [hb]
    · rename_i hge
      refine ⟨by simp [hx], ?_⟩
      intro b hb
      simp only [List.mem_append, List.mem_singleton] at hb
      rcases hb with hb | hb
      · exact hall b hb
      · rw [hb]; exact not_lt.mp hge

theorem isMaxOf_maxO {o : Option K} {B : List K} (h : IsMaxOf o B) (v : K) :
    IsMaxOf (some (maxO o v)) (B ++ [v]) := by
  cases o with
  | none =>
    simp only [IsMaxOf] at h
    subst h
    simp [IsMaxOf, maxO]
  | some x =>
    obtain ⟨hx, hall⟩ := h
    simp only [IsMaxOf, maxO]
    split
    · rename_i hlt
      refine ⟨by simp, ?_⟩
      intro b hb
      simp only [List.mem_append, List.mem_singleton] at hb
      rcases hb with hb | hb
      · exact le_trans (hall b hb) (le_of_lt hlt)
      · rw [hb]
    · rename_i hge
      refine ⟨by simp [hx], ?_⟩
      intro b hb
      simp only [List.mem_append, List.mem_singleton] at hb
      rcases hb with hb | hb
      · exact hall b hb
      · rw [hb]; exact not_lt.mp hge

/-- Combining a running minimum over `B ++ vs` with the exact minimum `mt` of `B'`, when `mt`
bounds the extra values `vs` (bin centres of the other histogram / inserted midpoints). -/
theorem isMinOf_combine {o : Option K} {B vs B' : List K} {mt : K}
    (h : IsMinOf o (B ++ vs)) (h' : IsMinOf (some mt) B') (hv : ∀ v ∈ vs, mt ≤ v) :
    IsMinOf (optMin o (some mt)) (B ++ B') := by
  obtain ⟨hm, hall'⟩ := h'
  cases o with
  | none =>
    simp only [IsMinOf] at h
    have hB : B = [] := (List.append_eq_nil_iff.mp h).1
    subst hB
    simpa [optMin, IsMinOf] using ⟨hm, hall'⟩
  | some x =>
    obtain ⟨hx, hall⟩ := h
    simp only [optMin, IsMinOf]
    split
    · rename_i hlt
      refine ⟨by simp [hm], ?_⟩
      intro b hb
      simp only [List.mem_append] at hb
      rcases hb with hb | hb
      · exact le_trans (le_of_lt hlt) (hall b (by simp [hb]))
      · exact hall' b hb
    · rename_i hge
      have hxm : x ≤ mt := not_lt.mp hge
      refine ⟨?_, ?_⟩
      · simp only [List.mem_append] at hx ⊢
        rcases hx with hx | hx
        · exact Or.inl hx
        · have : x = mt := le_antisymm hxm (hv x hx)
          rw [this]; exact Or.inr hm
      · intro b hb
        simp only [List.mem_append] at hb
        rcases hb with hb | hb
        · exact hall b (by simp [hb])
        · exact le_trans hxm (hall' b hb)

theorem isMaxOf_combine {o : Option K} {B vs B' : List K} {mt : K}
    (h : IsMaxOf o (B ++ vs)) (h' : IsMaxOf (some mt) B') (hv : ∀ v ∈ vs, v ≤ mt) :
    IsMaxOf (optMax o (some mt)) (B ++ B') := by
  obtain ⟨hm, hall'⟩ := h'
  cases o with
  | none =>
    simp only [IsMaxOf] at h
    have hB : B = [] := (List.append_eq_nil_iff.mp h).1
    subst hB
    simpa [optMax, IsMaxOf] using ⟨hm, hall'⟩
  | some x =>
    obtain ⟨hx, hall⟩ := h
    simp only [optMax, IsMaxOf]
    split
    · rename_i hlt
      refine ⟨by simp [hm], ?_⟩
      intro b hb
      simp only [List.mem_append] at hb
      rcases hb with hb | hb
      · exact le_trans (hall b (by simp [hb])) (le_of_lt hlt)
      · exact hall' b hb
    · rename_i hge
      have hxm : mt ≤ x := not_lt.mp hge
      refine ⟨?_, ?_⟩
      · simp only [List.mem_append] at hx ⊢
        rcases hx with hx | hx
        · exact Or.inl hx
        · have : x = mt := le_antisymm (hv x hx) hxm
          rw [this]; exact Or.inr hm
      · intro b hb
        simp only [List.mem_append] at hb
        rcases hb with hb | hb
        · exact hall b (by simp [hb])
        · exact le_trans (hall' b hb) hxm

theorem optMin_some_eq_minO (o : Option K) (lo : K) : optMin o (some lo) = some (minO o lo) := by
  cases o <;> simp [optMin, minO]

theorem optMax_some_eq_maxO (o : Option K) (hi : K) : optMax o (some hi) = some (maxO o hi) := by
  cases o <;> simp [optMax, maxO]

/-! ## one update -/

theorem updateRef_cap (s : RState K) (v c : K) : (updateRef s v c).cap = s.cap := rfl
theorem updateRef_min (s : RState K) (v c : K) : (updateRef s v c).min = some (minO s.min v) := rfl
theorem updateRef_max (s : RState K) (v c : K) : (updateRef s v c).max = some (maxO s.max v) := rfl

theorem insert_within (s : RState K) (hs : Inv s) (v c : K) :
    Within (minO s.min v) (maxO s.max v) (insertRef v c s.bins) := by
  intro x hx
  rcases insertRef_mem v c s.bins x hx with h | ⟨y, hy, hyx⟩
  · rw [h]; exact ⟨minO_le_val _ _, val_le_maxO _ _⟩
  · cases hmin : s.min with
    | none => have := hs.minNone hmin; rw [this] at hy; simp at hy
    | some m =>
      cases hmax : s.max with
      | none => have := hs.maxNone hmax; rw [this] at hy; simp at hy
      | some M =>
        have hw := hs.within m M hmin hmax y hy
        rw [← hyx]
        exact ⟨le_trans (minO_le_old m v) hw.1, le_trans hw.2 (old_le_maxO M v)⟩

theorem updateRef_inv (s : RState K) (hs : Inv s) (v c : K) (hc : 0 < c) : Inv (updateRef s v c) := by
  have hi := insertRef_inc v c s.bins hs.inc
  have hp := insertRef_pos v c hc s.bins hs.pos
  have hw := insert_within s hs v c
  obtain ⟨ti, tp, tw⟩ := trimRef_induct (Within (minO s.min v) (maxO s.max v))
    (fun i l hi hp h => mergeAt_within i l hi hp h) s.cap (insertRef v c s.bins).length _ hi hp hw
  refine ⟨ti, tp, ?_, hs.cap, ?_, ?_, ?_⟩
  · exact trimRef_length s.cap hs.cap _ _ (by omega)
  · intro h; simp [updateRef] at h
  · intro h; simp [updateRef] at h
  · intro m M hm hM
    simp only [updateRef, Option.some.injEq] at hm hM
    subst hm; subst hM
    exact tw

theorem updateRef_mass (s : RState K) (hs : Inv s) (v c : K) (hc : 0 < c) :
    mass (updateRef s v c).bins = mass s.bins + c := by
  have hi := insertRef_inc v c s.bins hs.inc
  have hp := insertRef_pos v c hc s.bins hs.pos
  obtain ⟨_, _, h⟩ := trimRef_induct (fun l => mass l = mass s.bins + c)
    (fun i l _ _ h => by rw [mergeAt_mass]; exact h) s.cap (insertRef v c s.bins).length _ hi hp
    (insertRef_mass v c s.bins)
  exact h

theorem updateRef_wsum (s : RState K) (hs : Inv s) (v c : K) (hc : 0 < c) :
    wsum (updateRef s v c).bins = wsum s.bins + v * c := by
  have hi := insertRef_inc v c s.bins hs.inc
  have hp := insertRef_pos v c hc s.bins hs.pos
  obtain ⟨_, _, h⟩ := trimRef_induct (fun l => wsum l = wsum s.bins + v * c)
    (fun i l hi hp h => by rw [mergeAt_wsum i l hi hp]; exact h) s.cap (insertRef v c s.bins).length _ hi hp
    (insertRef_wsum v c s.bins)
  exact h

/-! ## folding updates (merge, +, bulk load) -/

theorem mergeRef_nil (s : RState K) : mergeRef s [] = s := rfl
theorem mergeRef_cons (s : RState K) (b : K × K) (bs : List (K × K)) :
    mergeRef s (b :: bs) = mergeRef (updateRef s b.1 b.2) bs := rfl

theorem mergeRef_facts : ∀ (bs : List (K × K)) (s : RState K) (B : List K), Inv s → Pos bs →
    IsMinOf s.min B → IsMaxOf s.max B →
    Inv (mergeRef s bs) ∧ (mergeRef s bs).cap = s.cap ∧
    mass (mergeRef s bs).bins = mass s.bins + mass bs ∧
    wsum (mergeRef s bs).bins = wsum s.bins + wsum bs ∧
    IsMinOf (mergeRef s bs).min (B ++ bs.map (fun b => b.1)) ∧
    IsMaxOf (mergeRef s bs).max (B ++ bs.map (fun b => b.1))
  | [], s, B, hs, _, hmin, hmax => by
    simp only [mergeRef_nil, List.map_nil, List.append_nil]
    refine ⟨hs, ?_, ?_, ?_, hmin, hmax⟩ <;> simp [mass, wsum]
  | b :: bs, s, B, hs, hp, hmin, hmax => by
    have hb : 0 < b.2 := hp b (by simp)
    have hp' : Pos bs := fun x hx => hp x (by simp [hx])
    have h1 := updateRef_inv s hs b.1 b.2 hb
    obtain ⟨i, c, m, w, mn, mx⟩ := mergeRef_facts bs (updateRef s b.1 b.2) (B ++ [b.1]) h1 hp'
      (by rw [updateRef_min]; exact isMinOf_minO hmin b.1)
      (by rw [updateRef_max]; exact isMaxOf_maxO hmax b.1)
    rw [mergeRef_cons]
    refine ⟨i, by rw [c, updateRef_cap], ?_, ?_, ?_, ?_⟩
    · rw [m, updateRef_mass s hs b.1 b.2 hb]; simp only [mass, List.map_cons, List.sum_cons]; ring
    · rw [w, updateRef_wsum s hs b.1 b.2 hb]; simp only [wsum, List.map_cons, List.sum_cons]; ring
    · simpa [List.append_assoc] using mn
    · simpa [List.append_assoc] using mx

/-! ## histories and their ledger -/

/-- `Built s L B`: the reference state `s` is the result of a history whose inserted
(value, weight) pairs are `L` and whose data bounds are `B` (for `update` the value itself, for
a bulk load the data's minimum and maximum, for `+` those of both operands). -/
inductive Built : RState K → List (K × K) → List K → Prop
  | init (cap : Nat) (h : 1 ≤ cap) : Built (RState.init cap) [] []
  | update {s L B} (v c : K) : Built s L B → 0 < c → Built (updateRef s v c) (L ++ [(v, c)]) (B ++ [v])
  | add {s t L1 B1 L2 B2} : Built s L1 B1 → Built t L2 B2 → Built (addRef s t) (L1 ++ L2) (B1 ++ B2)
  | bulk {s L B} (pairs : List (K × K)) (lo hi : K) : Built s L B → lo ≤ hi →
      (∀ p ∈ pairs, 0 < p.2 → lo ≤ p.1 ∧ p.1 ≤ hi) →
      Built (bulkRef s pairs lo hi) (L ++ pairs.filter (fun p => decide (0 < p.2))) (B ++ [lo, hi])
  | dumpLoad {s L B} : Built s L B → s.bins.length ≤ Gen.Distogram.binCount →
      Built (dumpLoadRef s) L B

theorem init_inv (cap : Nat) (h : 1 ≤ cap) : Inv (RState.init cap : RState K) :=
  ⟨by simp [RState.init, Inc], by intro b hb; simp [RState.init] at hb, by simp [RState.init], h,
   fun _ => rfl, fun _ => rfl, by intro m M hm; simp [RState.init] at hm⟩

theorem centres_ge_min {t : RState K} (ht : Inv t) {mt : K} (hm : t.min = some mt) :
    ∀ v ∈ t.bins.map (fun b => b.1), mt ≤ v := by
  intro v hv
  obtain ⟨b, hb, rfl⟩ := List.mem_map.mp hv
  cases hM : t.max with
  | none => have := ht.maxNone hM; rw [this] at hb; simp at hb
  | some M => exact (ht.within mt M hm hM b hb).1

theorem centres_le_max {t : RState K} (ht : Inv t) {Mt : K} (hM : t.max = some Mt) :
    ∀ v ∈ t.bins.map (fun b => b.1), v ≤ Mt := by
  intro v hv
  obtain ⟨b, hb, rfl⟩ := List.mem_map.mp hv
  cases hm : t.min with
  | none => have := ht.minNone hm; rw [this] at hb; simp at hb
  | some m => exact (ht.within m Mt hm hM b hb).2

/-- Widening the bounds keeps the invariant. -/
theorem inv_widen {m : RState K} (hm : Inv m) (a b : Option K)
    (ha : ∀ x y, m.min = some x → a = some y → y ≤ x) (hb : ∀ x y, m.max = some x → b = some y → x ≤ y)
    (han : a = none → m.min = none) (hbn : b = none → m.max = none) :
    Inv { m with min := a, max := b } := by
  refine ⟨hm.inc, hm.pos, hm.len, hm.cap, fun h => hm.minNone (han h), fun h => hm.maxNone (hbn h), ?_⟩
  intro x y hx hy
  simp only at hx hy
  intro c hc
  cases hmin : m.min with
  | none => have := hm.minNone hmin; simp only at hc; rw [this] at hc; simp at hc
  | some m0 =>
    cases hmax : m.max with
    | none => have := hm.maxNone hmax; simp only at hc; rw [this] at hc; simp at hc
    | some M0 =>
      have hw := hm.within m0 M0 hmin hmax c hc
      exact ⟨le_trans (ha m0 x hmin hx) hw.1, le_trans hw.2 (hb M0 y hmax hy)⟩

theorem optMin_le_left (x : K) (o : Option K) (y : K) (h : optMin (some x) o = some y) : y ≤ x := by
  cases o with
  | none => simp [optMin] at h; rw [← h]
  | some z =>
    simp only [optMin, Option.some.injEq] at h
    split at h
    · rename_i hlt; rw [← h]; exact le_of_lt hlt
    · rw [← h]

theorem optMax_ge_left (x : K) (o : Option K) (y : K) (h : optMax (some x) o = some y) : x ≤ y := by
  cases o with
  | none => simp [optMax] at h; rw [← h]
  | some z =>
    simp only [optMax, Option.some.injEq] at h
    split at h
    · rename_i hlt; rw [← h]; exact le_of_lt hlt
    · rw [← h]

/-- Everything C13 says about a reference state, by induction over the history. -/
theorem built_facts {s : RState K} {L : List (K × K)} {B : List K} (h : Built s L B) :
    Inv s ∧ mass s.bins = mass L ∧ wsum s.bins = wsum L ∧ IsMinOf s.min B ∧ IsMaxOf s.max B := by
  induction h with
  | init cap h => exact ⟨init_inv cap h, rfl, rfl, rfl, rfl⟩
  | update v c _ hc ih =>
    obtain ⟨hi, hm, hw, hmin, hmax⟩ := ih
    refine ⟨updateRef_inv _ hi v c hc, ?_, ?_, ?_, ?_⟩
    · rw [updateRef_mass _ hi v c hc, mass_append, hm]; simp [mass]
    · rw [updateRef_wsum _ hi v c hc, wsum_append, hw]; simp [wsum]
    · rw [updateRef_min]; exact isMinOf_minO hmin v
    · rw [updateRef_max]; exact isMaxOf_maxO hmax v
  | @add s t L1 B1 L2 B2 _ _ ihs iht =>
    obtain ⟨si, sm, sw, smin, smax⟩ := ihs
    obtain ⟨ti, tm, tw, tmin, tmax⟩ := iht
    obtain ⟨mi, _, mm, mw, mmin, mmax⟩ := mergeRef_facts t.bins s B1 si ti.pos smin smax
    have hminF : IsMinOf (optMin (mergeRef s t.bins).min t.min) (B1 ++ B2) := by
      cases htm : t.min with
      | none =>
        have hb := ti.minNone htm
        rw [htm] at tmin
        simp only [IsMinOf] at tmin
        subst tmin
        rw [hb] at mmin ⊢
        simp only [mergeRef_nil, List.map_nil, List.append_nil] at mmin ⊢
        cases hh : s.min <;> simpa [optMin, hh] using mmin
      | some mt =>
        rw [htm] at tmin
        exact isMinOf_combine mmin tmin (centres_ge_min ti htm)
    have hmaxF : IsMaxOf (optMax (mergeRef s t.bins).max t.max) (B1 ++ B2) := by
      cases htm : t.max with
      | none =>
        have hb := ti.maxNone htm
        rw [htm] at tmax
        simp only [IsMaxOf] at tmax
        subst tmax
        rw [hb] at mmax ⊢
        simp only [mergeRef_nil, List.map_nil, List.append_nil] at mmax ⊢
        cases hh : s.max <;> simpa [optMax, hh] using mmax
      | some mt =>
        rw [htm] at tmax
        exact isMaxOf_combine mmax tmax (centres_le_max ti htm)
    refine ⟨?_, ?_, ?_, hminF, hmaxF⟩
    · apply inv_widen mi
      · intro x y hx hy; rw [hx] at hy; exact optMin_le_left x _ y hy
      · intro x y hx hy; rw [hx] at hy; exact optMax_ge_left x _ y hy
      · intro h
        cases hh : (mergeRef s t.bins).min with
        | none => rfl
        | some x => rw [hh] at h; cases ht : t.min <;> simp [optMin, ht] at h
      · intro h
        cases hh : (mergeRef s t.bins).max with
        | none => rfl
        | some x => rw [hh] at h; cases ht : t.max <;> simp [optMax, ht] at h
    · show mass (mergeRef s t.bins).bins = _
      rw [mm, mass_append, sm, tm]
    · show wsum (mergeRef s t.bins).bins = _
      rw [mw, wsum_append, sw, tw]
  | @bulk s L B pairs lo hi _ hlh hp ih =>
    obtain ⟨si, sm, sw, smin, smax⟩ := ih
    have hpos : Pos (pairs.filter (fun p => decide (0 < p.2))) := by
      intro b hb
      have := (List.mem_filter.mp hb).2
      simpa using this
    obtain ⟨mi, _, mm, mw, mmin, mmax⟩ :=
      mergeRef_facts (pairs.filter (fun p => decide (0 < p.2))) s B si hpos smin smax
    have hvs_lo : ∀ v ∈ (pairs.filter (fun p => decide (0 < p.2))).map (fun b => b.1), lo ≤ v := by
      intro v hv
      obtain ⟨b, hb, rfl⟩ := List.mem_map.mp hv
      have hb' := List.mem_filter.mp hb
      exact (hp b hb'.1 (by simpa using hb'.2)).1
    have hvs_hi : ∀ v ∈ (pairs.filter (fun p => decide (0 < p.2))).map (fun b => b.1), v ≤ hi := by
      intro v hv
      obtain ⟨b, hb, rfl⟩ := List.mem_map.mp hv
      have hb' := List.mem_filter.mp hb
      exact (hp b hb'.1 (by simpa using hb'.2)).2
    have hlo : IsMinOf (some lo) [lo, hi] := ⟨by simp, by intro b hb; simp at hb; rcases hb with rfl | rfl; exact le_refl _; exact hlh⟩
    have hhi : IsMaxOf (some hi) [lo, hi] := ⟨by simp, by intro b hb; simp at hb; rcases hb with rfl | rfl; exact hlh; exact le_refl _⟩
    have hminF := isMinOf_combine mmin hlo hvs_lo
    have hmaxF := isMaxOf_combine mmax hhi hvs_hi
    rw [optMin_some_eq_minO] at hminF
    rw [optMax_some_eq_maxO] at hmaxF
    refine ⟨?_, ?_, ?_, hminF, hmaxF⟩
    · apply inv_widen mi
      · intro x y hx hy
        simp only [Option.some.injEq] at hy
        rw [← hy]
        show minO (mergeRef s _).min lo ≤ x
        rw [hx]; exact minO_le_old x lo
      · intro x y hx hy
        simp only [Option.some.injEq] at hy
        rw [← hy]
        show x ≤ maxO (mergeRef s _).max hi
        rw [hx]; exact old_le_maxO x hi
      · intro h; cases h
      · intro h; cases h
    · show mass (mergeRef s _).bins = _
      rw [mm, mass_append, sm]
    · show wsum (mergeRef s _).bins = _
      rw [mw, wsum_append, sw]
  | dumpLoad _ hlen ih =>
    obtain ⟨si, sm, sw, smin, smax⟩ := ih
    refine ⟨⟨si.inc, si.pos, hlen, ?_, si.minNone, si.maxNone, si.within⟩, sm, sw, smin, smax⟩
    show 1 ≤ Gen.Distogram.binCount
    decide

end Distogram
