import OrsoVerif.Model.SchemaOps
import OrsoVerif.Lemmas.SchemaOps
/-!
# C17 — names are opaque to lookup and removal, names are invisible to the sum, identities are invisible to lookup

"Identity-based" and "by name" made precise as *naturality*: the operations commute with any relabelling of what they
are not supposed to look at, and with any injective (for `lower`: normalisation-respecting) renaming of what they may
only compare.  A `column('1')` that reads the name as a position, a lookup that strips the key, a sum that
de-duplicates by name, a removal that matches identities — none of these commutes.
-/
set_option linter.unusedSectionVars false
namespace SchemaOps
variable {ι ι' ν ν' : Type} [DecidableEq ι] [DecidableEq ι'] [DecidableEq ν] [DecidableEq ν']

/-- rename every name and alias of a column (the object and its identity stay) -/
def Col.rename (f : ν → ν') (c : Col ι ν) : Col ι ν' :=
  ⟨c.tag, c.identity, f c.name, c.aliases.map (List.map f)⟩

/-- give a column another identity (the object, its name and aliases stay) -/
def Col.relabel (h : ι → ι') (c : Col ι ν) : Col ι' ν :=
  ⟨c.tag, h c.identity, c.name, c.aliases⟩

def Key.rename (f : ν → ν') : Key ν → Key ν'
  | .idx i => .idx i
  | .flag b => .flag b
  | .name k => .name (f k)

def Op.rename (f : ν → ν') : Op ν → Op ν'
  | .find k ci => .find (f k) ci
  | .column key => .column (key.rename f)
  | .pop k => .pop (f k)
  | .allNames => .allNames
  | .names => .names
  | .iter => .iter

def Out.rename (f : ν → ν') : Out ι ν → Out ι ν'
  | .col c => .col (c.map (Col.rename f))
  | .popped c => .popped (c.map (Col.rename f))
  | .indexError => .indexError
  | .strs l => .strs (l.map f)

def Out.relabel (h : ι → ι') : Out ι ν → Out ι' ν
  | .col c => .col (c.map (Col.relabel h))
  | .popped c => .popped (c.map (Col.relabel h))
  | .indexError => .indexError
  | .strs l => .strs l

theorem allNames_rename (f : ν → ν') (c : Col ι ν) : (c.rename f).allNames = c.allNames.map f := by
  cases h : c.aliases <;> cases hf : Gen.SchemaOps.aliasesFirst <;> simp [Col.rename, Col.allNames, h, hf]

theorem allNames_relabel (h : ι → ι') (c : Col ι ν) : (c.relabel h).allNames = c.allNames := by
  cases ha : c.aliases <;> simp [Col.relabel, Col.allNames, ha]

/-- `norm'` on renamed names tells apart exactly what `norm` tells apart on the names -/
def Respects (f : ν → ν') (norm : ν → ν) (norm' : ν' → ν') : Prop :=
  ∀ x y, norm' (f x) = norm' (f y) ↔ norm x = norm y

theorem respects_id (f : ν → ν') (hf : ∀ x y, f x = f y → x = y) : Respects f id id :=
  fun x y => ⟨hf x y, fun e => by simp only [id] at e; rw [e]⟩

theorem bears_rename (f : ν → ν') (norm : ν → ν) (norm' : ν' → ν') (hr : Respects f norm norm') (c : Col ι ν) (k : ν) :
    (c.rename f).bears norm' (f k) = c.bears norm k := by
  simp only [Col.bears, allNames_rename, List.map_map]
  by_cases h : norm k ∈ c.allNames.map norm
  · obtain ⟨x, hx, hxk⟩ := List.mem_map.mp h
    have : norm' (f k) ∈ c.allNames.map (norm' ∘ f) :=
      List.mem_map.mpr ⟨x, hx, (hr x k).mpr hxk⟩
    simp [h, this]
  · have : norm' (f k) ∉ c.allNames.map (norm' ∘ f) := by
      intro hm
      obtain ⟨x, hx, hxk⟩ := List.mem_map.mp hm
      exact h (List.mem_map.mpr ⟨x, hx, (hr x k).mp hxk⟩)
    simp [h, this]

theorem findCol_rename (f : ν → ν') (norm : ν → ν) (norm' : ν' → ν') (hr : Respects f norm norm') (k : ν)
    (cols : List (Col ι ν)) :
    findCol norm' (f k) (cols.map (Col.rename f)) = (findCol norm k cols).map (Col.rename f) := by
  induction cols with
  | nil => simp [findCol]
  | cons c cs ih =>
    simp only [List.map_cons, findCol, bears_rename f norm norm' hr]
    split <;> simp [ih]

theorem popCol_rename (f : ν → ν') (hf : ∀ x y, f x = f y → x = y) (k : ν) (cols : List (Col ι ν)) :
    popCol (f k) (cols.map (Col.rename f))
      = ((popCol k cols).1.map (Col.rename f), (popCol k cols).2.map (Col.rename f)) := by
  induction cols with
  | nil => simp [popCol]
  | cons c cs ih =>
    simp only [List.map_cons, popCol]
    have hn : (c.rename f).name = f c.name := rfl
    by_cases h : c.name = k
    · simp [hn, h]
    · have : f c.name ≠ f k := fun e => h (hf _ _ e)
      simp [hn, h, this, ih]

theorem pyIndex_map {α β : Type} (g : α → β) (xs : List α) (i : Int) :
    pyIndex (xs.map g) i = (pyIndex xs i).map g := by
  unfold pyIndex
  simp only [List.length_map, List.getElem?_map]
  split
  · rfl
  · split <;> rfl

theorem allColumnNames_rename (f : ν → ν') (cols : List (Col ι ν)) :
    allColumnNames (cols.map (Col.rename f)) = (allColumnNames cols).map f := by
  induction cols with
  | nil => simp [allColumnNames]
  | cons c cs ih => simp [allColumnNames, allNames_rename, ih]

theorem columnNames_rename (f : ν → ν') (cols : List (Col ι ν)) :
    columnNames (cols.map (Col.rename f)) = (columnNames cols).map f := by
  simp [columnNames, Col.rename, Function.comp_def]

theorem ofIndex_rename (f : ν → ν') (o : Option (Col ι ν)) :
    Out.ofIndex (o.map (Col.rename f)) = (Out.ofIndex o).rename f := by
  cases o <;> simp [Out.ofIndex, Out.rename]

theorem step_rename (f : ν → ν') (hf : ∀ x y, f x = f y → x = y) (lower : ν → ν) (lower' : ν' → ν')
    (hr : Respects f lower lower') (cols : List (Col ι ν)) (op : Op ν) :
    step lower' (cols.map (Col.rename f)) (op.rename f)
      = ((step lower cols op).1.map (Col.rename f), (step lower cols op).2.rename f) := by
  cases op with
  | find k ci =>
    cases ci
    · simp [step, Op.rename, find, Out.rename, findCol_rename f id id (respects_id f hf)]
    · simp [step, Op.rename, find, Out.rename, findCol_rename f lower lower' hr]
  | column key =>
    cases key with
    | idx i => simp [step, Op.rename, Key.rename, column, pyIndex_map, ofIndex_rename]
    | flag b => simp [step, Op.rename, Key.rename, column, pyIndex_map, ofIndex_rename]
    | name k => simp [step, Op.rename, Key.rename, column, Out.rename, findCol_rename f id id (respects_id f hf)]
  | pop k => simp [step, Op.rename, Out.rename, popCol_rename f hf]
  | allNames => simp [step, Op.rename, Out.rename, allColumnNames_rename]
  | names => simp [step, Op.rename, Out.rename, columnNames_rename]
  | iter => simp [step, Op.rename, Out.rename, columnNames_rename]

theorem run_rename (f : ν → ν') (hf : ∀ x y, f x = f y → x = y) (lower : ν → ν) (lower' : ν' → ν')
    (hr : Respects f lower lower') (ops : List (Op ν)) (cols : List (Col ι ν)) :
    run lower' (cols.map (Col.rename f)) (ops.map (Op.rename f))
      = ((run lower cols ops).1.map (Col.rename f), (run lower cols ops).2.map (Out.rename f)) := by
  induction ops generalizing cols with
  | nil => simp [run]
  | cons op ops ih =>
    simp only [List.map_cons, run, step_rename f hf lower lower' hr, ih]

/-! ### identities are invisible to lookup and removal -/

theorem bears_relabel (h : ι → ι') (norm : ν → ν) (c : Col ι ν) (k : ν) :
    (c.relabel h).bears norm k = c.bears norm k := by
  simp [Col.bears, allNames_relabel]

theorem findCol_relabel (h : ι → ι') (norm : ν → ν) (k : ν) (cols : List (Col ι ν)) :
    findCol norm k (cols.map (Col.relabel h)) = (findCol norm k cols).map (Col.relabel h) := by
  induction cols with
  | nil => simp [findCol]
  | cons c cs ih =>
    simp only [List.map_cons, findCol, bears_relabel]
    split <;> simp [ih]

theorem popCol_relabel (h : ι → ι') (k : ν) (cols : List (Col ι ν)) :
    popCol k (cols.map (Col.relabel h))
      = ((popCol k cols).1.map (Col.relabel h), (popCol k cols).2.map (Col.relabel h)) := by
  induction cols with
  | nil => simp [popCol]
  | cons c cs ih =>
    simp only [List.map_cons, popCol]
    have hn : (c.relabel h).name = c.name := rfl
    by_cases hk : c.name = k <;> simp [hn, hk, ih]

theorem allColumnNames_relabel (h : ι → ι') (cols : List (Col ι ν)) :
    allColumnNames (cols.map (Col.relabel h)) = allColumnNames cols := by
  induction cols with
  | nil => simp [allColumnNames]
  | cons c cs ih => simp [allColumnNames, allNames_relabel, ih]

theorem ofIndex_relabel (h : ι → ι') (o : Option (Col ι ν)) :
    Out.ofIndex (o.map (Col.relabel h)) = (Out.ofIndex o).relabel h := by
  cases o <;> simp [Out.ofIndex, Out.relabel]

theorem step_relabel (h : ι → ι') (lower : ν → ν) (cols : List (Col ι ν)) (op : Op ν) :
    step lower (cols.map (Col.relabel h)) op
      = ((step lower cols op).1.map (Col.relabel h), (step lower cols op).2.relabel h) := by
  cases op with
  | find k ci => cases ci <;> simp [step, find, Out.relabel, findCol_relabel]
  | column key =>
    cases key with
    | idx i => simp [step, column, pyIndex_map, ofIndex_relabel]
    | flag b => simp [step, column, pyIndex_map, ofIndex_relabel]
    | name k => simp [step, column, Out.relabel, findCol_relabel]
  | pop k => simp [step, Out.relabel, popCol_relabel]
  | allNames => simp [step, Out.relabel, allColumnNames_relabel]
  | names => simp [step, Out.relabel, columnNames, Col.relabel, Function.comp_def]
  | iter => simp [step, Out.relabel, columnNames, Col.relabel, Function.comp_def]

theorem run_relabel (h : ι → ι') (lower : ν → ν) (ops : List (Op ν)) (cols : List (Col ι ν)) :
    run lower (cols.map (Col.relabel h)) ops
      = ((run lower cols ops).1.map (Col.relabel h), (run lower cols ops).2.map (Out.relabel h)) := by
  induction ops generalizing cols with
  | nil => simp [run]
  | cons op ops ih => simp only [run, step_relabel, ih, List.map_cons]

/-! ### names, aliases (and which object a column is) are invisible to the sum -/

theorem unionLoop_map {ν₂ : Type} (g : Col ι ν → Col ι ν₂) (hg : ∀ c, (g c).identity = c.identity)
    (seen : List ι) (acc cs : List (Col ι ν)) :
    unionLoop seen (acc.map g) (cs.map g) = (unionLoop seen acc cs).map g := by
  induction cs generalizing seen acc with
  | nil => simp [unionLoop]
  | cons c cs ih =>
    simp only [List.map_cons, unionLoop, hg]
    split
    · exact ih seen acc
    · have := ih (seen ++ [c.identity]) (acc ++ [c])
      simpa using this

theorem ids_map {ν₂ : Type} (g : Col ι ν → Col ι ν₂) (hg : ∀ c, (g c).identity = c.identity) (cs : List (Col ι ν)) :
    ids (cs.map g) = ids cs := by
  simp [ids, Function.comp_def, hg]

/-- `column(i)` as C17-w4s3 had it: a name that `isdecimal` and whose `int` is below the width is read as a position.
Only used by the counterexample `C17.text_as_position_is_not_natural`. -/
def columnTextAsPosition (isdecimal : ν → Bool) (toInt : ν → Int) (cols : List (Col ι ν)) : Key ν → Out ι ν
  | .name k =>
    if isdecimal k && decide (toInt k < cols.length) then Out.ofIndex (pyIndex cols (toInt k))
    else .col (findCol id k cols)
  | key => column cols key

end SchemaOps
