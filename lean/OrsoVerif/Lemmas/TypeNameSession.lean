import OrsoVerif.Lemmas.TypeName
/-!
Sessions on frames over shared schemas (C06, "the type code a DataFrame reports for the column resolves back to
the same type" when the code is read more than once and the schema is edited in between): the vocabulary of the
session theorems of `Props/C06.lean` and the lemmas under them.
-/
namespace TypeName
open Gen.TypeName

/-- iterating over the current names of the columns is iterating over the columns. -/
theorem describeNames_map (how : Lookup) (all : List Col) (i : Nat) (cs : List Col) :
    describeNames how all i (cs.map (·.name)) = describeFrom how all i cs := by
  induction cs generalizing i with
  | nil => rfl
  | cons c cs ih =>
    simp only [List.map_cons, describeNames, describeFrom, entrySource, ih]

theorem setDescAt_names (cols : List Col) (i : Nat) (d : Desc) :
    (setDescAt cols i d).map (·.name) = cols.map (·.name) := by
  induction cols generalizing i with
  | nil => rfl
  | cons c cs ih => cases i <;> simp [setDescAt, ih]

/-- a redeclaration keeps the names of the columns of every schema. -/
theorem setSchemaAt_names (S : List (List Col)) (j i : Nat) (d : Desc) (j' : Nat) :
    ((setSchemaAt S j i d)[j']?).map (fun cols => cols.map (·.name)) = (S[j']?).map (fun cols => cols.map (·.name)) := by
  induction S generalizing j j' with
  | nil => simp [setSchemaAt]
  | cons a as ih =>
    cases j with
    | zero => cases j' <;> simp [setSchemaAt, setDescAt_names]
    | succ j => cases j' <;> simp [setSchemaAt, ih]

/-- the kept tuple of names (if any) belongs to an existing frame and equals the current names of that frame's
columns — true of a fresh process (`keptNames = none`) and kept by every step, because a redeclaration keeps the
name of the column and the number of columns. -/
def NamesOK (s : Sess) : Prop :=
  ∀ k ns, s.keptNames = some (k, ns) → k < s.frames.length ∧
    ∀ j cols, s.frames[k]? = some j → s.schemas[j]? = some cols → ns = cols.map (·.name)

theorem namesOK_of_none {s : Sess} (h : s.keptNames = none) : NamesOK s := by
  intro k ns hk; rw [h] at hk; cases hk

theorem names_ok {s : Sess} (h : NamesOK s) (nmode : ReadMode) {k j : Nat} {cols : List Col}
    (hk : s.frames[k]? = some j) (hj : s.schemas[j]? = some cols) : s.names nmode k cols = cols.map (·.name) := by
  unfold Sess.names
  cases nmode with
  | fresh => rfl
  | keptPerFrame =>
    cases hkn : s.keptNames with
    | none => rfl
    | some p =>
      obtain ⟨k', ns⟩ := p
      by_cases hkk : k' = k
      · subst hkk
        simp only [if_true]
        exact (h k' ns hkn).2 j cols hk hj
      · simp [hkk]

/-- the body of `description` computes `describe` of the current columns and leaves a sound names cache. -/
theorem compute_ok {s : Sess} (h : NamesOK s) (nmode : ReadMode) (k : Nat) :
    (s.compute nmode k).2 = ((s.frames[k]?).bind fun j => (s.schemas[j]?).bind describe) ∧
    (s.compute nmode k).1.schemas = s.schemas ∧ (s.compute nmode k).1.frames = s.frames ∧
    (s.compute nmode k).1.kept = s.kept ∧ NamesOK (s.compute nmode k).1 := by
  unfold Sess.compute
  cases hk : s.frames[k]? with
  | none => exact ⟨rfl, rfl, rfl, rfl, h⟩
  | some j =>
    simp only [Option.bind_some]
    cases hj : s.schemas[j]? with
    | none => exact ⟨rfl, rfl, rfl, rfl, h⟩
    | some cols =>
      have hn := names_ok h nmode hk hj
      refine ⟨?_, rfl, rfl, rfl, ?_⟩
      · show describeNames descLookup cols 0 (s.names nmode k cols) = describe cols
        rw [hn, describeNames_map]; rfl
      · cases nmode with
        | fresh => exact h
        | keptPerFrame =>
          intro k' ns hkn
          change some (k, s.names .keptPerFrame k cols) = some (k', ns) at hkn
          simp only [Option.some.injEq, Prod.mk.injEq] at hkn
          obtain ⟨rfl, rfl⟩ := hkn
          refine ⟨(List.getElem?_eq_some_iff.mp hk).1, ?_⟩
          intro j' cols' hk' hj'
          simp only at hk' hj'
          rw [hk] at hk'
          cases hk'
          rw [hj] at hj'
          cases hj'
          exact hn

theorem Sess.read_fresh {s : Sess} (h : NamesOK s) (nmode : ReadMode) (k : Nat) :
    (s.read .fresh nmode k).2 = ((s.frames[k]?).bind fun j => (s.schemas[j]?).bind describe) ∧
    (s.read .fresh nmode k).1.schemas = s.schemas ∧ (s.read .fresh nmode k).1.frames = s.frames ∧
    NamesOK (s.read .fresh nmode k).1 := by
  obtain ⟨h1, h2, h3, _, h5⟩ := compute_ok h nmode k
  unfold Sess.read
  simp only
  rcases hc : s.compute nmode k with ⟨s', o⟩
  rw [hc] at h1 h2 h3 h5
  cases o with
  | none => exact ⟨h1, h2, h3, h5⟩
  | some es => exact ⟨h1, h2, h3, h5⟩

theorem namesOK_frame {s : Sess} (h : NamesOK s) (j : Nat) : NamesOK { s with frames := s.frames ++ [j] } := by
  intro k ns hkn
  obtain ⟨hlt, hrest⟩ := h k ns hkn
  refine ⟨by simp; omega, ?_⟩
  intro j' cols hk hj
  simp only at hk hj
  rw [List.getElem?_append_left hlt] at hk
  exact hrest j' cols hk hj

theorem namesOK_redeclare {s : Sess} (h : NamesOK s) (j i : Nat) (d : Desc) :
    NamesOK { s with schemas := setSchemaAt s.schemas j i d } := by
  intro k ns hkn
  obtain ⟨hlt, hrest⟩ := h k ns hkn
  refine ⟨hlt, ?_⟩
  intro j' cols hk hj
  simp only at hk hj
  have hnm := setSchemaAt_names s.schemas j i d j'
  rw [hj] at hnm
  cases hs : s.schemas[j']? with
  | none => simp [hs] at hnm
  | some cols0 =>
    simp only [hs, Option.map_some, Option.some.injEq] at hnm
    rw [hnm]
    exact hrest j' cols0 hk hs

/-- when `description` computes its list on every read, every read returns `description` of the schema as it is
at that read — with `column_names` kept per frame or not — as long as no step renames a column. -/
theorem run_fresh_eq (nmode : ReadMode) (s : Sess) (h : NamesOK s) (ops : List SOp)
    (hops : ∀ op ∈ ops, op.keepsNames = true) :
    Sess.run .fresh nmode s ops = currentReads s.schemas s.frames ops := by
  induction ops generalizing s with
  | nil => rfl
  | cons op ops ih =>
    have hrest : ∀ op ∈ ops, op.keepsNames = true := fun o ho => hops o (List.mem_cons_of_mem _ ho)
    cases op with
    | frame j =>
      simp only [Sess.run, Sess.step, currentReads, List.nil_append]
      exact ih _ (namesOK_frame h j) hrest
    | read k =>
      obtain ⟨h1, h2, h3, h4⟩ := Sess.read_fresh h nmode k
      simp only [Sess.run, Sess.step, currentReads, List.singleton_append, h1]
      rw [ih _ h4 hrest, h2, h3]
    | redeclare j i d =>
      simp only [Sess.run, Sess.step, currentReads, List.nil_append]
      exact ih _ (namesOK_redeclare h j i d) hrest
    | rename j i n =>
      have := hops _ (List.mem_cons_self ..)
      simp [SOp.keepsNames] at this

/-! ### renames: the names may be stale, the type codes are not -/

theorem setDescAt_length (cols : List Col) (i : Nat) (d : Desc) : (setDescAt cols i d).length = cols.length := by
  induction cols generalizing i with
  | nil => rfl
  | cons c cs ih => cases i <;> simp [setDescAt, ih]

theorem setColNameAt_length (cols : List Col) (i : Nat) (n : Str) : (setColNameAt cols i n).length = cols.length := by
  induction cols generalizing i with
  | nil => rfl
  | cons c cs ih => cases i <;> simp [setColNameAt, ih]

theorem setSchemaAt_lengths (S : List (List Col)) (j i : Nat) (d : Desc) (j' : Nat) :
    ((setSchemaAt S j i d)[j']?).map List.length = (S[j']?).map List.length := by
  induction S generalizing j j' with
  | nil => simp [setSchemaAt]
  | cons a as ih =>
    cases j with
    | zero => cases j' <;> simp [setSchemaAt, setDescAt_length]
    | succ j => cases j' <;> simp [setSchemaAt, ih]

theorem setSchemaNameAt_lengths (S : List (List Col)) (j i : Nat) (n : Str) (j' : Nat) :
    ((setSchemaNameAt S j i n)[j']?).map List.length = (S[j']?).map List.length := by
  induction S generalizing j j' with
  | nil => simp [setSchemaNameAt]
  | cons a as ih =>
    cases j with
    | zero => cases j' <;> simp [setSchemaNameAt, setColNameAt_length]
    | succ j => cases j' <;> simp [setSchemaNameAt, ih]

/-- the name under which an entry is reported does not influence its type code, precision and scale. -/
theorem entryOf_bare (n n' : Str) (d : Desc) :
    (entryOf n d).map Entry.bare = (entryOf n' d).map Entry.bare := by
  unfold entryOf
  cases codeState d with
  | none => rfl
  | some st =>
    simp only
    cases hc : st.code with
    | none => rfl
    | some code => rfl

/-- by position, the loop of `description` over *any* tuple of as many names gives the same type codes. -/
theorem describeNames_bare (all : List Col) (i : Nat) (ns : List Str) (cs : List Col) (h : ns.length = cs.length) :
    (describeNames .byPosition all i ns).map (fun es => es.map Entry.bare)
      = (describeFrom .byPosition all i cs).map (fun es => es.map Entry.bare) := by
  induction ns generalizing i cs with
  | nil =>
    cases cs with
    | nil => rfl
    | cons c cs => simp at h
  | cons n ns ih =>
    cases cs with
    | nil => simp at h
    | cons c cs =>
      have ih' := ih (i + 1) cs (by simpa using h)
      simp only [describeNames, describeFrom, entrySource]
      cases hcol : all[i]? with
      | none => simp
      | some cd =>
        have hb := entryOf_bare n c.name cd.desc
        simp only [Option.bind_some]
        cases h1 : entryOf n cd.desc with
        | none =>
          rw [h1] at hb
          cases h2 : entryOf c.name cd.desc with
          | none => simp
          | some e => rw [h2] at hb; simp at hb
        | some e =>
          rw [h1] at hb
          cases h2 : entryOf c.name cd.desc with
          | none => rw [h2] at hb; simp at hb
          | some e' =>
            rw [h2] at hb
            simp only [Option.map_some, Option.some.injEq] at hb
            cases h3 : describeNames .byPosition all (i + 1) ns with
            | none =>
              rw [h3] at ih'
              cases h4 : describeFrom .byPosition all (i + 1) cs with
              | none => simp
              | some es' => rw [h4] at ih'; simp at ih'
            | some es =>
              rw [h3] at ih'
              cases h4 : describeFrom .byPosition all (i + 1) cs with
              | none => rw [h4] at ih'; simp at ih'
              | some es' =>
                rw [h4] at ih'
                simp only [Option.map_some, Option.some.injEq] at ih'
                simp [hb, ih']

/-- the kept tuple of names (if any) belongs to an existing frame and has as many names as that frame's schema
has columns — maintained by every step, renames included. -/
def NamesLenOK (s : Sess) : Prop :=
  ∀ k ns, s.keptNames = some (k, ns) → k < s.frames.length ∧
    ∀ j cols, s.frames[k]? = some j → s.schemas[j]? = some cols → ns.length = cols.length

theorem namesLenOK_of_none {s : Sess} (h : s.keptNames = none) : NamesLenOK s := by
  intro k ns hk; rw [h] at hk; cases hk

theorem names_len_ok {s : Sess} (h : NamesLenOK s) (nmode : ReadMode) {k j : Nat} {cols : List Col}
    (hk : s.frames[k]? = some j) (hj : s.schemas[j]? = some cols) : (s.names nmode k cols).length = cols.length := by
  unfold Sess.names
  cases nmode with
  | fresh => simp
  | keptPerFrame =>
    cases hkn : s.keptNames with
    | none => simp
    | some p =>
      obtain ⟨k', ns⟩ := p
      by_cases hkk : k' = k
      · subst hkk
        simp only [if_true]
        exact (h k' ns hkn).2 j cols hk hj
      · simp [hkk]

theorem compute_bare {s : Sess} (h : NamesLenOK s) (hpos : descLookup = .byPosition) (nmode : ReadMode) (k : Nat) :
    (s.compute nmode k).2.map (fun es => es.map Entry.bare)
      = ((s.frames[k]?).bind fun j => (s.schemas[j]?).bind describe).map (fun es => es.map Entry.bare) ∧
    (s.compute nmode k).1.schemas = s.schemas ∧ (s.compute nmode k).1.frames = s.frames ∧
    NamesLenOK (s.compute nmode k).1 := by
  unfold Sess.compute
  cases hk : s.frames[k]? with
  | none => exact ⟨rfl, rfl, rfl, h⟩
  | some j =>
    simp only [Option.bind_some]
    cases hj : s.schemas[j]? with
    | none => exact ⟨rfl, rfl, rfl, h⟩
    | some cols =>
      have hn := names_len_ok h nmode hk hj
      refine ⟨?_, rfl, rfl, ?_⟩
      · show (describeNames descLookup cols 0 (s.names nmode k cols)).map _ = (describe cols).map _
        rw [hpos, describeNames_bare cols 0 _ cols hn]
        unfold describe describeWith
        rw [hpos]
      · cases nmode with
        | fresh => exact h
        | keptPerFrame =>
          intro k' ns hkn
          change some (k, s.names .keptPerFrame k cols) = some (k', ns) at hkn
          simp only [Option.some.injEq, Prod.mk.injEq] at hkn
          obtain ⟨rfl, rfl⟩ := hkn
          refine ⟨(List.getElem?_eq_some_iff.mp hk).1, ?_⟩
          intro j' cols' hk' hj'
          simp only at hk' hj'
          rw [hk] at hk'
          cases hk'
          rw [hj] at hj'
          cases hj'
          exact hn

theorem Sess.read_fresh_bare {s : Sess} (h : NamesLenOK s) (hpos : descLookup = .byPosition) (nmode : ReadMode) (k : Nat) :
    (s.read .fresh nmode k).2.map (fun es => es.map Entry.bare)
      = ((s.frames[k]?).bind fun j => (s.schemas[j]?).bind describe).map (fun es => es.map Entry.bare) ∧
    (s.read .fresh nmode k).1.schemas = s.schemas ∧ (s.read .fresh nmode k).1.frames = s.frames ∧
    NamesLenOK (s.read .fresh nmode k).1 := by
  obtain ⟨h1, h2, h3, h5⟩ := compute_bare h hpos nmode k
  unfold Sess.read
  simp only
  rcases hc : s.compute nmode k with ⟨s', o⟩
  rw [hc] at h1 h2 h3 h5
  cases o with
  | none => exact ⟨h1, h2, h3, h5⟩
  | some es => exact ⟨h1, h2, h3, h5⟩

theorem namesLenOK_frame {s : Sess} (h : NamesLenOK s) (j : Nat) : NamesLenOK { s with frames := s.frames ++ [j] } := by
  intro k ns hkn
  obtain ⟨hlt, hrest⟩ := h k ns hkn
  refine ⟨by simp; omega, ?_⟩
  intro j' cols hk hj
  simp only at hk hj
  rw [List.getElem?_append_left hlt] at hk
  exact hrest j' cols hk hj

theorem namesLenOK_schemas {s : Sess} (h : NamesLenOK s) (S' : List (List Col))
    (hS : ∀ j' : Nat, (S'[j']?).map List.length = (s.schemas[j']?).map List.length) :
    NamesLenOK { s with schemas := S' } := by
  intro k ns hkn
  obtain ⟨hlt, hrest⟩ := h k ns hkn
  refine ⟨hlt, ?_⟩
  intro j' cols hk hj
  simp only at hk hj
  have hl := hS j'
  rw [hj] at hl
  cases hs : s.schemas[j']? with
  | none => simp [hs] at hl
  | some cols0 =>
    simp only [hs, Option.map_some, Option.some.injEq] at hl
    rw [hl]
    exact hrest j' cols0 hk hs

/-- whatever is renamed in between, the type codes (and precision / scale) of every read are those of the schema as
it is at that read. -/
theorem run_fresh_bare (nmode : ReadMode) (hpos : descLookup = .byPosition) (s : Sess) (h : NamesLenOK s) (ops : List SOp) :
    bareReads (Sess.run .fresh nmode s ops) = bareReads (currentReads s.schemas s.frames ops) := by
  induction ops generalizing s with
  | nil => rfl
  | cons op ops ih =>
    cases op with
    | frame j =>
      simp only [Sess.run, Sess.step, currentReads, List.nil_append]
      exact ih _ (namesLenOK_frame h j)
    | read k =>
      obtain ⟨h1, h2, h3, h4⟩ := Sess.read_fresh_bare h hpos nmode k
      simp only [Sess.run, Sess.step, currentReads, List.singleton_append, bareReads, List.map_cons, h1]
      have := ih _ h4
      simp only [bareReads, h2, h3] at this
      rw [this]
    | redeclare j i d =>
      simp only [Sess.run, Sess.step, currentReads, List.nil_append]
      exact ih _ (namesLenOK_schemas h _ (setSchemaAt_lengths s.schemas j i d))
    | rename j i n =>
      simp only [Sess.run, Sess.step, currentReads, List.nil_append]
      exact ih _ (namesLenOK_schemas h _ (setSchemaNameAt_lengths s.schemas j i n))

/-! ### the declared side of a session -/

/-- name, aliases and declared (well-formed) type name of a column. -/
abbrev ColSpec := Str × List Str × TName

/-- the column was declared under this name with this type name: `FlatColumn(name=…, aliases=…, type=render t)`. -/
def declRel (sp : ColSpec) (c : Col) : Prop :=
  c.name = sp.1 ∧ c.aliases = sp.2.1 ∧ declare (render sp.2.2) = .ok c.desc

/-- every schema of the session holds columns declared with the well-formed names of `D`. -/
def Declared (D : List (List ColSpec)) (S : List (List Col)) : Prop :=
  (∀ sps ∈ D, ∀ sp ∈ sps, wfName sp.2.2 = true) ∧ List.Forall₂ (List.Forall₂ declRel) D S

/-- the type attributes of `FlatColumn(type=render t)`. -/
def declaredDesc (t : TName) : Desc :=
  match declare (render t) with
  | .ok d => d
  | .error _ => { ty := .zero }

/-- a step of a session in terms of type names. -/
inductive NOp where
  | frame (j : Nat)
  | read (k : Nat)
  /-- `S_j.columns[i] = FlatColumn(name=<the same>, aliases=<the same>, type=render t)` -/
  | redeclare (j i : Nat) (t : TName)
  deriving Repr, DecidableEq

def NOp.wf : NOp → Bool
  | .redeclare _ _ t => wfName t
  | _ => true

/-- the step as the model runs it. -/
def NOp.lower : NOp → SOp
  | .frame j => .frame j
  | .read k => .read k
  | .redeclare j i t => .redeclare j i (declaredDesc t)

def setNameAt : List ColSpec → Nat → TName → List ColSpec
  | [], _, _ => []
  | sp :: sps, 0, t => (sp.1, sp.2.1, t) :: sps
  | sp :: sps, i + 1, t => sp :: setNameAt sps i t

def setDeclAt : List (List ColSpec) → Nat → Nat → TName → List (List ColSpec)
  | [], _, _, _ => []
  | s :: ss, 0, i, t => setNameAt s i t :: ss
  | s :: ss, j + 1, i, t => s :: setDeclAt ss j i t

/-- one read is right for the declarations `sps` in force: a list comes back, one entry per column, entry `i`
bears column `i`'s name and its type code resolves back to the type name column `i` is declared with *now*. -/
def ReadOK (sps : List ColSpec) (o : Option (List Entry)) : Prop :=
  ∃ es, o = some es ∧ es.length = sps.length ∧
    ∀ (i : Nat) (sp : ColSpec), sps[i]? = some sp →
      ∃ e, es[i]? = some e ∧ e.name = sp.1 ∧ codeResolvesTo sp.2.2 e.code = true

/-- every read of the session is right for the declarations in force at that read. -/
def ReadsResolve : List (List ColSpec) → List Nat → List NOp → List (Option (List Entry)) → Prop
  | _, _, [], outs => outs = []
  | D, fr, .frame j :: ops, outs => ReadsResolve D (fr ++ [j]) ops outs
  | D, fr, .redeclare j i t :: ops, outs => ReadsResolve (setDeclAt D j i t) fr ops outs
  | D, fr, .read k :: ops, outs =>
    match outs with
    | [] => False
    | o :: outs' =>
      (∀ j sps, fr[k]? = some j → D[j]? = some sps → ReadOK sps o) ∧ ReadsResolve D fr ops outs'

/-! ### lemmas -/

theorem columnRoundTrips_resolves {t : TName} {c : Desc} {code : Str}
    (h : columnRoundTrips t c = true) (hc : typeCode c = some code) : codeResolvesTo t code = true := by
  unfold columnRoundTrips at h
  rw [hc] at h
  unfold codeResolvesTo
  cases hf : fromName code with
  | error e => simp [hf] at h
  | ok d =>
    simp only [hf, Bool.and_eq_true, beq_iff_eq] at h
    obtain ⟨h1, ⟨⟨⟨hty, hp⟩, hs⟩, he⟩⟩ := h
    cases t with
    | base m => simp at h1 ⊢; rw [hty, h1]
    | decimal p s =>
      simp at h1 ⊢
      obtain ⟨⟨a, b⟩, c'⟩ := h1
      exact ⟨⟨by rw [hty, a], by rw [hp, b]⟩, by rw [hs, c']⟩
    | varchar n => simp at h1 ⊢; rw [hty, h1.1]
    | blob n => simp at h1 ⊢; rw [hty, h1.1]
    | array e =>
      simp at h1 ⊢
      exact ⟨by rw [hty, h1.1], by rw [he, h1.2]⟩

theorem setNameAt_wf {sps : List ColSpec} {i : Nat} {t : TName} (ht : wfName t = true)
    (h : ∀ sp ∈ sps, wfName sp.2.2 = true) : ∀ sp ∈ setNameAt sps i t, wfName sp.2.2 = true := by
  induction sps generalizing i with
  | nil => intro sp hsp; simp [setNameAt] at hsp
  | cons a as ih =>
    cases i with
    | zero =>
      intro sp hsp
      simp only [setNameAt, List.mem_cons] at hsp
      rcases hsp with rfl | hsp
      · exact ht
      · exact h sp (List.mem_cons_of_mem _ hsp)
    | succ i =>
      intro sp hsp
      simp only [setNameAt, List.mem_cons] at hsp
      rcases hsp with rfl | hsp
      · exact h _ (List.mem_cons_self ..)
      · exact ih (fun sp hsp => h sp (List.mem_cons_of_mem _ hsp)) sp hsp

theorem setDeclAt_wf {D : List (List ColSpec)} {j i : Nat} {t : TName} (ht : wfName t = true)
    (h : ∀ sps ∈ D, ∀ sp ∈ sps, wfName sp.2.2 = true) :
    ∀ sps ∈ setDeclAt D j i t, ∀ sp ∈ sps, wfName sp.2.2 = true := by
  induction D generalizing j with
  | nil => intro sps hs; simp [setDeclAt] at hs
  | cons a as ih =>
    cases j with
    | zero =>
      intro sps hs
      simp only [setDeclAt, List.mem_cons] at hs
      rcases hs with rfl | hs
      · exact setNameAt_wf ht (h a (List.mem_cons_self ..))
      · exact h sps (List.mem_cons_of_mem _ hs)
    | succ j =>
      intro sps hs
      simp only [setDeclAt, List.mem_cons] at hs
      rcases hs with rfl | hs
      · exact h _ (List.mem_cons_self ..)
      · exact ih (fun sps hs => h sps (List.mem_cons_of_mem _ hs)) sps hs

theorem setNameAt_rel {sps : List ColSpec} {cols : List Col} {i : Nat} {t : TName} {d : Desc}
    (hd : declare (render t) = .ok d) (h : List.Forall₂ declRel sps cols) :
    List.Forall₂ declRel (setNameAt sps i t) (setDescAt cols i d) := by
  induction h generalizing i with
  | nil => exact .nil
  | cons hr hrest ih =>
    cases i with
    | zero => exact .cons ⟨hr.1, hr.2.1, hd⟩ hrest
    | succ i => exact .cons hr ih

theorem setDeclAt_rel {D : List (List ColSpec)} {S : List (List Col)} {j i : Nat} {t : TName} {d : Desc}
    (hd : declare (render t) = .ok d) (h : List.Forall₂ (List.Forall₂ declRel) D S) :
    List.Forall₂ (List.Forall₂ declRel) (setDeclAt D j i t) (setSchemaAt S j i d) := by
  induction h generalizing j with
  | nil => exact .nil
  | cons hr hrest ih =>
    cases j with
    | zero => exact .cons (setNameAt_rel hd hr) hrest
    | succ j => exact .cons hr ih

theorem forall₂_length {α β : Type} {R : α → β → Prop} {xs : List α} {ys : List β}
    (h : List.Forall₂ R xs ys) : xs.length = ys.length := by
  induction h with
  | nil => rfl
  | cons _ _ ih => simp [ih]

theorem forall₂_getElem?_left {α β : Type} {R : α → β → Prop} {xs : List α} {ys : List β}
    (h : List.Forall₂ R xs ys) {i : Nat} {x : α} (hx : xs[i]? = some x) : ∃ y, ys[i]? = some y := by
  induction h generalizing i with
  | nil => simp at hx
  | cons hr _ ih =>
    cases i with
    | zero => exact ⟨_, List.getElem?_cons_zero⟩
    | succ i => simpa using ih (by simpa using hx)

end TypeName
