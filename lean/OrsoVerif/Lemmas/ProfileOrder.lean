import OrsoVerif.Model.Profile
import Mathlib.Data.Rat.Floor
import Mathlib.Data.String.Basic
/-! Helper lemmas for C15: `int(x)` of a rational number (truncation toward zero) against floor and
ceiling, and its monotonicity. -/
namespace Profile

theorem truncRat_of_nonneg {q : Rat} (h : 0 ≤ q) : truncRat q = ⌊q⌋ := by
  unfold truncRat
  rw [Rat.floor_def']
  exact Int.tdiv_eq_ediv_of_nonneg (Rat.num_nonneg.mpr h)

theorem truncRat_neg (q : Rat) : truncRat (-q) = - truncRat q := by
  unfold truncRat
  simp [Int.neg_tdiv]

theorem truncRat_of_nonpos {q : Rat} (h : q ≤ 0) : truncRat q = ⌈q⌉ := by
  have h1 : truncRat (-q) = ⌊-q⌋ := truncRat_of_nonneg (by linarith)
  rw [truncRat_neg] at h1
  rw [Int.floor_neg] at h1
  omega

theorem truncRat_mono {a b : Rat} (h : a ≤ b) : truncRat a ≤ truncRat b := by
  rcases le_total 0 a with ha | ha
  · rw [truncRat_of_nonneg ha, truncRat_of_nonneg (le_trans ha h)]
    exact Int.floor_le_floor h
  · rcases le_total 0 b with hb | hb
    · rw [truncRat_of_nonpos ha, truncRat_of_nonneg hb]
      have h1 : ⌈a⌉ ≤ 0 := Int.ceil_le.mpr (by simpa using ha)
      have h2 : 0 ≤ ⌊b⌋ := Int.floor_nonneg.mpr hb
      omega
    · rw [truncRat_of_nonpos ha, truncRat_of_nonpos hb]
      exact Int.ceil_le_ceil h

end Profile
