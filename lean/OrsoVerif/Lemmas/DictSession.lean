import OrsoVerif.Model.DictSession
/-! Helper lemmas for the session theorems of C02 (not property theorems). -/
namespace C02
open DictRow DictSession Gen.DictCode

variable {α : Type}

theorem target_none_iff (s : List (Frame α)) (i : Nat) : s[i % s.length]? = none ↔ s.length = 0 := by
  constructor
  · intro h
    rw [List.getElem?_eq_none_iff] at h
    by_cases h0 : s.length = 0
    · exact h0
    · have := Nat.mod_lt i (Nat.pos_of_ne_zero h0); omega
  · intro h
    rw [List.getElem?_eq_none_iff]; omega

theorem withDicts_append (null : α) (f : Frame α) (a b : List (List (String × α))) :
    withDicts null (withDicts null f a) b = withDicts null f (a ++ b) := by
  simp [withDicts, List.append_assoc]

end C02
