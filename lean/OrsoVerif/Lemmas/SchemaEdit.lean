import OrsoVerif.Model.SchemaEdit
import OrsoVerif.Lemmas.SchemaHeap
/-! Helper lemmas for `Model/SchemaEdit.lean`: a memo on the column that is revalidated by the name and a *copy* of the
aliases (or no memo at all) answers every read with the names of the column as it is then. -/
set_option linter.unusedSectionVars false
set_option linter.unusedSimpArgs false
namespace SchemaOps
variable {ι ν : Type} [DecidableEq ι] [DecidableEq ν]

/-- the memo, when there is one, holds the names of the name and the aliases it remembers -/
def Cell.MemoSound (c : Cell ν) : Prop := ∀ m, c.memo = some m → m.names = namesOf m.name m.copy

theorem Cell.read_sound (p : Option (Bool × String)) (hp : p = none ∨ p = some (true, "copy")) (c : Cell ν) (hs : c.MemoSound) :
    (c.read p).1 = namesOf c.name c.aliases ∧ (c.read p).2.name = c.name ∧ (c.read p).2.aliases = c.aliases
    ∧ (c.read p).2.MemoSound := by
  rcases hp with rfl | rfl
  · cases hm : c.memo <;> simp [Cell.read, hm, hs]
  · cases hm : c.memo with
    | none =>
      refine ⟨by simp [Cell.read, hm], by simp [Cell.read, hm, Cell.remember], by simp [Cell.read, hm, Cell.remember], ?_⟩
      intro m h
      simp only [Cell.read, hm, Cell.remember, Option.some.injEq] at h
      subst h
      rfl
    | some m =>
      by_cases hv : memoValid (true, "copy") c m = true
      · have hv' := hv
        simp only [memoValid, Bool.not_true, Bool.false_or, if_true, Bool.and_eq_true, decide_eq_true_eq] at hv'
        refine ⟨?_, by simp [Cell.read, hm, hv], by simp [Cell.read, hm, hv], ?_⟩
        · simp only [Cell.read, hm, hv, if_true]
          rw [hs m hm, hv'.1, hv'.2]
        · simpa [Cell.read, hm, hv] using hs
      · refine ⟨by simp [Cell.read, hm, hv], by simp [Cell.read, hm, hv, Cell.remember], by simp [Cell.read, hm, hv, Cell.remember], ?_⟩
        intro m' h
        have hv2 : memoValid (true, "copy") c m = false := by simpa using hv
        simp only [Cell.read, hm, hv2, Cell.remember, Option.some.injEq] at h
        simp only [Bool.false_eq_true, if_false, Option.some.injEq] at h
        subst h
        rfl

theorem Cell.edit_sound (e : Edit ν) (c : Cell ν) (hs : c.MemoSound) : (c.edit e).MemoSound := by
  intro m h
  exact hs m (by simpa [Cell.edit] using h)

theorem Cell.run_eq_namesAlong (p : Option (Bool × String)) (hp : p = none ∨ p = some (true, "copy")) (h : List (Option (Edit ν))) :
    ∀ (c : Cell ν), c.MemoSound → Cell.run p c h = namesAlong c.name c.aliases h := by
  induction h with
  | nil => intro c _; rfl
  | cons x rest ih =>
    intro c hs
    cases x with
    | none =>
      obtain ⟨h1, h2, h3, h4⟩ := Cell.read_sound p hp c hs
      simp only [Cell.run, namesAlong, h1]
      rw [ih _ h4, h2, h3]
    | some e =>
      simp only [Cell.run, namesAlong]
      rw [ih _ (Cell.edit_sound e c hs)]
      rfl

end SchemaOps
