import OrsoVerif.Model.PyVal
import OrsoVerif.Model.Wire
import OrsoVerif.Model.Cursor
import OrsoVerif.Props.C04
