#!/bin/bash
# Build the framework offline from files on disk: regenerate the extracted Lean tables from
# /repo's working tree, build every model, lemma and property file and the native model driver.
set -e
cd "$(dirname "$0")"
export PYTHONHASHSEED=0 PYTHONDONTWRITEBYTECODE=1
export PYTHONPATH="$(pwd)${PYTHONPATH:+:$PYTHONPATH}"
/venv/bin/python -m harness.extract >/dev/null
cd lean
lake build OrsoVerif orso_model
echo "setup ok"
