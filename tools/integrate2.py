#!/usr/bin/env python3
"""tools/integrate2.py <workspace-name> <base-commit> [--apply] [--skip rel1,rel2]

Three-way integration of a builder's workspace /tmp/w/<name>/verif into /verif.  `base-commit` is the commit of
/verif the workspace was copied from.  For every file the builder added or changed (relative to the base):
  /verif unchanged since the base  -> copy                      (NEW / UPDATED)
  /verif already equal             -> nothing
  both changed                     -> `git merge-file` three-way (MERGED, or CONFLICT left with markers in <file>.conflict)
Never touches generated files, evidence, replays, build output, MANIFEST.json, known_findings.json.
"""
import os
import subprocess
import sys
import tempfile

SKIP_DIRS = ("lean/.lake", "evidence", "replays", "lean/OrsoVerif/Generated", ".build", ".git", "seeded")
SKIP_FILES = ("MANIFEST.json", "known_findings.json", "lean/Driver.lean", "lean/OrsoVerif.lean", "lean/lake-manifest.json",
              "DESIGN.md")


def main():
    name, base = sys.argv[1], sys.argv[2]
    apply = "--apply" in sys.argv
    skip = set(sys.argv[sys.argv.index("--skip") + 1].split(",")) if "--skip" in sys.argv else set()
    ws = "/tmp/w/%s/verif" % name
    verif = "/verif"
    out = []
    for root, dirs, files in os.walk(ws):
        rel_root = os.path.relpath(root, ws)
        if rel_root == ".":
            rel_root = ""
        if any(rel_root == d or rel_root.startswith(d + "/") for d in SKIP_DIRS) or "__pycache__" in rel_root:
            dirs[:] = []
            continue
        for f in files:
            rel = os.path.join(rel_root, f) if rel_root else f
            if rel in skip or rel in SKIP_FILES or f.endswith((".pyc", ".orig", ".rej", ".tmp")) or f.startswith("th_C"):
                continue
            theirs = open(os.path.join(ws, rel), "rb").read()
            p = subprocess.run(["git", "-C", verif, "show", "%s:%s" % (base, rel)], capture_output=True)
            basev = p.stdout if p.returncode == 0 else None
            if basev is not None and basev == theirs:
                continue  # builder did not touch it
            cur_path = os.path.join(verif, rel)
            ours = open(cur_path, "rb").read() if os.path.exists(cur_path) else None
            if ours == theirs:
                continue
            if ours is None or ours == basev:
                out.append(("NEW" if ours is None else "UPDATED", rel))
                if apply:
                    os.makedirs(os.path.dirname(cur_path) or ".", exist_ok=True)
                    open(cur_path, "wb").write(theirs)
                continue
            # both changed
            with tempfile.TemporaryDirectory() as td:
                fo, fb, ft = (os.path.join(td, n) for n in ("ours", "base", "theirs"))
                open(fo, "wb").write(ours)
                open(fb, "wb").write(basev or b"")
                open(ft, "wb").write(theirs)
                m = subprocess.run(["git", "merge-file", "-p", fo, fb, ft], capture_output=True)
                if m.returncode == 0:
                    out.append(("MERGED", rel))
                    if apply:
                        open(cur_path, "wb").write(m.stdout)
                else:
                    out.append(("CONFLICT", rel))
                    if apply:
                        open(cur_path + ".conflict", "wb").write(m.stdout)
    for k, r in sorted(out):
        print(k, r)
    print("--- fix commits in worktree (not in /repo):")
    subprocess.run("git -C /tmp/w/%s/repo log --oneline $(git -C /repo rev-parse HEAD)..HEAD" % name, shell=True)


if __name__ == "__main__":
    main()
