"""Rewrite harness/extractors/c09_pinned.py from the current working tree (run with ORSO_REPO set, /venv/bin/python)."""
import os
import pprint
import sys

sys.path.insert(0, os.path.dirname(os.path.dirname(os.path.abspath(__file__))))
from harness import extract  # noqa: E402
from harness.extractors import c09  # noqa: E402

o = extract.Out()
c09.generate(o)
if o.degraded:
    sys.exit("not re-pinning, items are degraded: %s" % o.degraded)
keys = [k for k, _, _ in c09.specs()] + ["sparseResultDType"]
out = '"""Pinned translations for harness/extractors/c09.py: what the extractor produced on the tree this check was\nwritten against.  Written out when an item can no longer be translated (a refactor degrades, never alarms).\nRegenerate with tools/c09_repin.py after the proofs have been adapted to a new shape."""\n\nPINNED = {}\n'
for k in keys:
    out += "\nPINNED[%r] = '''%s'''\n" % (k, o.json["schema.lean." + k].replace("\\", "\\\\"))
out += "\nPINNED['numpy_tables'] = " + pprint.pformat(o.json["numpy.dtype_tables"], width=150) + "\n"
open(os.path.join(os.path.dirname(c09.__file__), "c09_pinned.py"), "w").write(out)
print("pinned %d items" % (len(keys) + 1))
