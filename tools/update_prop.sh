#!/bin/bash
# tools/update_prop.sh <ws> <tag>...: copy from a builder's workspace every file whose path contains one of the tags
# (case-sensitive, e.g. C12 c12 GroupBy) and that is new or differs; never touches shared files.
ws=/tmp/w/$1/verif; shift
cd $ws
find . -type f \( -path ./lean/.lake -prune -o -path './evidence/*' -prune -o -path './replays/*' -prune -o -path './lean/OrsoVerif/Generated/*' -prune -o -name '*.pyc' -prune -o -print \) | while read f; do
  f=${f#./}
  case "$f" in lean/.lake/*|evidence/*|replays/*|MANIFEST.json|known_findings.json|lean/Driver.lean|lean/OrsoVerif.lean|*.txt) continue;; esac
  for t in "$@"; do
    if [[ "$f" == *"$t"* ]]; then
      if ! cmp -s "$ws/$f" "/verif/$f"; then mkdir -p "$(dirname /verif/$f)"; cp "$ws/$f" "/verif/$f"; echo "updated $f"; fi
      break
    fi
  done
done
