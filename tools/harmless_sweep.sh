#!/bin/bash
# tools/harmless_sweep.sh <dir-with-N.diff> <out-dir> [parallel]: apply each behaviour-preserving rewrite to a private
# worktree of /repo, run every quick check from a private copy of /verif against it, record exit codes.
# PROPS="03 17" limits the sweep to those checks (default: all twenty).
# Expectation: every check exits 0 (no alarm on code where the properties still hold).
src=$1; out=$2; par=${3:-3}
mkdir -p "$out"
one() {
  n=$1; src=$2; out=$3
  wt=/tmp/hs/wt$n; vc=/tmp/hs/v$n
  rm -rf $vc; git -C /repo worktree remove --force $wt 2>/dev/null; rm -rf $wt
  mkdir -p /tmp/hs
  git -C /repo worktree add -q --detach $wt HEAD || exit 1
  cp /repo/orso/compute/compiled.c /repo/orso/compute/compiled.cpython-312-x86_64-linux-gnu.so $wt/orso/compute/
  if ! git -C $wt apply $src/$n.diff; then echo "$n APPLY-FAILED" > $out/$n.txt; git -C /repo worktree remove --force $wt; exit 0; fi
  rsync -a --exclude .git --exclude replays ${VSRC:-/verif}/ $vc/
  : > $out/$n.txt
  for p in ${PROPS:-$(seq -w 1 20)}; do
    ( cd $vc && ORSO_REPO=$wt timeout 1500 ./check C$p quick > $out/$n-C$p.log 2>&1; echo "$n C$p exit=$? $(grep -c ^VIOLATION $out/$n-C$p.log) $(grep ^VIOLATION $out/$n-C$p.log | head -2 | tr '\n' ' ')" >> $out/$n.txt )
    for r in $(grep -o 'replay=[^ ]*' $out/$n-C$p.log | cut -d= -f2); do cp $vc/$r $out/$n-$(basename $r) 2>/dev/null; done
    python3 - $vc/evidence/C$p.json >> $out/$n.txt 2>/dev/null <<'PY'
import json,sys
d=json.load(open(sys.argv[1])); c=d['coverage']
if c.get('extraction_degraded'): print('   degraded:', c['extraction_degraded'])
if c.get('proof_failures'): print('   proof_failures:', c['proof_failures'][:3])
PY
  done
  git -C /repo worktree remove --force $wt; rm -rf $vc
}
export -f one; export PROPS VSRC
ls $src/*.diff | sed 's/.*\///; s/\.diff//' | sort -n | xargs -P $par -I{} bash -c "one {} $src $out"
