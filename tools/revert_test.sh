#!/bin/bash
# tools/revert_test.sh Cxx <sha>...: for each fix commit, reverse-apply it to /repo's working tree, run the
# quick check (expect exit 1), and restore the tree.
prop=$1; shift
for sha in "$@"; do
  git -C /repo show $sha | git -C /repo apply -R || { echo "cannot reverse $sha"; continue; }
  out=$(cd /verif && ./check $prop quick 2>&1); rc=$?
  echo "== $sha $(git -C /repo log -1 --format=%s $sha): rc=$rc"; echo "$out" | grep -E "VIOLATION|KNOWN|ERROR" | head -3
  git -C /repo checkout -- .
done
