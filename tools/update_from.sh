#!/bin/bash
# tools/update_from.sh <ws> <file>...: copy named files a builder changed in its workspace over /verif's copies
# (only when /verif's copy is unchanged since the last integration, i.e. committed and clean)
ws=/tmp/w/$1/verif; shift
for f in "$@"; do
  if ! git -C /verif diff --quiet -- "$f" 2>/dev/null; then echo "SKIP (locally modified): $f"; continue; fi
  cp "$ws/$f" "/verif/$f" && echo "updated $f"
done
