#!/bin/bash
# tools/mkmutws.sh Cxx: scratch worktree of /repo HEAD for a seeded-mutation agent, plus the property text only
set -e
id=$1; base=${MUTBASE:-/tmp/m}/$id
mkdir -p $base/out
git -C /repo worktree add -q --detach $base/repo HEAD
cp /repo/orso/compute/compiled.c /repo/orso/compute/compiled.cpython-312-x86_64-linux-gnu.so $base/repo/orso/compute/
python3 - "$id" > $base/PROPERTY.txt <<'PY'
import json,sys
for l in open('/verif/properties.jsonl'):
    p=json.loads(l)
    if p['id']==sys.argv[1]:
        print("Property %s — %s\n\nStatement: %s\n\nQuantifier: %s\n\nAnchored in: %s" % (p['id'],p['title'],p['statement'],p['quantifier']['text'],", ".join(p['anchors']['files'])))
PY
echo $base
