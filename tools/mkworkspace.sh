#!/bin/bash
# tools/mkworkspace.sh <name>: isolated copy of /verif (with build output) and a git worktree of /repo
# under /tmp/w/<name>/ for building one property without disturbing the others.
set -e
n="$1"; base=/tmp/w/$n
mkdir -p "$base"
rsync -a --exclude .git /verif/ "$base/verif/"
git -C /repo worktree add -q --detach "$base/repo" HEAD
cp /repo/orso/compute/compiled.c /repo/orso/compute/compiled.cpython-312-x86_64-linux-gnu.so "$base/repo/orso/compute/"
echo "$base"
