#!/venv/bin/python
"""C15: find values whose sketch hash collides (xxh32 of the text get_kvm_hashes hashes), once, offline and
deterministically, and store them in corpus/C15/collisions.json.

The profiler hashes  str(float(v))  for INTEGER / DOUBLE / DECIMAL cells,  str(epoch seconds)  for DATE /
TIMESTAMP cells and the text itself for VARCHAR cells.  Every family below is a birthday search over
ordinary values inside the generators' exact domain (see design_notes/C15.md).  The harness does not trust
the file: at run time it observes the hash from the implementation and only counts a pair as colliding if
it still does (a change of hash function costs coverage, never an alarm).

Run:  /venv/bin/python tools/c15_find_collisions.py   (about a minute)
"""
import json
import os
import sys
from fractions import Fraction

from xxhash import xxh32

HERE = os.path.dirname(os.path.abspath(__file__))
OUT = os.path.join(HERE, "..", "corpus", "C15", "collisions.json")
KEEP = 24


def H(s):
    return xxh32(s.encode()).intdigest()


def search(cands, keep=KEEP):
    """cands: iterable of (json cell, hashed text). Returns groups of cells with equal hashes (first `keep`
    in candidate order, larger groups first)."""
    seen = {}
    groups = {}
    for cell, text in cands:
        h = H(text)
        if h in seen:
            if seen[h][1] == text:
                continue  # same hashed text = same value, not a collision
            groups.setdefault(h, [seen[h][0]]).append(cell)
        else:
            seen[h] = (cell, text)
    out = [{"hash": h, "cells": g} for h, g in groups.items()]
    out.sort(key=lambda g: -len(g["cells"]))
    big = [g for g in out if len(g["cells"]) > 2][:4]
    rest = [g for g in out if len(g["cells"]) == 2][: keep - len(big)]
    return big + rest, len(out)


def main():
    res = {"hash": "xxh32(text.encode()).intdigest()", "families": {}}
    fam = res["families"]

    # VARCHAR: the text itself. Short labels, and long ones sharing their first 64 characters.
    def text_cands():
        for i in range(1500000):
            yield "item-%d" % i, "item-%d" % i
        for i in range(600000):
            yield "v%d" % i, "v%d" % i
        for i in range(600000):
            s = "x" * 64 + "%d" % i
            yield s, s
        for i in range(400000):
            s = "é日%d" % i
            yield s, s

    g, n = search(text_cands(), 40)
    fam["VARCHAR"] = {"hashed": "the value", "found": n, "groups": g}

    # INTEGER: str(float(i)), |i| small enough to be everyday data
    g, n = search(((i, str(float(i))) for i in range(-400000, 2600000)))
    fam["INTEGER"] = {"hashed": "str(float(v))", "found": n, "groups": g}

    # DOUBLE: multiples of 1/64 with |x| <= 1000 (exact labels), and whole floats
    def dbl():
        for k in range(-64000, 64001):
            yield k / 64.0, str(k / 64.0)
        for i in range(1001, 2000000):
            yield float(i), str(float(i))
        for i in range(1001, 600000):
            yield float(-i), str(float(-i))

    g, n = search(dbl())
    fam["DOUBLE"] = {"hashed": "str(v)", "found": n, "groups": g}

    # DECIMAL: text with <= 4 fractional digits; hashed through float
    def dec():
        for k in range(-1500000, 1500001):
            q = Fraction(k, 100)
            s = "%s%d.%02d" % ("-" if k < 0 else "", abs(k) // 100, abs(k) % 100)
            yield s, str(float(q))

    g, n = search(dec())
    fam["DECIMAL"] = {"hashed": "str(float(Decimal(v)))", "found": n, "groups": g}

    # TIMESTAMP: str(epoch seconds); DATE: str(days * 86400)
    def ts():
        for i in range(-300000, 1500000):
            yield i, str(i)
        for i in range(1700000000, 1701200000):
            yield i, str(i)

    g, n = search(ts())
    fam["TIMESTAMP"] = {"hashed": "str(epoch seconds)", "found": n, "groups": g}
    g, n = search(((d, str(d * 86400)) for d in range(-700000, 2900001)))
    fam["DATE"] = {"hashed": "str(days * 86400)", "found": n, "groups": g}

    # the pairs the seeded change C15-w3s3 quotes
    fam["VARCHAR"]["groups"].insert(0, {"hash": H("item-69746"), "cells": ["item-69746", "item-270420"]})
    fam["INTEGER"]["groups"].insert(0, {"hash": H("70860.0"), "cells": [70860, 124855]})
    for k, f in fam.items():
        seen = set()
        uniq = []
        for grp in f["groups"]:
            key = json.dumps(grp["cells"])
            if key not in seen:
                seen.add(key)
                uniq.append(grp)
        f["groups"] = uniq
        print(k, "collision groups found:", f["found"], "kept:", len(uniq), file=sys.stderr)
    with open(OUT, "w") as fh:
        json.dump(res, fh, indent=1, ensure_ascii=False, sort_keys=True)
        fh.write("\n")


if __name__ == "__main__":
    main()
