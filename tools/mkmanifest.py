#!/usr/bin/env python3
"""Regenerate MANIFEST.json from tools/manifest_table.json (keeps it schema-valid)."""
import json, os
here = os.path.dirname(os.path.dirname(os.path.abspath(__file__)))
table = json.load(open(os.path.join(here, "tools", "manifest_table.json")))
props = [json.loads(l) for l in open(os.path.join(here, "properties.jsonl"))]
table["checks"] = {}
mdir = os.path.join(here, "tools", "manifest")
for f in sorted(os.listdir(mdir)):
    if f.endswith(".json"):
        table["checks"][f[:-5]] = json.load(open(os.path.join(mdir, f)))
# merge findings/*.json into known_findings.json (committed; never written at check time)
fdir = os.path.join(here, "findings")
allf = []
for f in sorted(os.listdir(fdir)):
    if f.endswith(".json"):
        allf.extend(json.load(open(os.path.join(fdir, f))))
import subprocess
_log = subprocess.run(["git", "-C", "/repo", "log", "--format=%h\t%s", "132c586..HEAD"], capture_output=True, text=True).stdout
_by_subject = {l.split("\t", 1)[1].strip(): l.split("\t", 1)[0] for l in _log.strip().split("\n") if "\t" in l}
for e in allf:
    if e.get("status") == "fixed":
        sha = _by_subject.get((e.get("commit_subject") or "").strip()) or e.get("commit")
        if sha:
            e["commit"] = sha
        e["record"] = "fixed: property=%s %s %s" % (e["property"], e.get("commit", "?"), e["title"])
    else:
        e["record"] = "open: property=%s %s" % (e["property"], e["title"])
kf = {"comment": "Authoritative list of genuine defects of mabel-dev/orso found by the checks (merged from findings/*.json by tools/mkmanifest.py). 'open' entries are printed as KNOWN-FINDING and suppress only failures matching their predicate; 'fixed' entries suppress nothing. Never written at check time.", "findings": allf}
json.dump(kf, open(os.path.join(here, "known_findings.json"), "w"), indent=1)
checks, na = [], []
for p in props:
    pid = p["id"]
    t = table["checks"].get(pid)
    if t is None or t.get("not_applicable"):
        na.append({"property_id": pid, "reason": (t or {}).get("reason", "check not built yet (work in progress; see DESIGN.md section 6 for the plan)")})
        continue
    checks.append({
        "property_id": pid,
        "quick_cmd": "./check %s quick" % pid,
        "thorough_cmd": "./check %s thorough" % pid,
        "evidence_file": "evidence/%s.json" % pid,
        "replay_cmd_template": "./check --replay {path}",
        "engine": "lean4-proof+correspondence",
        "level_claimed": {"category": "proof", "text": t["text"], "design_ref": "DESIGN.md section 6, %s" % pid},
        "level_note": t["note"],
        "technique": t["technique"],
    })
m = {
    "version": 1,
    "setup_cmd": "./setup.sh",
    "hooks": {
        "guard": "MABEL_DEV_ORSO_VERIF",
        "enable": "export MABEL_DEV_ORSO_VERIF=1 (set by ./check; no source hooks are needed: clocks, thread schedules and casters are patched from the harness)",
        "baseline_off_cmd": "cd /repo && /venv/bin/python -m pytest -ra -q -p no:cacheprovider --timeout=900 --continue-on-collection-errors",
        "source_commits": table.get("hook_commits", []),
        "add_only": True,
    },
    "engines": [{
        "name": "lean4-proof+correspondence",
        "path": "lean/ (Lake project OrsoVerif), harness/ (Python), check",
        "serves_properties": [c["property_id"] for c in checks],
        "kind_free_text": "Lean 4 theorems about executable models; models tied to /repo (a) by per-run regeneration from the source: constants, tables, expressions (harness/pyexpr.py) and whole small functions (harness/pystmt*.py and the per-property statement readers) translated into Lean definitions that the theorems mention or are proved equal to the hand model (generated_*_eq_model / *_refines), and (b) by a differential correspondence check that runs model and implementation on the same inputs, operation sequences and histories, with a direct oracle on the implementation's own outputs",
    }],
    "checks": checks,
    "notes": table.get("notes", ""),
    "not_applicable": na,
}
json.dump(m, open(os.path.join(here, "MANIFEST.json"), "w"), indent=1)
print("checks:", [c["property_id"] for c in checks], "n/a:", [x["property_id"] for x in na])
