#!/bin/bash
# tools/integrate.sh <workspace-name> [--apply]: list (or copy) files a builder added/changed in /tmp/w/<name>/verif
ws=/tmp/w/$1/verif
mode=${2:---list}
EXC=(--exclude .git --exclude 'lean/.lake' --exclude evidence --exclude replays --exclude 'lean/OrsoVerif/Generated' --exclude MANIFEST.json --exclude known_findings.json --exclude lean/Driver.lean --exclude lean/OrsoVerif.lean --exclude '__pycache__' --exclude '.build' --exclude 'lean/lake-manifest.json')
if [ "$mode" = "--apply" ]; then
  rsync -rc "${EXC[@]}" --ignore-existing --out-format='NEW %n' "$ws/" /verif/
  echo "--- changed shared files (NOT copied):"
  rsync -rcn "${EXC[@]}" --existing --out-format='CHANGED %n' "$ws/" /verif/
else
  rsync -rcn "${EXC[@]}" --out-format='%n' "$ws/" /verif/
fi
echo "--- fix commits in worktree:"
git -C /tmp/w/$1/repo log --oneline 132c586..HEAD
