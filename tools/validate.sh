#!/bin/bash
# tools/validate.sh: MANIFEST.json and every evidence file against the schemas in /root/.vp
cd "$(dirname "$0")/.."
python3-vt - <<'PY'
import json, jsonschema, glob, sys
ok = True
try:
    jsonschema.validate(json.load(open("MANIFEST.json")), json.load(open("/root/.vp/MANIFEST.schema.json")))
    print("MANIFEST.json valid")
except Exception as e:
    ok = False; print("MANIFEST.json INVALID:", str(e)[:400])
es = json.load(open("/root/.vp/EVIDENCE.schema.json"))
for f in sorted(glob.glob("evidence/*.json")):
    try:
        d = json.load(open(f)); jsonschema.validate(d, es)
        c = d["coverage"]
        flag = "" if c.get("obligations") == c.get("discharged") and d.get("violations", 0) == 0 else "  <-- discharged %s/%s violations %s" % (c.get("discharged"), c.get("obligations"), d.get("violations"))
        print(f, "valid", d["tier"], "seed", d["seed"], "%ss" % d["wall_s"], flag)
    except Exception as e:
        ok = False; print(f, "INVALID:", str(e)[:300])
sys.exit(0 if ok else 1)
PY
