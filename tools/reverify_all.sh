#!/bin/bash
# tools/reverify_all.sh [parallel] [id-prefix...]: re-run every stored seeded change (in place, isolated) against the current checks
cd /verif
par=${1:-4}; shift
mkdir -p /tmp/rv
ls seeded | grep -v harmless | while read s; do
  if [ $# -gt 0 ]; then ok=0; for p in "$@"; do case $s in $p*) ok=1;; esac; done; [ $ok = 1 ] || continue; fi
  echo $s
done | xargs -P $par -I{} bash -c 'p=$(echo {} | cut -d- -f1); python3 tools/verify_seeded.py $p /verif/seeded/{} {} --isolated $VS_FLAGS > /tmp/rv/{}.log 2>&1; echo "{} $(tail -1 /tmp/rv/{}.log | cut -c1-150)"'
