#!/usr/bin/env python3
"""tools/verify_seeded.py <PROP> <dir-with-patch.diff,demo.py,meta.json> <seeded-id> [--tier quick|thorough]

Confirms a seeded change independently (scratch worktree: suite unchanged, demo fails with / passes
without the change), then applies it to /repo, runs the property's check, undoes it straight
afterwards, and stores the result as /verif/seeded/<seeded-id>/.
"""
import json
import os
import re
import shutil
import subprocess
import sys
import time

VERIF = os.path.dirname(os.path.dirname(os.path.abspath(__file__)))
SUITE = ("/venv/bin/python -m pytest -q -p no:cacheprovider --timeout=900 --continue-on-collection-errors "
         "-x --co -q >/dev/null 2>&1; /venv/bin/python -m pytest -q -p no:cacheprovider --timeout=900 "
         "--continue-on-collection-errors 2>/dev/null | tail -12")


def sh(cmd, cwd=None, timeout=3600):
    p = subprocess.run(cmd, shell=True, cwd=cwd, capture_output=True, text=True, timeout=timeout)
    return p.returncode, (p.stdout + p.stderr)


def apply_patch(patch, cwd):
    """`git apply`; when a later repair only moved the surrounding lines (an added import, a re-indented neighbour)
    the same hunks are applied with the context reduced to one line."""
    rc, out = sh("git apply %s" % patch, cwd=cwd)
    if rc != 0:
        rc2, out2 = sh("git apply -C1 %s" % patch, cwd=cwd)
        if rc2 == 0:
            return 0, "applied with reduced context"
    return rc, out


def suite_result(cwd):
    rc, out = sh("/venv/bin/python -m pytest -q -p no:cacheprovider --timeout=900 --continue-on-collection-errors 2>/dev/null | tail -15", cwd=cwd)
    failed = sorted(set(re.findall(r"^FAILED (\S+)", out, re.M)))
    m = re.search(r"(\d+) failed, (\d+) passed|(\d+) passed", out)
    summary = m.group(0) if m else out[-200:]
    return summary, failed


def main():
    prop, src, sid = sys.argv[1], sys.argv[2], sys.argv[3]
    tier = sys.argv[sys.argv.index("--tier") + 1] if "--tier" in sys.argv else "quick"
    patch = os.path.join(src, "patch.diff")
    # a later repair may have rewritten the lines a seeded change touches: the same change re-based on the current tree
    rebased = sorted(f for f in os.listdir(src) if f.startswith("patch.rebased") and f.endswith(".diff"))
    if rebased:
        patch = os.path.join(src, rebased[-1])
    demo = os.path.join(src, "demo.py")
    if os.path.exists(os.path.join(src, "demo.rebased.py")):
        # a repair changed what the original demonstration relies on (e.g. it suspended a thread where a lock is now held)
        demo = os.path.join(src, "demo.rebased.py")
    meta = json.load(open(os.path.join(src, "meta.json"))) if os.path.exists(os.path.join(src, "meta.json")) else {}
    wt = "/tmp/v/%s" % sid
    ran = []
    sh("git -C /repo worktree remove --force %s" % wt)
    shutil.rmtree(wt, ignore_errors=True)
    os.makedirs("/tmp/v", exist_ok=True)
    rc, out = sh("git -C /repo worktree add -q --detach %s HEAD" % wt)
    assert rc == 0, out
    try:
        for f in ("compiled.c", "compiled.cpython-312-x86_64-linux-gnu.so"):
            shutil.copy("/repo/orso/compute/" + f, wt + "/orso/compute/" + f)
        demo_src = open(demo).read()
        # run the demo against the scratch worktree whatever path it hard-codes
        demo_local = os.path.join(wt, "_demo_seeded.py")
        open(demo_local, "w").write(re.sub(r"/tmp/m\d*/%s/repo" % prop, wt, demo_src))
        rc0, out0 = sh("/venv/bin/python _demo_seeded.py", cwd=wt, timeout=900)
        ran.append("demo on unchanged tree -> exit %d" % rc0)
        rc, out = apply_patch(patch, wt)
        if rc != 0:
            print("PATCH DOES NOT APPLY:", out)
            return 3
        cpatch0 = os.path.join(src, "c_patch.diff")
        if os.path.exists(cpatch0):
            rc, out = sh("patch -p0 orso/compute/compiled.c < %s && cd orso/compute && gcc -shared -fPIC -O1 -DNDEBUG "
                         "-I/root/.pyenv/versions/3.12.1/include/python3.12 -I/venv/lib/python3.12/site-packages/numpy/_core/include "
                         "-o compiled.cpython-312-x86_64-linux-gnu.so compiled.c" % cpatch0, cwd=wt)
            if rc != 0:
                print("C PATCH DOES NOT APPLY/BUILD:", out[-2000:])
                return 3
            ran.append("compiled.c patched and the extension rebuilt with gcc")
        rc1, out1 = sh("/venv/bin/python _demo_seeded.py", cwd=wt, timeout=900)
        ran.append("demo with the change -> exit %d" % rc1)
        if "--no-suite" in sys.argv and meta.get("patch_used") == os.path.basename(patch) and any("test suite with the change" in r and "passed" in r for r in (meta.get("verifier_ran") or [])):
            # a re-verification of a change whose patch is unchanged since the suite was last run with it
            prev = [r for r in meta["verifier_ran"] if "test suite with the change" in r][-1]
            summary, failed = prev.split("-> ", 1)[1] + " (suite result carried over from the earlier verification)", []
        else:
            summary, failed = suite_result(wt)
        flaky = {"tests/test_faker.py::test_nullable_columns", "tests/test_faker.py::test_unfakeable_types"}
        if failed and set(failed) <= flaky:
            # unseeded random-frequency tests of the faker fail now and then on the unchanged tree too: once more
            ran.append("test suite with the change -> %s (only the randomly flaky %s failed; run again)" % (summary, ", ".join(failed)))
            summary, failed = suite_result(wt)
        ran.append("test suite with the change -> %s" % summary)
        known8 = {"tests/test_dataframe.py::test_profile", "tests/test_dataframe.py::test_build_and_then_profile",
                  "tests/test_profiler.py::test_opteryx_profile_planets", "tests/test_profiler.py::test_opteryx_profile_satellites",
                  "tests/test_profiler.py::test_opteryx_profile_astronauts", "tests/test_profiler.py::test_opteryx_profile_missions",
                  "tests/test_profiler.py::test_opteryx_profile_fake", "tests/test_profiler.py::test_profile_estimators"}
        mp = re.search(r"(\d+) passed", summary)
        # the baseline's 350 stable tests must still pass: nothing outside the 8 known always-fail tests may fail
        suite_ok = bool(mp) and int(mp.group(1)) >= 350 and set(failed) <= known8
    finally:
        sh("git -C /repo worktree remove --force %s" % wt)
        shutil.rmtree(wt, ignore_errors=True)
    confirmed = rc0 == 0 and rc1 != 0 and suite_ok
    # a later repair of orso can make a seeded change behaviour-preserving (its demonstration then passes with the
    # change applied): it no longer breaks the property and is kept for the record only
    superseded = rc0 == 0 and rc1 == 0 and suite_ok
    print("demo unchanged=%d changed=%d suite=%s confirmed=%s" % (rc0, rc1, summary, confirmed))
    isolated = "--isolated" in sys.argv
    if isolated:
        # the check runs from a private copy of /verif (with its build output) against a private
        # worktree of /repo carrying the change, so several changes can be examined at once and
        # neither /repo nor /verif's evidence is touched
        vcopy = "/tmp/vv/%s" % sid
        wt2 = "/tmp/v/%s-chk" % sid
        sh("git -C /repo worktree remove --force %s" % wt2)
        shutil.rmtree(wt2, ignore_errors=True)
        shutil.rmtree(vcopy, ignore_errors=True)
        os.makedirs("/tmp/vv", exist_ok=True)
        rc, out = sh("rsync -a --exclude .git --exclude replays %s/ %s/" % (VERIF, vcopy))
        assert rc == 0, out
        rc, out = sh("git -C /repo worktree add -q --detach %s HEAD" % wt2)
        assert rc == 0, out
        for f in ("compiled.c", "compiled.cpython-312-x86_64-linux-gnu.so"):
            shutil.copy2("/repo/orso/compute/" + f, wt2 + "/orso/compute/" + f)
        rc, out = apply_patch(patch, wt2)
        assert rc == 0, out
        cpatch = os.path.join(src, "c_patch.diff")
        if os.path.exists(cpatch):
            rc, out = sh("patch -p0 orso/compute/compiled.c < %s" % cpatch, cwd=wt2)
            assert rc == 0, out
        t = time.time()
        try:
            crc, cout = sh("ORSO_REPO=%s ./check %s %s" % (wt2, prop, tier), cwd=vcopy, timeout=3000)
            check_root = vcopy
            viol_ = [l for l in cout.split("\n") if l.startswith("VIOLATION")]
            for l in viol_[:3]:
                m_ = re.search(r"replay=(\S+)", l)
                if m_ and os.path.exists(os.path.join(vcopy, m_.group(1))):
                    os.makedirs(os.path.join(VERIF, "seeded", sid), exist_ok=True)
                    shutil.copy(os.path.join(vcopy, m_.group(1)), os.path.join(VERIF, "seeded", sid, os.path.basename(m_.group(1))))
        finally:
            sh("git -C /repo worktree remove --force %s" % wt2)
            shutil.rmtree(wt2, ignore_errors=True)
        wall = time.time() - t
    else:
        # now the check, on /repo itself
        rc, out = sh("git -C /repo status --porcelain")
        assert out.strip() == "", "/repo is not clean: " + out
        rc, out = sh("git -C /repo apply %s" % patch)
        assert rc == 0, out
        t = time.time()
        # the evidence file of a run against a changed tree must not replace the one from the unchanged tree
        ev = os.path.join(VERIF, "evidence", prop + ".json")
        ev_saved = open(ev).read() if os.path.exists(ev) else None
        try:
            crc, cout = sh("./check %s %s" % (prop, tier), cwd=VERIF, timeout=3000)
        finally:
            sh("git -C /repo checkout -- .")
            if ev_saved is not None:
                open(ev, "w").write(ev_saved)
        wall = time.time() - t
        check_root = VERIF
    viol = [l for l in cout.split("\n") if l.startswith("VIOLATION")]
    ran.append("./check %s %s with the change applied to /repo -> exit %d in %.0fs; %s" % (prop, tier, crc, wall, "; ".join(viol[:3])))
    print("check exit=%d %s" % (crc, viol[:3]))
    replay_info = None
    if viol:
        m = re.search(r"replay=(\S+)", viol[0])
        if m and os.path.exists(os.path.join(check_root, m.group(1))):
            rp = json.load(open(os.path.join(check_root, m.group(1))))
            replay_info = {"kind": rp.get("kind"), "case": rp.get("case"), "clause": (rp.get("failure") or {}).get("clause"),
                           "theorems_that_no_longer_check": rp.get("theorems_that_no_longer_check")}
    dst = os.path.join(VERIF, "seeded", sid)
    os.makedirs(dst, exist_ok=True)
    if os.path.abspath(src) != os.path.abspath(dst):
        shutil.copy(patch, os.path.join(dst, "patch.diff"))
        shutil.copy(demo, os.path.join(dst, "demo.py"))
    meta_out = {
        "property": prop,
        "seeded_id": sid,
        "summary": meta.get("summary"),
        "needs_to_manifest": meta.get("needs_to_manifest"),
        "files": meta.get("files"),
        "author_ran": meta.get("ran") or meta.get("author_ran"),
        "confirmed_independently": confirmed,
        "superseded": superseded,
        "verifier_ran": ran,
        "patch_used": os.path.basename(patch),
        "check_tier": tier,
        "check_exit": crc,
        "detected": crc == 1 and bool(viol),
        "violation_lines": viol[:5],
        "replay": replay_info,
    }
    json.dump(meta_out, open(os.path.join(dst, "meta.json"), "w"), indent=1, default=repr)
    if os.path.exists(os.path.join(src, "c_patch.diff")) and os.path.abspath(src) != os.path.abspath(dst):
        shutil.copy(os.path.join(src, "c_patch.diff"), os.path.join(dst, "c_patch.diff"))
    with open(os.path.join(dst, "check_output.txt"), "w") as f:
        f.write(cout[-6000:])
    if isolated:
        shutil.rmtree("/tmp/vv/%s" % sid, ignore_errors=True)
    return 0


if __name__ == "__main__":
    sys.exit(main())
